/-
C03 — Secured packets are delivered only if authentic and untampered.  Property theorems only.
Model: FlexModel/Sec/Verify.lean (`verifyMsg`, router `gate`) over the library of C09; lemmas: FlexModel/Sec/Lemmas.lean.
"Delivered" = handed to `process_common_header` (`GateOut.pass`), the only way to the upper-layer callback.
The signature relation is abstract: `m.sigBy = some k` means the packet's signature verifies under key `k` over the
re-encoded ToBeSignedData (payload + signed header information) exactly as received.
-/
import FlexModel.Sec.Lemmas
import FlexModel.Sec.Reentrancy
import FlexModel.Sec.OwnIndep
import FlexModel.Sec.RxPath
import Generated.Sec
import Generated.SecWrites
import Generated.SecRx

namespace Props.C03
open FlexModel.Sec FlexModel.Sec.Store

/-- what "authentic" means for a delivered payload `pl` of packet `p` at a station whose library is `st` afterwards -/
structure Authentic (st : Store) (p : Packet) (pl : Nat) : Prop where
  secured : ∃ m, p = .secured (some m) ∧ pl = m.payload ∧
    ∃ a, a ∈ st.ats ∧ m.sigBy = some a.c.key ∧ a.c.isAT = true ∧ Chain st a.c ∧
      (m.signer = .digest a.c.id ∨ ∃ c, m.signer = .certs [c] ∧ c.id = a.c.id)

def Packet.certs : Packet → List Cert
  | .secured (some m) => m.certs
  | _ => []

/-- MAIN: with security enabled, a payload is handed to the upper layers only if the packet is a secured packet,
    the delivered bytes are its signed payload, and its signature verifies under the key of an authorization ticket
    of the store whose chain reaches a configured root — for every library satisfying C09's invariant, and for every
    variant `cfg` of the code that has the containment guard of C09-F3 (`allGuard`; the two acceptance guards of
    C09-F1/F2 are not needed for authenticity). -/
theorem deliver_implies_authentic {U : Cert → Prop} (hinj : IdInj U) {cfg : Cfg} (hg : cfg.allGuard = true)
    {S S' : Station} (hinv : Inv U S.store)
    {hv : Bool} {p : Packet} (hp : ∀ c ∈ Packet.certs p, U c) {pl : Nat}
    (h : gate cfg true hv S p = (S', .pass pl)) : Authentic S'.store p pl := by
  rcases gate_pass h with ⟨_, hen, _⟩ | ⟨m, o, rfl, _, hvm, hs, hpl⟩
  · simp at hen
  · obtain ⟨a, hmem, hacc, hsg⟩ := verifyMsg_success hvm hs
    have hinv' : Inv U S'.store := by
      have := verifyMsg_inv hinj (cfg := cfg) hg hinv (m := m) hp
      rw [hvm] at this; exact this
    refine ⟨m, rfl, ?_, a, hmem, hacc.sig, hacc.isAT, hinv'.closed _ (Or.inr (mem_certsOf.2 ⟨a, hmem, rfl⟩)), hsg⟩
    have := hacc.plain; rw [hpl] at this; exact (Option.some.inj this)

def stepPacket (cfg : Cfg) (en hv : Bool) (S : Station) (p : Packet) : Station := (gate cfg en hv S p).1

/-- C09's invariant survives every history of received packets (genuine or forged, any order and number) -/
theorem history_inv {U : Cert → Prop} (hinj : IdInj U) {cfg : Cfg} (hg : cfg.allGuard = true) (en hv : Bool)
    (hist : List Packet) (S0 : Station)
    (hinv : Inv U S0.store) (hh : ∀ q ∈ hist, ∀ c ∈ Packet.certs q, U c) :
    Inv U (hist.foldl (stepPacket cfg en hv) S0).store := by
  induction hist generalizing S0 with
  | nil => exact hinv
  | cons q rest ih =>
    simp only [List.foldl_cons]
    refine ih _ ?_ (fun r hr => hh r (by simp [hr]))
    unfold stepPacket
    rw [gate_state]
    split
    · rename_i m
      split
      · exact verifyMsg_inv hinj hg hinv (hh (.secured (some m)) (by simp))
      · exact hinv
    · exact hinv

/-- … whatever genuine or forged packets were received before: for every history of received packets starting from
    a library closed under C09 (e.g. configured roots only) -/
theorem deliver_implies_authentic_after_any_history {U : Cert → Prop} (hinj : IdInj U) {cfg : Cfg}
    (hg : cfg.allGuard = true) (hist : List Packet)
    {S0 S' : Station} (hinv : Inv U S0.store) {hv : Bool} (hh : ∀ q ∈ hist, ∀ c ∈ Packet.certs q, U c)
    {p : Packet} (hp : ∀ c ∈ Packet.certs p, U c) {pl : Nat}
    (h : gate cfg true hv (hist.foldl (stepPacket cfg true hv) S0) p = (S', .pass pl)) :
    Authentic S'.store p pl :=
  deliver_implies_authentic hinj hg (history_inv hinj hg true hv hist S0 hinv hh) hp h

/-- unsecured packets are dropped when itsGnSecurity is ENABLED, in every state -/
theorem unsecured_dropped_when_enabled (cfg : Cfg) (hv : Bool) (S : Station) (pl : Nat) :
    gate cfg true hv S (.unsecured pl) = (S, .drop "unsecured") := rfl

/-- without a verify service nothing secured is delivered -/
theorem no_verify_service_dropped (cfg : Cfg) (en : Bool) (S : Station) (m : Option Msg) :
    gate cfg en false S (.secured m) = (S, .drop "no-verify-service") := by
  cases m <;> rfl

/-- a report other than SUCCESS is never delivered -/
theorem report_not_success_dropped {cfg : Cfg} {en : Bool} {S S' : Station} {m : Msg} {o : VOut}
    (h : S.verifyMsg cfg m = (S', .ok o)) (hr : o.report ≠ .success) :
    gate cfg en true S (.secured (some m)) = (S', .drop ("report-" ++ toString o.report.code)) := by
  unfold gate
  simp only [Bool.not_true, Bool.false_eq_true, if_false, h]
  simp [hr]

/-- a digest-signed packet of an unknown ticket is not delivered (SIGNER_CERTIFICATE_NOT_FOUND) -/
theorem unknown_digest_dropped {cfg : Cfg} {en hv : Bool} {S : Station} {m : Msg} {h8 : Nat}
    (hsg : m.signer = .digest h8) (hun : find S.store.ats h8 = none) (pl : Nat) :
    (gate cfg en hv S (.secured (some m))).2 ≠ .pass pl := by
  intro hc
  have hg : gate cfg en hv S (.secured (some m)) = ((gate cfg en hv S (.secured (some m))).1, .pass pl) := by
    rw [← hc]
  rcases gate_pass hg with ⟨h, _, _⟩ | ⟨m', o, hm, _, hvm, hs, _⟩
  · simp at h
  · cases hm
    obtain ⟨a, _, _, hsg'⟩ := verifyMsg_success hvm hs
    unfold Station.verifyMsg at hvm
    rw [hsg] at hvm
    simp only [hun] at hvm
    split at hvm
    · simp only [Prod.mk.injEq, Except.ok.injEq] at hvm; rw [← hvm.2] at hs; simp at hs
    · simp only [Prod.mk.injEq, Except.ok.injEq] at hvm; rw [← hvm.2] at hs; simp at hs

/-- a packet carrying a self-made chain – a signer certificate that is not a known ticket and whose issuer is not in
    the library – is not delivered, whatever its signature (INCONSISTENT_CHAIN / UNSUPPORTED for longer lists) -/
theorem self_made_chain_dropped {cfg : Cfg} {en hv : Bool} {S : Station} {m : Msg} {cs : List Cert}
    (hsg : m.signer = .certs cs)
    (hself : ∀ c ∈ cs, find S.store.ats c.id = none ∧ S.store.getIssuer c = .ok none) (pl : Nat) :
    (gate cfg en hv S (.secured (some m))).2 ≠ .pass pl := by
  intro hc
  have hg : gate cfg en hv S (.secured (some m)) = ((gate cfg en hv S (.secured (some m))).1, .pass pl) := by
    rw [← hc]
  rcases gate_pass hg with ⟨h, _, _⟩ | ⟨m', o, hm, _, hvm, hs, _⟩
  · simp at h
  · cases hm
    unfold Station.verifyMsg at hvm
    rw [hsg] at hvm
    simp only at hvm
    split at hvm
    · rename_i c
      obtain ⟨h1, h2⟩ := hself c (by simp)
      simp only [Store.verifySeq1, h1, h2] at hvm
      simp only [Prod.mk.injEq, Except.ok.injEq] at hvm; rw [← hvm.2] at hs; simp at hs
    · simp only [Prod.mk.injEq, Except.ok.injEq] at hvm; rw [← hvm.2] at hs; simp at hs

/-- altered signed content, signer or signature: if the signature does not verify under the key of the ticket the
    signer field resolves to, the packet is not delivered -/
theorem tampered_dropped {cfg : Cfg} {en hv : Bool} {S : Station} {m : Msg} (pl : Nat)
    (hbad : ∀ a, a ∈ (gate cfg en hv S (.secured (some m))).1.store.ats →
      (m.signer = .digest a.c.id ∨ ∃ c, m.signer = .certs [c] ∧ c.id = a.c.id) → m.sigBy ≠ some a.c.key) :
    (gate cfg en hv S (.secured (some m))).2 ≠ .pass pl := by
  intro hc
  have hg : gate cfg en hv S (.secured (some m)) = ((gate cfg en hv S (.secured (some m))).1, .pass pl) := by
    rw [← hc]
  rcases gate_pass hg with ⟨h, _, _⟩ | ⟨m', o, hm, _, hvm, hs, _⟩
  · simp at h
  · cases hm
    obtain ⟨a, hmem, hacc, hsg⟩ := verifyMsg_success hvm hs
    exact hbad a hmem hsg hacc.sig

/-- "over exactly the delivered bytes": what is handed up is the payload INSIDE the signed content `m.tbs`, and – the
    abstraction of the packet being sound for the signature scheme `G` – the packet's signature value verifies over
    that very content (payload and signed header information together) under the key of the chained ticket -/
theorem delivered_is_signed_content {U : Cert → Prop} (hinj : IdInj U) {cfg : Cfg} (hg : cfg.allGuard = true)
    (G : SigScheme) {S S' : Station} (hinv : Inv U S.store) {hv : Bool} {m : Msg} (hm : ∀ c ∈ m.certs, U c)
    (hsound : m.SigSound G) {pl : Nat} (h : gate cfg true hv S (.secured (some m)) = (S', .pass pl)) :
    pl = m.tbs.payload ∧ ∃ a, a ∈ S'.store.ats ∧ Chain S'.store a.c ∧ G.V a.c.key m.tbs m.sig := by
  obtain ⟨m', hp, hpl, a, hmem, hsig, _, hchain, _⟩ :=
    (deliver_implies_authentic hinj hg hinv (p := .secured (some m)) hm h).secured
  cases hp
  exact ⟨hpl, a, hmem, hchain, hsound _ hsig⟩

/-- altered signed content: a packet `m'` that re-uses the signature VALUE of a packet `m` over different signed
    content (payload or any signed header field changed in any bit) is not delivered under any ticket whose key
    validated `m`'s signature – from the explicit cryptographic assumption `G.binding` (one signature value, one
    content), not from a hypothesis about the verdict.  (A changed signature value is outside this statement: ECDSA
    signatures are malleable, `s ↦ n − s` verifies over the same content and is authentic by the property's text.) -/
theorem tampered_content_dropped (G : SigScheme) {cfg : Cfg} {en hv : Bool} {S : Station} {m m' : Msg} {k : Nat}
    (hm : m.SigSound G) (hm' : m'.SigSound G) (hk : m.sigBy = some k) (hsig : m'.sig = m.sig)
    (htbs : m'.tbs ≠ m.tbs)
    (hres : ∀ a, a ∈ (gate cfg en hv S (.secured (some m'))).1.store.ats →
      (m'.signer = .digest a.c.id ∨ ∃ c, m'.signer = .certs [c] ∧ c.id = a.c.id) → a.c.key = k) (pl : Nat) :
    (gate cfg en hv S (.secured (some m'))).2 ≠ .pass pl := by
  apply tampered_dropped pl
  intro a ha hsg hc
  have hkey := hres a ha hsg
  rw [hkey] at hc
  have h1 := hm' k hc
  rw [hsig] at h1
  exact htbs (G.binding k _ _ _ h1 (hm k hk))

/-- history independence (1): the verdict on a packet and the library afterwards are a function of the library (and of
    whether a sign service is attached) – timers, P2PCD lists and everything else earlier traffic left behind are
    irrelevant -/
theorem history_independence (cfg : Cfg) (S T : Station) (m : Msg) (hst : S.store = T.store)
    (hs : S.hasSign = T.hasSign) :
    (S.verifyMsg cfg m).2 = (T.verifyMsg cfg m).2 ∧ (S.verifyMsg cfg m).1.store = (T.verifyMsg cfg m).1.store :=
  verdict_depends_on_store_only cfg S T m hst hs

/-- history independence (2): a received packet – forged or not – changes the library at most by appending
    certificates, never roots; and (by `closed_step` of C09) everything appended is chain-verified -/
theorem packets_only_append (cfg : Cfg) (en hv : Bool) (S : Station) (p : Packet) :
    Store.Grows S.store (gate cfg en hv S p).1.store := by
  rw [gate_state]
  split
  · split
    · exact verifyMsg_grows cfg S _
    · exact Store.Grows.refl _
  · exact Store.Grows.refl _

/-- history independence (3): a packet that fails signer resolution (unknown digest, chain not verifying, unsupported
    signer) leaves the library exactly as it was -/
theorem unresolved_packet_leaves_library {cfg : Cfg} {S S' : Station} {m : Msg} {o : VOut}
    (h : S.verifyMsg cfg m = (S', .ok o))
    (hr : o.report = .signerCertificateNotFound ∨ o.report = .inconsistentChain ∨
          o.report = .unsupportedSignerIdentifierType) : S'.store = S.store := by
  have hcore := verifyMsg_core cfg S m
  rw [h] at hcore
  exact unresolved_core hcore.symm hr

/-- regenerated fact: the repository's ReportVerify enum has exactly the values the model's reports print
    (a renumbered or extended enum re-opens this obligation) -/
theorem report_codes_agree :
    Generated.Sec.reportCodes =
      [("SUCCESS", Report.success.code), ("FALSE_SIGNATURE", Report.falseSignature.code),
       ("INVALID_CERTIFICATE", Report.invalidCertificate.code), ("REVOKED_CERTIFICATE", Report.revokedCertificate.code),
       ("INCONSISTENT_CHAIN", Report.inconsistentChain.code), ("INVALID_TIMESTAMP", Report.invalidTimestamp.code),
       ("DUPLICATE_MESSAGE", Report.duplicateMessage.code), ("INVALID_MOBILITY_DATA", Report.invalidMobilityData.code),
       ("UNSIGNED_MESSAGE", Report.unsignedMessage.code),
       ("SIGNER_CERTIFICATE_NOT_FOUND", Report.signerCertificateNotFound.code),
       ("UNSUPPORTED_SIGNER_IDENTIFIER_TYPE", Report.unsupportedSignerIdentifierType.code),
       ("INCOMPATIBLE_PROTOCOL", Report.incompatibleProtocol.code)] := by decide

/-! ## Re-entrancy: the model is a function of (station state, packet) – and the source keeps nothing else -/

/-- regenerated fact (ast pass of harness/gen_sec.py over verify_service.py, certificate_library.py, certificate.py,
    sign_service.py, ecdsa_backend.py): the stores that outlive a call of `VerifyService.verify` – every
    `self.<attr>` assignment / augmented assignment / deletion / item store / mutating container call / setattr /
    module-global store in every function the verification path can reach, `__init__` excluded – are EXACTLY the
    ones the model carries as `Station` state: the library learns authorities and tickets, the sign service keeps the
    P2PCD lists and the request flag.  `VerifyService` itself stores nothing, so two overlapping `verify()` calls
    share nothing but that state.  A new instance attribute written on the path (e.g. the decoded SignedData kept in
    `self._signed_data` for a helper method) re-opens this obligation. -/
theorem reentrancy_matches_source :
    Generated.SecWrites.verifyServiceWrites = [] ∧
    (Generated.SecWrites.verifyPathWrites = modelledWrites ∨
     Generated.SecWrites.verifyPathWrites = modelledWritesOld) := by
  decide

/-- … and the model writes nowhere else: each modelled write lands in a `Station` field of `writtenFields`
    (authorities, tickets, unknown / requested lists, request flag, owed set), and a received packet – genuine or
    forged – leaves every other field (configured roots, own certificates, presence of the sign service, CAM timers,
    variant) untouched -/
theorem verify_write_footprint (cfg : Cfg) (S : Station) (m : Msg) :
    (∀ f, f ∈ writtenFields ↔ some f ∈ modelledWrites.map (fun w => fieldOfTarget w.2.2.2)) ∧
    (S.verifyMsg cfg m).1.store.roots = S.store.roots ∧ (S.verifyMsg cfg m).1.store.own = S.store.own ∧
    (S.verifyMsg cfg m).1.hasSign = S.hasSign ∧ (S.verifyMsg cfg m).1.lastFull = S.lastFull ∧
    (S.verifyMsg cfg m).1.lastOf = S.lastOf ∧ (S.verifyMsg cfg m).1.perTicket = S.perTicket :=
  ⟨modelledWrites_fields.2.1, verifyMsg_footprint cfg S m⟩

/-- serial semantics of two packets handed to one station: the verdict on each packet is the model's verdict in the
    state left by the packets before it – the only two outcomes a correct (linearisable) concurrent execution of two
    overlapping `verify()` calls may show are `serial p q` and `serial q p` (checked against the real code under the
    deterministic scheduler by harness/props/c03.py; a schedule exploration supports the tie, it proves nothing) -/
def serial (cfg : Cfg) (en hv : Bool) (S : Station) (p q : Packet) : GateOut × GateOut × Station :=
  let r1 := gate cfg en hv S p
  let r2 := gate cfg en hv r1.1 q
  (r1.2, r2.2, r2.1)

/-- in EITHER serial order both deliveries are authentic: whatever is handed up for `p` is `p`'s own signed payload
    under a chained ticket, never the other packet's -/
theorem serial_deliveries_authentic {U : Cert → Prop} (hinj : IdInj U) {cfg : Cfg} (hg : cfg.allGuard = true)
    {S : Station} (hinv : Inv U S.store)
    {hv : Bool} {p q : Packet} (hp : ∀ c ∈ Packet.certs p, U c) (hq : ∀ c ∈ Packet.certs q, U c) :
    (∀ pl, (serial cfg true hv S p q).1 = .pass pl → Authentic (gate cfg true hv S p).1.store p pl) ∧
    (∀ pl, (serial cfg true hv S p q).2.1 = .pass pl → Authentic (serial cfg true hv S p q).2.2.store q pl) := by
  refine ⟨fun pl h => ?_, fun pl h => ?_⟩
  · exact deliver_implies_authentic hinj hg hinv hp (S' := (gate cfg true hv S p).1) (by
      simp only [serial] at h; rw [← h])
  · have hinv1 : Inv U (gate cfg true hv S p).1.store :=
      history_inv hinj hg true hv [p] S hinv (fun r hr c hc => by simp at hr; subst hr; exact hp c hc)
    exact deliver_implies_authentic hinj hg hinv1 hq (S' := (gate cfg true hv (gate cfg true hv S p).1 q).1) (by
      simp only [serial] at h; rw [← h])


/-! ## Round 4: own certificates, unsigned envelopes, aborted packets -/

/-- the receiver's OWN certificates grant nothing: the verdict on a received message (report / exception, certificate
    id, plain message) is the same whatever `own_certificates` holds, and the library learns the same certificates –
    for every state, every message, every set of own certificates.  In particular a packet naming the receiver's own
    (public) ticket digest as signer is judged exactly as on a station that holds no own ticket at all. -/
theorem own_certificates_grant_nothing (cfg : Cfg) (S : Station) (o : List SC) (m : Msg) :
    ((S.withOwn o).verifyMsg cfg m).2 = (S.verifyMsg cfg m).2 ∧
    ((S.withOwn o).verifyMsg cfg m).1.store = (S.verifyMsg cfg m).1.store.withOwn o :=
  verifyMsg_withOwn cfg S o m

/-- … hence also the gate's verdict -/
theorem gate_independent_of_own (cfg : Cfg) (en hv : Bool) (S : Station) (o : List SC) (p : Packet) :
    (gate cfg en hv (S.withOwn o) p).2 = (gate cfg en hv S p).2 := by
  match p, hv, en with
  | .unsecured pl, _, true => rfl
  | .unsecured pl, _, false => rfl
  | .otherNH, _, _ => rfl
  | .badVersion, _, _ => rfl
  | .secured none, true, _ => rfl
  | .secured none, false, _ => rfl
  | .secured (some m), false, _ => rfl
  | .secured (some m), true, _ =>
    have h := (verifyMsg_withOwn cfg S o m).1
    simp only [gate, Bool.not_true, Bool.false_eq_true, if_false]
    generalize (S.withOwn o).verifyMsg cfg m = r1 at h ⊢
    generalize S.verifyMsg cfg m = r2 at h ⊢
    obtain ⟨S1, v1⟩ := r1
    obtain ⟨S2, v2⟩ := r2
    simp only at h
    subst h
    match v1 with
    | .error e => rfl
    | .ok v =>
      simp only
      by_cases hr : (v.report != .success) = true
      · simp only [hr, if_true]
      · simp only [hr]
        match v.plain with
        | some pl => rfl
        | none => rfl

/-- a digest-signed packet naming one of the receiver's own certificates that is not among the known tickets is not
    delivered, whatever its signature (instance of `unknown_digest_dropped`: holding the certificate as OWN does not
    make it a known ticket) -/
theorem own_ticket_digest_dropped {cfg : Cfg} {en hv : Bool} {S : Station} {m : Msg} {a : SC}
    (_hown : a ∈ S.store.own) (hsg : m.signer = .digest a.c.id) (hun : find S.store.ats a.c.id = none) (pl : Nat) :
    (gate cfg en hv S (.secured (some m))).2 ≠ .pass pl :=
  unknown_digest_dropped hsg hun pl

/-- NH = SECURED_PACKET followed by anything that is not a decodable EtsiTs103097Data-Signed – an undecodable
    envelope, or an envelope whose content choice is unsecuredData / encryptedData / signedCertificateRequest (no signer,
    no signature) – is never delivered, in every configuration and state -/
theorem unsigned_envelope_never_delivered (cfg : Cfg) (en hv : Bool) (S : Station) (pl : Nat) :
    (gate cfg en hv S (.secured none)).2 ≠ .pass pl ∧ (gate cfg en hv S (.secured none)).1 = S := by
  unfold gate
  cases hv <;> simp

/-- regenerated facts about the receive path (ast pass `gen_sec_rx` of harness/gen_sec.py):
    * the conditions of `process_basic_header` / `process_security_header` read `mib.itsGnProtocolVersion`,
      `mib.itsGnSecurity` and `verify_service` of the router and NOTHING else of `self` – the gate is the function
      `gate cfg en hv S p` of the model, without router state (a flag consulted by the gate re-opens this);
    * the only store of the two functions that outlives the call is `_rx_context.secured_message`, and it is
      re-assigned in a `finally` clause (model: `RxCtx`, `behindGate`);
    * `VerifyService` consults the certificate library through `get_authorization_ticket_by_hashedid8` and
      `verify_sequence_of_certificates` only (model: `find st.ats`, `verifySeq1`; never `own_certificates`);
    * every `return SNVERIFYConfirm(report=ReportVerify.SUCCESS …)` of VerifyService sits inside an `if` whose test
      depends on the result of `verify_with_pk` (model: `judge` answers success only on `m.sigBy = some a.c.key`). -/
theorem receive_path_matches_source :
    Generated.SecRx.gateStateReads = ["mib.itsGnProtocolVersion", "mib.itsGnSecurity", "verify_service"] ∧
    Generated.SecRx.rxWrites = [("process_security_header", "set", "_rx_context.secured_message", true)] ∧
    Generated.SecRx.libraryUses = ["get_authorization_ticket_by_hashedid8", "verify_sequence_of_certificates"] ∧
    Generated.SecRx.successSites ≠ [] ∧ Generated.SecRx.successSites.all id = true := by
  decide

/-- the receive context is clean after EVERY history – whichever packets were delivered, dropped, rejected with an
    exception or aborted by an exception behind the gate (fault + sequence) -/
theorem rx_context_clean_after_any_history (cfg : Cfg) (en hv : Bool) (hist : List RxIn) (S : Station) :
    (rxRun cfg en hv (S, {}) hist).2.secured = none :=
  rxRun_clean cfg en hv hist (S, {}) rfl

/-- unsecured packets are dropped with security ENABLED after every history of received frames, including frames
    whose processing behind the gate raised: nothing an earlier packet left behind opens the gate -/
theorem unsecured_dropped_after_any_history (cfg : Cfg) (hv : Bool) (hist : List RxIn) (S : Station) (pl frame : Nat)
    (u : Upper) :
    (rxStep cfg true hv (rxRun cfg true hv (S, {}) hist) { pkt := .unsecured pl, frame := frame, upper := u }).2
      = { gate := .drop "unsecured" } ∧
    (rxStep cfg true hv (rxRun cfg true hv (S, {}) hist) { pkt := .unsecured pl, frame := frame, upper := u }).1
      = rxRun cfg true hv (S, {}) hist := by
  generalize rxRun cfg true hv (S, {}) hist = st
  exact ⟨rfl, rfl⟩

/-- … and whatever IS delivered after such a history is authentic: the station a history leaves behind is the fold of
    the gate over its packets (`rxRun_station`), so `deliver_implies_authentic_after_any_history` applies verbatim -/
theorem deliver_implies_authentic_after_aborted_packets {U : Cert → Prop} (hinj : IdInj U) {cfg : Cfg}
    (hg : cfg.allGuard = true) (hist : List RxIn) {S0 : Station} (hinv : Inv U S0.store) {hv : Bool}
    (hh : ∀ x ∈ hist, ∀ c ∈ Packet.certs x.pkt, U c) (x : RxIn) (hp : ∀ c ∈ Packet.certs x.pkt, U c) {pl : Nat}
    (h : (rxStep cfg true hv (rxRun cfg true hv (S0, {}) hist) x).2.gate = .pass pl) :
    Authentic (rxStep cfg true hv (rxRun cfg true hv (S0, {}) hist) x).1.1.store x.pkt pl := by
  have hg1 := rxStep_gate cfg true hv (rxRun cfg true hv (S0, {}) hist) x
  rw [hg1.1] at h
  rw [hg1.2, rxRun_station]
  have hh' : ∀ q ∈ hist.map (·.pkt), ∀ c ∈ Packet.certs q, U c := by
    intro q hq c hc
    obtain ⟨y, hy, rfl⟩ := List.mem_map.1 hq
    exact hh y hy c hc
  have key := deliver_implies_authentic_after_any_history hinj hg (hist.map (·.pkt)) hinv (hv := hv) hh' hp (pl := pl)
    (S' := (gate cfg true hv ((hist.map (·.pkt)).foldl (stepPacket cfg true hv) S0) x.pkt).1)
  have hfold : (hist.map (·.pkt)).foldl (fun S p => (gate cfg true hv S p).1) S0
      = (hist.map (·.pkt)).foldl (stepPacket cfg true hv) S0 := rfl
  rw [rxRun_station] at h
  rw [hfold] at h ⊢
  exact key (by rw [← h])

/-! ## Round 5: the trust anchors are the CONFIGURED ones -/

/-- THE TRUSTED ROOTS ARE THOSE CONFIGURED: no history of received frames - genuine or forged, in any order, whatever
    certificates they carry in the signer field or in the signed `requestedCertificate` header field (the P2PCD path by
    which a receiver with a sign service learns CA certificates) - changes the set of root certificates of the station.
    Together with `deliver_implies_authentic_after_any_history` (every delivery chains to a root of the CURRENT store):
    every delivery after any history chains to a root that was configured.  (That the source keeps this discipline is the
    regenerated write set of `reentrancy_matches_source`: no store to `known_root_certificates` is reachable from
    `VerifyService.verify`.) -/
theorem trusted_roots_fixed_after_any_history (cfg : Cfg) (en hv : Bool) (hist : List Packet) (S0 : Station) :
    (hist.foldl (stepPacket cfg en hv) S0).store.roots = S0.store.roots := by
  induction hist generalizing S0 with
  | nil => rfl
  | cons q rest ih =>
    simp only [List.foldl_cons]
    rw [ih]
    unfold stepPacket
    rw [gate_state]
    split
    · split
      · exact (verifyMsg_footprint cfg S0 _).1
      · rfl
    · rfl

/-! ## Non-vacuity: the honest packet IS delivered, its tampered twins are not -/

def xRoot : Cert :=
  { id := 10, issuer := .self, ctype := 0, vkiVerif := true, sigP256 := true, keyP256 := true, keyUnc := true,
    idNone := false, app := none, issue := some [⟨.all, 2⟩], start := 100, durUs := 1000000000, key := 10,
    sigBy := some 10 }
def xAA : Cert := { xRoot with id := 11, issuer := .digest 10, issue := some [⟨.explicit [36, 37], 1⟩], key := 11 }
def xAT : Cert := { xRoot with id := 12, issuer := .digest 11, idNone := true, app := some [36], issue := none, key := 12,
                                sigBy := some 11 }
def xEvilAT : Cert := { xAT with id := 13, key := 66, sigBy := some 66 }
def xStation : Station := (({} : Station).run Cfg.fixed [.addRoot ⟨xRoot, none⟩, .addAA ⟨xAA, some xRoot⟩])
def xMsg (sg : Signer) (sigBy : Option Nat) : Msg :=
  { psid := 36, genTime := some 100000500, genLoc := false, p2pcdLearn := false, missingCrl := false, expiry := false,
    encKey := false, inlineReq := none, reqCert := none, signer := sg, sigFmtOk := true, sigBy := sigBy, payload := 7 }

example : (gate Cfg.fixed true true xStation (.secured (some (xMsg (.certs [xAT]) (some 12))))).2 = .pass 7 := by decide
example : (gate Cfg.fixed true true xStation (.secured (some (xMsg (.certs [xAT]) none)))).2 = .drop "report-1" := by decide
example : (gate Cfg.fixed true true xStation (.secured (some (xMsg (.digest 12) (some 12))))).2 = .drop "report-9" := by decide
example : (gate Cfg.fixed true true xStation (.secured (some (xMsg (.certs [xEvilAT]) (some 66))))).2 = .drop "report-4" := by
  decide
example : (gate Cfg.fixed true true xStation (.unsecured 7)).2 = .drop "unsecured" := by decide
/-- a forged packet first, then the genuine certificate-carrying one, then its digest-signed successor: verdicts as without the forgery -/
example : ((([.secured (some (xMsg (.certs [xEvilAT]) (some 66))), .secured (some (xMsg (.certs [xAT]) (some 12)))] : List Packet).foldl
    (stepPacket Cfg.fixed true true) xStation) |> fun S => (gate Cfg.fixed true true S (.secured (some (xMsg (.digest 12) (some 12))))).2)
    = .pass 7 := by decide

/-- a self-made root and a ticket issued directly by it -/
def xEvilRoot : Cert := { xRoot with id := 70, key := 70, sigBy := some 70, issue := some [⟨.all, 1⟩] }
def xEvilAT1 : Cert := { xAT with id := 71, issuer := .digest 70, key := 71, sigBy := some 70 }
/-- a GENUINE packet (certificate of `xAT`, signed with its key) carrying the self-made root in requestedCertificate is
    delivered; the root is not filed anywhere (1 root, 1 authority afterwards) and packets under it - by certificate, by
    digest - are dropped before and after -/
example : (let inj : Msg := { xMsg (.certs [xAT]) (some 12) with reqCert := some xEvilRoot }
    let S1 := stepPacket Cfg.fixed true true xStation (.secured (some (xMsg (.certs [xEvilAT1]) (some 71))))
    let S2 := stepPacket Cfg.fixed true true S1 (.secured (some inj))
    ((gate Cfg.fixed true true xStation (.secured (some (xMsg (.certs [xEvilAT1]) (some 71))))).2,
     (gate Cfg.fixed true true S1 (.secured (some inj))).2, S2.store.roots.length, S2.store.aas.length,
     (gate Cfg.fixed true true S2 (.secured (some (xMsg (.certs [xEvilAT1]) (some 71))))).2,
     (gate Cfg.fixed true true S2 (.secured (some (xMsg (.digest 71) (some 71))))).2))
    = (.drop "report-4", .pass 7, 1, 1, .drop "report-4", .drop "report-9") := by decide

/-- a signature scheme in which exactly the genuine packet's signature value (0) is valid, over its content, under key 12 -/
def xG : SigScheme :=
  { V := fun k t s => t = (xMsg (.certs [xAT]) (some 12)).tbs ∧ s = 0 ∧ k = 12,
    binding := by intro k t t' s h1 h2; rw [h1.1, h2.1] }

def xTampered : Msg := { xMsg (.certs [xAT]) none with payload := 8 }

/-- non-vacuity of `tampered_content_dropped`: the genuine packet and its twin with an altered payload (same signature
    value, which no longer verifies: `sigBy = none`) satisfy every hypothesis -/
example : (gate Cfg.fixed true true xStation (.secured (some xTampered))).2 ≠ .pass 8 :=
  tampered_content_dropped xG (cfg := Cfg.fixed) (en := true) (hv := true) (S := xStation)
    (m := xMsg (.certs [xAT]) (some 12)) (m' := xTampered) (k := 12)
    (by intro k hk; cases hk; exact ⟨rfl, rfl, rfl⟩) (by intro k hk; cases hk) rfl rfl (by decide)
    (by
      intro a ha _
      have : (gate Cfg.fixed true true xStation (.secured (some xTampered))).1.store.ats = [⟨xAT, some xAA⟩] := by decide
      rw [this] at ha
      simp only [List.mem_singleton] at ha
      subst ha; rfl) 8

/-- round 4, non-vacuity: a station HOLDING ticket 12 as its own certificate (not among the known tickets) drops a
    digest-signed packet naming it, whatever key signed; the genuine certificate-carrying packet is still delivered -/
def xOwnStation : Station := xStation.withOwn [⟨xAT, some xAA⟩]
example : (gate Cfg.fixed true true xOwnStation (.secured (some (xMsg (.digest 12) (some 66))))).2 = .drop "report-9" := by decide
example : (gate Cfg.fixed true true xOwnStation (.secured (some (xMsg (.digest 12) (some 12))))).2 = .drop "report-9" := by decide
example : (gate Cfg.fixed true true xOwnStation (.secured (some (xMsg (.certs [xAT]) (some 12))))).2 = .pass 7 := by decide
example : (gate Cfg.fixed true true xStation (.secured none)).2 = .raise "parse" := by decide
/-- a genuine packet aborted behind the gate, then an unsecured one: dropped; the context is clean -/
example : (rxStep Cfg.fixed true true
    (rxRun Cfg.fixed true true (xStation, {}) [{ pkt := .secured (some (xMsg (.certs [xAT]) (some 12))), frame := 1, upper := .raises }])
    { pkt := .unsecured 9 }).2 = { gate := .drop "unsecured" } := by decide
example : (rxStep Cfg.fixed true true (xStation, {})
    { pkt := .secured (some (xMsg (.certs [xAT]) (some 12))), frame := 1, upper := .raises }).2
    = { gate := .pass 7, seen := some 1, raised := true } := by decide

end Props.C03

/-
C01 — End-to-end payload delivery between stations through BTP and GeoNetworking.
Property theorems only. Model: `FlexModel/Net/Stack.lean` (BTP header, GN source operations incl. location
service buffers, receive side with DAD/DPD/area test/forwarding; two stations on a synchronous medium) and
`FlexModel/Net/Mesh.lean` (n stations in mutual range on an asynchronous broadcast medium: any delivery order).
Proof of the n-station theorems: `FlexModel/Net/Mesh{Lemmas,Inv,Step,Run}.lean` (invariant + per-event lemma).
-/
import FlexModel.Net.Lemmas
import FlexModel.Net.MeshOrder
import FlexModel.Net.MeshRing
import FlexModel.Net.LagLemmas
import FlexModel.Net.SnAlloc
import FlexModel.Net.LsReply
import FlexModel.Net.Refresh
import FlexModel.Net.TimersLemmas
import Generated.NetFacts
import Generated.Locks

namespace Props.C01
open FlexModel.Net
set_option linter.unusedSimpArgs false

/-! ## BTP header round trip: for every payload (any octets, any length) and all 16-bit ports -/

theorem btp_header_roundtrip (r : Req) (hd : r.dport < 65536) (hi : r.info < 65536) :
    btpDecode (btpEncode r) = (r.dport, r.info, r.payload) := btp_roundtrip r hd hi

/-! ## Local receive rules -/

/-- a station never hands its own packets upward nor re-transmits them -/
theorem own_packet_ignored (w : World) (s : Station) (p : Pkt) (h : p.so = s.addr) : receive w s p = (s, []) := by
  simp [receive, h]

/-- a multi-hop packet already seen (same source and sequence number) is neither delivered nor forwarded -/
theorem duplicate_ignored (w : World) (s : Station) (p : Pkt) (hk : p.kind ≠ .shb) (hs : (p.so, p.sn) ∈ s.seen) :
    receive w s p = (s, []) := by
  unfold receive
  split
  · rfl
  · cases hkk : p.kind <;> simp_all

/-- delivery goes to the handler registered for the decoded destination port and to no other port -/
theorem no_cross_port (s : Station) (p : Pkt) :
    (deliver s p).delivered = s.delivered ∨
    ∃ d, (deliver s p).delivered = s.delivered ++ [d] ∧ d.port = (btpDecode p.data).1 ∧ d.port ∈ s.ports ∧
      d.payload = (btpDecode p.data).2.2 ∧ d.so = p.so ∧ d.soPos = p.soPos := by
  unfold deliver
  simp only
  split
  · right; exact ⟨_, rfl, rfl, by simp_all, rfl, rfl, rfl⟩
  · left; rfl

/-- the location-service packet buffer is flushed in request order (requests parked by the store-carry-forward
stub are skipped), every buffered request consumes one sequence number, and the emitted sequence numbers are
fresh and strictly increasing -/
theorem flush_in_order (s : Station) (de : Addr) (q : List Req) :
    ((flush s de q).2.map (·.data)) = (q.filter (fun r => !r.scfBlocked)).map btpEncode ∧
    (flush s de q).1.sn = s.sn + q.length ∧
    (∀ p ∈ (flush s de q).2, s.sn < p.sn ∧ p.sn ≤ s.sn + q.length) ∧
    ((flush s de q).2.map (·.sn)).Pairwise (· < ·) := by
  induction q generalizing s with
  | nil => simp [flush]
  | cons r rs ih =>
    have ih' := ih { s with sn := s.sn + 1 }
    obtain ⟨i1, i2, i3, i4⟩ := ih'
    simp only [flush, List.length_cons]
    refine ⟨?_, ?_, ?_, ?_⟩
    · cases hb : r.scfBlocked <;> simp [hb, i1, gucPkt]
    · rw [i2]; simp; omega
    · intro p hp
      cases hb : r.scfBlocked <;> simp [hb] at hp
      · rcases hp with rfl | hp
        · simp [gucPkt]
        · have := i3 p hp; simp at this; omega
      · have := i3 p hp; simp at this; omega
    · cases hb : r.scfBlocked <;> simp [hb]
      · refine ⟨?_, i4⟩
        intro p hp
        have := i3 p hp
        simp [gucPkt] at this ⊢
        omega
      · exact i4

/-- a unicast request issued while a location-service lookup for its destination is pending is queued behind the
requests already waiting — nothing is transmitted, no sequence number is consumed — whatever else the station
received in between (the state `s` is arbitrary) -/
theorem request_queues_while_pending (s : Station) (r : Req) (de : Addr) (q : List Req)
    (ht : r.transport = .guc de) (hp : lookupPending s.pending de = some q) :
    request s r = ({ s with pending := setPending s.pending de (q ++ [r]) }, []) := by
  simp [request, ht, hp]

/-- the location-service retransmission only repeats the LS request: the packet buffer is untouched -/
theorem retransmit_keeps_buffer (s : Station) (de : Addr) :
    (lsRetransmit s de).1.pending = s.pending ∧ ∀ p ∈ (lsRetransmit s de).2, p.kind = .lsReq de := by
  unfold lsRetransmit
  cases lookupPending s.pending de <;> simp

/-! ## Two stations on a reliable medium: exactly-once, byte-identical, in order -/

/-- quiescent pair: no lookup in progress, and every sequence number one station has seen from the other has
really been allocated by it (so freshly allocated numbers are never mistaken for duplicates) -/
structure Quiet (a b : Station) : Prop where
  ne : a.addr ≠ b.addr
  pa : a.pending = []
  pb : b.pending = []
  sa : ∀ sn, (a.addr, sn) ∈ b.seen → sn ≤ a.sn
  sb : ∀ sn, (b.addr, sn) ∈ a.seen → sn ≤ b.sn

/-- requests in scope: 16-bit ports, not parked in a (stub) store-carry-forward buffer, unicast destination is
the peer (a station that is known or can be found by the location service) -/
def ReqOK (b : Station) (r : Req) : Prop :=
  r.dport < 65536 ∧ r.info < 65536 ∧ r.scfBlocked = false ∧ (∀ de, r.transport = .guc de → de = b.addr)

/-- outcome of one synchronous exchange -/
def Good (w : World) (a b : Station) (r : Req) : Prop :=
  let x := exchange w a b r
  x.2.1.delivered = b.delivered ++ expected w a b r ∧ x.1.delivered = a.delivered ∧ x.2.2 = [] ∧ Quiet x.1 x.2.1
  ∧ x.1.addr = a.addr ∧ x.2.1.addr = b.addr ∧ x.1.pos = a.pos ∧ x.2.1.pos = b.pos
  ∧ x.1.ports = a.ports ∧ x.2.1.ports = b.ports

private theorem fresh (a b : Station) (h : Quiet a b) (k : Nat) (hk : 0 < k) : ¬ (a.addr, a.sn + k) ∈ b.seen := by
  intro hm; have := h.sa _ hm; omega
private theorem fresh' (a b : Station) (h : Quiet a b) (k : Nat) (hk : 0 < k) : ¬ (b.addr, b.sn + k) ∈ a.seen := by
  intro hm; have := h.sb _ hm; omega

private theorem seen_bound {x : Addr} {l extra : List (Addr × Nat)} {n m sn : Nat}
    (h : ∀ sn, (x, sn) ∈ l → sn ≤ n) (hm : (x, sn) ∈ l ++ extra)
    (hextra : ∀ p ∈ extra, p.1 = x → p.2 ≤ m) (hnm : n ≤ m) : sn ≤ m := by
  rcases List.mem_append.mp hm with h1 | h1
  · exact Nat.le_trans (h _ h1) hnm
  · exact hextra _ h1 rfl

/-- closes the `Quiet` goals left after symbolic execution of an exchange -/
macro "close_quiet" h:ident hne:ident : tactic => `(tactic|
  (constructor
   · simpa using $hne
   · simp [($h).pa]
   · simp [($h).pb]
   · intro sn hm
     simp only [learn_seen, deliver_seen, learn_addr, deliver_addr] at hm
     first
     | (have := ($h).sa _ hm; simp; omega)
     | (refine seen_bound ($h).sa hm ?_ ?_ <;> simp <;> omega)
   · intro sn hm
     simp only [learn_seen, deliver_seen, learn_addr, deliver_addr] at hm
     first
     | (have := ($h).sb _ hm; simp; omega)
     | (refine seen_bound ($h).sb hm ?_ ?_ <;> simp <;> omega)))

theorem exchange_good (w : World) (a b : Station) (r : Req) (h : Quiet a b) (hr : ReqOK b r) : Good w a b r := by
  obtain ⟨hd, hi, hs, hde⟩ := hr
  have hne : ¬ a.addr = b.addr := h.ne
  have hne' : ¬ b.addr = a.addr := fun e => hne e.symm
  have hf := fresh a b h 1 (by omega)
  have hf2 := fresh a b h 2 (by omega)
  have hg := fresh' a b h 1 (by omega)
  cases ht : r.transport with
  | shb =>
    unfold Good exchange request
    simp only [ht]
    by_cases hp : r.dport ∈ b.ports <;>
      simp [receiveAll, receive, hne, deliver, btp_roundtrip r hd hi, expected, ht, hp]
    all_goals close_quiet h hne
  | gbc ar =>
    unfold Good exchange request
    simp only [ht, hs, Bool.false_eq_true, if_false]
    by_cases hh : 1 < hops a r <;> by_cases hin : w.inside ar b.addr = true <;> by_cases hp : r.dport ∈ b.ports <;>
      simp [receiveAll, receive, hne, hf, forwardCopy, deliver, btp_roundtrip r hd hi, expected, ht, hh, hin, hp]
    all_goals close_quiet h hne
  | gac ar =>
    unfold Good exchange request
    simp only [ht, hs, Bool.false_eq_true, if_false]
    by_cases hh : 1 < hops a r <;> by_cases hin : w.inside ar b.addr = true <;> by_cases hp : r.dport ∈ b.ports <;>
      simp [receiveAll, receive, hne, hf, forwardCopy, deliver, btp_roundtrip r hd hi, expected, ht, hh, hin, hp]
    all_goals close_quiet h hne
  | guc de =>
    have hdeb := hde de ht
    subst hdeb
    unfold Good exchange request
    simp only [ht, hs, Bool.false_eq_true, if_false, h.pa, lookupPending, List.find?_nil, Option.map_none]
    by_cases hk : b.addr ∈ a.known <;> by_cases hp : r.dport ∈ b.ports <;>
      simp [receiveAll, receive, hne, hne', hf, hf2, hg, forwardCopy, deliver, btp_roundtrip r hd hi, expected, ht, hk, hp,
        gucPkt, setPending, h.pa, h.pb, lookupPending, erasePending, flush, hs]
    all_goals close_quiet h hne

/-! ### Programmes: any sequence of requests, issued by either station -/

/-- a programme step: `true` = issued by the first station, `false` = by the second -/
abbrev Step := Bool × Req

def runProg (w : World) : Station → Station → List Step → Station × Station
  | a, b, [] => (a, b)
  | a, b, (true, r) :: ps => let x := exchange w a b r; runProg w x.1 x.2.1 ps
  | a, b, (false, r) :: ps => let x := exchange w b a r; runProg w x.2.1 x.1 ps

/-- what the property prescribes for the second / first station over a whole programme -/
def expectedB (w : World) (a b : Station) : List Step → List Delivery
  | [] => []
  | (true, r) :: ps => expected w a b r ++ expectedB w a b ps
  | (false, _) :: ps => expectedB w a b ps

def expectedA (w : World) (a b : Station) : List Step → List Delivery
  | [] => []
  | (true, _) :: ps => expectedA w a b ps
  | (false, r) :: ps => expected w b a r ++ expectedA w a b ps

def ProgOK (a b : Station) (ps : List Step) : Prop :=
  ∀ s ∈ ps, (s.1 = true → ReqOK b s.2) ∧ (s.1 = false → ReqOK a s.2)

private theorem quiet_symm {a b : Station} (h : Quiet a b) : Quiet b a :=
  ⟨fun e => h.ne e.symm, h.pb, h.pa, h.sb, h.sa⟩

private theorem expected_congr (w : World) (a b a' b' : Station) (r : Req)
    (h1 : a'.addr = a.addr) (h2 : a'.pos = a.pos) (h3 : b'.addr = b.addr) (h4 : b'.ports = b.ports) :
    expected w a' b' r = expected w a b r := by
  simp [expected, h1, h2, h3, h4]

private theorem expectedB_congr (w : World) (a b a' b' : Station) (ps : List Step)
    (h1 : a'.addr = a.addr) (h2 : a'.pos = a.pos) (h3 : b'.addr = b.addr) (h4 : b'.ports = b.ports) :
    expectedB w a' b' ps = expectedB w a b ps := by
  induction ps with
  | nil => rfl
  | cons s ps ih =>
    obtain ⟨sd, r⟩ := s
    cases sd <;> simp [expectedB, ih, expected_congr w a b a' b' r h1 h2 h3 h4]

private theorem expectedA_congr (w : World) (a b a' b' : Station) (ps : List Step)
    (h1 : b'.addr = b.addr) (h2 : b'.pos = b.pos) (h3 : a'.addr = a.addr) (h4 : a'.ports = a.ports) :
    expectedA w a' b' ps = expectedA w a b ps := by
  induction ps with
  | nil => rfl
  | cons s ps ih =>
    obtain ⟨sd, r⟩ := s
    cases sd <;> simp [expectedA, ih, expected_congr w b a b' a' r h1 h2 h3 h4]

private theorem reqok_congr {b b' : Station} (r : Req) (h : b'.addr = b.addr) : ReqOK b r → ReqOK b' r := by
  intro ⟨h1, h2, h3, h4⟩; exact ⟨h1, h2, h3, by rw [h]; exact h4⟩

/-- **End-to-end theorem.** For every programme of requests (any length, any payloads, both transports types of
BTP, SHB/GBC/GAC/GUC incl. unicast via the location service, issued by either station in any order), each
station's handlers are invoked with exactly the prescribed deliveries — each request addressed to it exactly
once, byte-identical, on the destination port only, with the sender's position vector, in request order — and
nothing else; the sender never receives its own payload. -/
theorem e2e_two_stations (w : World) (ps : List Step) (a b : Station) (h : Quiet a b) (hp : ProgOK a b ps) :
    (runProg w a b ps).2.delivered = b.delivered ++ expectedB w a b ps ∧
    (runProg w a b ps).1.delivered = a.delivered ++ expectedA w a b ps := by
  induction ps generalizing a b with
  | nil => simp [runProg, expectedA, expectedB]
  | cons s ps ih =>
    obtain ⟨side, r⟩ := s
    have hs := hp (side, r) (by simp)
    have hrest : ∀ a' b', a'.addr = a.addr → b'.addr = b.addr → ProgOK a' b' ps := by
      intro a' b' ha hb s hs'
      have := hp s (by simp [hs'])
      exact ⟨fun e => reqok_congr _ hb (this.1 e), fun e => reqok_congr _ ha (this.2 e)⟩
    cases side with
    | true =>
      have g := exchange_good w a b r h (hs.1 rfl)
      unfold Good at g
      simp only at g
      obtain ⟨g1, g2, _, g4, g5, g6, g7, g8, g9, g10⟩ := g
      have := ih _ _ g4 (hrest _ _ g5 g6)
      simp only [runProg, expectedA, expectedB]
      rw [this.1, this.2, g1, g2, expectedB_congr w a b _ _ ps g5 g7 g6 g10,
        expectedA_congr w a b _ _ ps g6 g8 g5 g9, List.append_assoc]
      exact ⟨rfl, rfl⟩
    | false =>
      have g := exchange_good w b a r (quiet_symm h) (hs.2 rfl)
      unfold Good at g
      simp only at g
      obtain ⟨g1, g2, _, g4, g5, g6, g7, g8, g9, g10⟩ := g
      have := ih _ _ (quiet_symm g4) (hrest _ _ g6 g5)
      simp only [runProg, expectedA, expectedB]
      rw [this.1, this.2, g1, g2, expectedB_congr w a b _ _ ps g6 g8 g5 g9,
        expectedA_congr w a b _ _ ps g5 g7 g6 g10, List.append_assoc]
      exact ⟨rfl, rfl⟩

/-- corollaries in the words of the property -/
theorem not_to_sender (w : World) (a b : Station) (r : Req) (h : Quiet a b) (hr : ReqOK b r) :
    (exchange w a b r).1.delivered = a.delivered := (exchange_good w a b r h hr).2.1

/-- lemmas about the SPECIFICATION function `expected` (what the property prescribes), not about the code model:
nothing is prescribed for a station outside the area / without a handler on the destination port -/
theorem expected_outside_area_nil (w : World) (a b : Station) (r : Req) (ar : Area)
    (ht : r.transport = .gbc ar ∨ r.transport = .gac ar) (hout : w.inside ar b.addr = false) :
    expected w a b r = [] := by
  rcases ht with ht | ht <;> simp [expected, ht, hout]

theorem expected_unregistered_port_nil (w : World) (a b : Station) (r : Req) (hp : ¬ r.dport ∈ b.ports) :
    expected w a b r = [] := by
  simp [expected, hp]

/-- the same two clauses about the MODEL OF THE CODE: whatever packet a station receives, in whatever state -/
theorem receive_delivers_at_most (w : World) (s : Station) (p : Pkt) :
    (receive w s p).1.delivered = s.delivered ∨
    (receive w s p).1.delivered = s.delivered ++ dlvS w s.addr s.ports p := by
  have h := receive_spec w s p
  generalize receive w s p = res at h
  cases h with
  | ignore _ => exact Or.inl rfl
  | shb s' _ _ _ _ _ _ hd => exact Or.inr hd
  | plain s' out _ _ _ _ _ _ _ hd _ _ _ => exact Or.inr hd
  | reply s' _ _ _ _ _ _ _ hd => exact Or.inl hd
  | flush s2 q _ _ _ _ _ _ _ _ hd => exact Or.inl (by rw [flush_delivered, hd])

/-- a station outside the destination area never hands a GBC / GAC packet to any handler -/
theorem receive_outside_area_not_delivered (w : World) (s : Station) (p : Pkt) (ar : Area)
    (hk : p.kind = .gbc ar ∨ p.kind = .gac ar) (hout : w.inside ar s.addr = false) :
    (receive w s p).1.delivered = s.delivered := by
  have : dlvS w s.addr s.ports p = [] := by rcases hk with hk | hk <;> simp [dlvS, hitS, hk, hout]
  rcases receive_delivers_at_most w s p with h | h
  · exact h
  · rw [h, this, List.append_nil]

/-- a packet for a port without registered handler is handed to nobody (in particular to no other port's handler) -/
theorem receive_unregistered_port_not_delivered (w : World) (s : Station) (p : Pkt)
    (hp : ¬ (btpDecode p.data).1 ∈ s.ports) : (receive w s p).1.delivered = s.delivered := by
  have : dlvS w s.addr s.ports p = [] := by simp [dlvS, hp]
  rcases receive_delivers_at_most w s p with h | h
  · exact h
  · rw [h, this, List.append_nil]

/-- every handler invocation `receive` causes is on the decoded destination port, carries the decoded payload, the
packet's source position vector and transport type -/
theorem receive_delivery_fields (w : World) (s : Station) (p : Pkt) (d : Delivery) (hd : d ∈ dlvS w s.addr s.ports p) :
    d.port = (btpDecode p.data).1 ∧ d.port ∈ s.ports ∧ d.payload = (btpDecode p.data).2.2 ∧ d.so = p.so ∧
    d.soPos = p.soPos ∧ d.kind = p.kind ∧ p.so ≠ s.addr := by
  unfold dlvS at hd
  split at hd
  · rename_i h
    simp only [List.mem_singleton] at hd
    subst hd
    exact ⟨rfl, by simpa using h.2.2, rfl, rfl, rfl, rfl, h.1⟩
  · simp at hd

/-! ## Non-vacuity: a concrete quiescent pair and a programme that exercises the location service -/

def exA : Station := { addr := 1, pos := 11, ports := [2001] }
def exB : Station := { addr := 2, pos := 22, ports := [2001, 2002] }
def exW : World := { inside := fun ar x => ar = 7 ∧ x = 2 }
def exReq (t : Transport) (pl : Bytes) : Req :=
  { btpB := true, dport := 2002, info := 5, payload := pl, transport := t, hopLimit := 3, scfBlocked := false }

example : Quiet exA exB := ⟨by decide, rfl, rfl, by simp [exB], by simp [exA]⟩
example : (runProg exW exA exB [(true, exReq (.guc 2) [1, 2, 3]), (true, exReq (.gbc 7) []), (true, exReq (.gbc 8) [9])]).2.delivered.map (·.payload)
    = [[1, 2, 3], []] := by decide

/-! ## n stations, asynchronous medium

`Mesh` = n stations in mutual radio range.  Every transmitted frame is queued once per OTHER station; the medium
delivers the queued (receiver, frame) pairs one at a time in an order chosen by the schedule: ANY order (across
receivers, across senders, even between two frames of one sender), each pair exactly once.  Forwarded copies,
location-service requests / replies and flushed buffers go through the same medium. -/

/-- what the property prescribes station `b` to be handed because of one event: for a request of the station with
address `i` the delivery `expected` computes (nothing if `b` is the requester), for a delivery step nothing -/
def prescribed (w : World) (sts : List Station) (b : Station) : Ev → List Delivery
  | .req i r => expectedFrom w sts i b r
  | .dlv _ => []

/-- **Exactly once, whatever the interleaving.**  n stations with pairwise distinct GN addresses (`QuietN.distinct`),
no lookup in progress at the start.  `evs` is ANY sequence of events: requests handed to any station at any time
(SHB, GBC, GAC, GUC to a known station or through the location service — also while frames of earlier requests are
still in the air and while a lookup for the same destination is pending) interleaved in any way with single
deliveries of pending (receiver, frame) pairs in any order.  If nothing is left in the air at the end, then every
station has been handed exactly the prescribed deliveries — each one once, byte-identical, on the destination port
only, with the sender's position vector and transport type — and nothing else (multiset equality; the sender gets
nothing, stations outside the area get nothing: `expectedFrom` is `[]` for them). -/
theorem async_exactly_once_n (w : World) (sts : List Station) (hq : QuietN sts) (evs : List Ev)
    (hev : ∀ ev ∈ evs, EvOK (Mesh.ofList sts) ev) (hair : ((Mesh.ofList sts).run w evs).air = []) :
    ∀ b ∈ sts, (((Mesh.ofList sts).run w evs).st b.addr).delivered.Perm
      (b.delivered ++ evs.flatMap (prescribed w sts b)) := by
  intro b hb
  have h := (async_exactly_once w _ hq.quietM evs hev hair).2.2 b.addr (List.mem_map.mpr ⟨b, hb, rfl⟩)
  rw [ofList_st sts hq.distinct b hb] at h
  refine h.trans (List.Perm.of_eq ?_)
  congr 1
  simp only [extraAll]
  apply flatMap_congr'
  intro ev _
  cases ev with
  | req i r => exact extraOf_ofList w sts hq.distinct i r b hb
  | dlv k => rfl

/-- requests of a programme in scope: 16-bit ports, not parked by the store-carry-forward stub (C01-KF1), unicast
destination is another station of the mesh (known or found by the location service) -/
def ProgOKN (sts : List Station) (prog : List Exch) : Prop := FlexModel.Net.ProgOK (Mesh.ofList sts) prog

/-- **End-to-end theorem, n stations, any delivery order.**  For every number of stations with pairwise distinct
GN addresses, every programme of requests issued by any of them in any order and length, where the frames each
request induces (the packet, its forwarded copies, location-service request / reply, the flushed unicast packets)
are delivered in ANY order — `Complete`: the schedule of each exchange leaves nothing in the air; no other
assumption on the order — every station is handed exactly the prescribed deliveries, appended in request order:
once, byte-identical, right port, sender's position vector and transport type; nothing for the sender, for
stations outside the area, for unregistered ports.  Forwarded copies of every packet do appear on the medium
(`forwardCopy`) and are ignored as duplicates / own packets by everyone. -/
theorem e2e_n_stations (w : World) (sts : List Station) (hq : QuietN sts) (prog : List Exch)
    (hp : ProgOKN sts prog) (hc : Complete w (Mesh.ofList sts) prog) :
    ∀ b ∈ sts, (((Mesh.ofList sts).runProg w prog).st b.addr).delivered =
      b.delivered ++ prog.flatMap (fun x => expectedFrom w sts x.snd b x.req) := by
  intro b hb
  have h := (runProg_n w _ hq.quietM prog hp hc).2 b.addr (List.mem_map.mpr ⟨b, hb, rfl⟩)
  rw [ofList_st sts hq.distinct b hb] at h
  rw [h]
  congr 1
  apply flatMap_congr'
  intro x _
  exact extraOf_ofList w sts hq.distinct x.snd x.req b hb

/-- what the driver executes (`Mesh.stepG` with full range and the plain station semantics) is the step function
of the theorems -/
theorem driver_step_is_model_step (w : World) (m : Mesh) (ev : Ev) :
    m.stepG (plainSem w) fullRange ev = m.step w ev := stepG_full w m ev

/-- GeoAnycast among several receivers inside the area (what the code does, EN 302 636-4-1 §10.3.12.3 as
implemented: every station inside the area that hears the packet hands it up and does not forward it): with all
stations in range of the sender EVERY in-area station is handed the payload exactly once — `expected` does not
distinguish GAC from GBC. -/
theorem gac_every_in_area_station (w : World) (a b : Station) (r : Req) (ar : Area) (ht : r.transport = .gac ar)
    (hin : w.inside ar b.addr = true) (hp : r.dport ∈ b.ports) :
    expected w a b r = [{ port := r.dport, info := r.info, btpB := r.btpB, payload := r.payload, so := a.addr,
                          soPos := a.pos, kind := .gac ar }] := by
  simp [expected, ht, hin, hp]

/-! ### Non-vacuity: three stations, mixed programme, scrambled delivery orders -/

def ex1 : Station := { addr := 1, pos := 11, ports := [2001] }
def ex2 : Station := { addr := 2, pos := 22, ports := [2001, 2002] }
def ex3 : Station := { addr := 3, pos := 33, ports := [2002] }
/-- area 7 contains stations 2 and 3, area 8 only station 3 -/
def exW3 : World := { inside := fun ar x => (ar == 7 && (x == 2 || x == 3)) || (ar == 8 && x == 3) }
def exR (t : Transport) (pl : Bytes) : Req :=
  { btpB := true, dport := 2002, info := 5, payload := pl, transport := t, hopLimit := 3, scfBlocked := false }

/-- unicast 1→3 through the location service, GBC of 2 into area 7, GAC of 3 into area 7, SHB of 1, GBC of 2
into area 8, unicast 3→1 (now known); the schedules are pseudo-random complete schedules (seeds 7, 3, 11, …) -/
def exProg3 : List Exch :=
  mkProg exW3 500 (Mesh.ofList [ex1, ex2, ex3])
    [(1, exR (.guc 3) [1, 2, 3], 7), (2, exR (.gbc 7) [], 3), (3, exR (.gac 7) [4], 11), (1, exR .shb [5], 5),
     (2, exR (.gbc 8) [6], 9), (3, { exR (.guc 1) [7] with dport := 2001 }, 13)]

example : QuietN [ex1, ex2, ex3] := ⟨by decide, by simp [ex1, ex2, ex3], by simp [ex1, ex2, ex3]⟩
example : Complete exW3 (Mesh.ofList [ex1, ex2, ex3]) exProg3 := by decide
/-- the schedules are not FIFO -/
example : (exProg3.map (·.sched.take 3)).head? = some [0, 2, 0] := by decide
example : ((((Mesh.ofList [ex1, ex2, ex3]).runProg exW3 exProg3).st 3).delivered.map (fun d => (d.so, d.payload)))
    = [(1, [1, 2, 3]), (2, []), (1, [5]), (2, [6])] := by decide
example : ((((Mesh.ofList [ex1, ex2, ex3]).runProg exW3 exProg3).st 2).delivered.map (fun d => (d.so, d.payload)))
    = [(3, [4]), (1, [5])] := by decide
example : ((((Mesh.ofList [ex1, ex2, ex3]).runProg exW3 exProg3).st 1).delivered.map (fun d => (d.so, d.payload)))
    = [(3, [7])] := by decide

/-- `e2e_two_stations` for an asynchronous medium: the n-station theorem at n = 2 -/
theorem e2e_two_stations_async (w : World) (a b : Station) (hq : QuietN [a, b]) (prog : List Exch)
    (hp : ProgOKN [a, b] prog) (hc : Complete w (Mesh.ofList [a, b]) prog) :
    (((Mesh.ofList [a, b]).runProg w prog).st b.addr).delivered =
      b.delivered ++ prog.flatMap (fun x => expectedFrom w [a, b] x.snd b x.req) ∧
    (((Mesh.ofList [a, b]).runProg w prog).st a.addr).delivered =
      a.delivered ++ prog.flatMap (fun x => expectedFrom w [a, b] x.snd a x.req) :=
  ⟨e2e_n_stations w [a, b] hq prog hp hc b (by simp), e2e_n_stations w [a, b] hq prog hp hc a (by simp)⟩

/-- the two-station `Quiet` is `QuietN` of the pair -/
theorem quiet_is_quietN (a b : Station) (h : Quiet a b) (hsa : ∀ sn, (a.addr, sn) ∈ a.seen → sn ≤ a.sn)
    (hsb : ∀ sn, (b.addr, sn) ∈ b.seen → sn ≤ b.sn) : QuietN [a, b] := by
  refine ⟨by simp [h.ne], by simp [h.pa, h.pb], ?_⟩
  intro s hs t ht sn hm
  simp only [List.mem_cons, List.mem_singleton, List.not_mem_nil, or_false] at hs ht
  rcases hs with rfl | rfl <;> rcases ht with rfl | rfl
  · exact hsa sn hm
  · exact h.sb sn hm
  · exact h.sa sn hm
  · exact hsb sn hm

/-! ### Delivery order: what an arbitrary order does NOT preserve

`e2e_n_stations` needs no assumption on the delivery order because each request's frames are delivered before the
next request is issued.  When requests overlap (several requests' frames in the air together), exactly-once still
holds for any order (`async_exactly_once_n`) but the order of the handler invocations at a receiver is the order
in which the medium delivers: -/

/-- two stations, two GBC requests back to back, the medium delivers the second frame first: the receiver is
handed the payloads in the opposite order (no FIFO assumption ⇒ no request order) -/
theorem order_needs_fifo_witness :
    ((((Mesh.ofList [exA, exB]).run exW
        [.req 1 (exReq (.gbc 7) [1]), .req 1 (exReq (.gbc 7) [2]), .dlv 1, .dlv 0]).st 2).delivered.map (·.payload))
      = [[2], [1]] := by decide

/-- three stations, SHB then GBC from station 1; each receiver gets the frames OF EACH SENDER in transmission
order (FIFO per sender), but station 3's forwarded copy of the GBC reaches station 2 before station 1's SHB frame:
FIFO per sender is not enough for n ≥ 3 -/
theorem order_needs_more_than_sender_fifo_witness :
    ((((Mesh.ofList [ex1, ex2, ex3]).run exW3
        [.req 1 (exR .shb [1]), .req 1 (exR (.gbc 7) [2]), .dlv 1, .dlv 2, .dlv 3, .dlv 0, .dlv 0, .dlv 0, .dlv 0, .dlv 0]).st 2).delivered.map
          (·.payload)) = [[2], [1]] ∧
    (((Mesh.ofList [ex1, ex2, ex3]).run exW3
        [.req 1 (exR .shb [1]), .req 1 (exR (.gbc 7) [2]), .dlv 1, .dlv 2, .dlv 3, .dlv 0, .dlv 0, .dlv 0, .dlv 0, .dlv 0]).air = []) := by
  decide

/-- "request order per destination" is per destination of the REQUEST: a unicast that has to wait for the
location service is handed over after a broadcast requested later (FIFO medium, two stations) -/
theorem ls_deferred_unicast_after_later_broadcast_witness :
    ((((Mesh.ofList [exA, exB]).run exW
        [.req 1 (exReq (.guc 2) [1]), .req 1 (exReq (.gbc 7) [2]), .dlv 0, .dlv 0, .dlv 0, .dlv 0, .dlv 0]).st 2).delivered.map
          (·.payload)) = [[2], [1]] := by decide

/-! ### Delivery order: request order per destination on a medium that is FIFO per receiver -/

/-- **Request order per destination, overlapping requests.**  n stations, ANY interleaving of requests and
single deliveries — requests may be issued while frames of earlier requests are still in the air and while a
location-service lookup for their destination is pending, other stations' traffic arrives in between — under ONE
assumption on the medium (`FifoRun`): every station hears the frames in the order in which they were transmitted
(stations may lag behind each other arbitrarily).  If nothing is left in the air at the end, then what station `b`
has been handed from station `a` for the destination of transport `t` (single-hop broadcast / a given area / a
given unicast address) is exactly what `a`'s requests with that transport prescribe, in request order.
Without the assumption the clause fails (`order_needs_fifo_witness`, and for n ≥ 3 FIFO per sender is not enough:
`order_needs_more_than_sender_fifo_witness`); it is per destination of the REQUEST, not per receiving station
(`ls_deferred_unicast_after_later_broadcast_witness`). -/
theorem request_order_per_destination (w : World) (sts : List Station) (hq : QuietN sts) (evs : List Ev)
    (hev : ∀ ev ∈ evs, EvOK (Mesh.ofList sts) ev) (hfifo : FifoRun w (Mesh.ofList sts) evs)
    (hair : ((Mesh.ofList sts).run w evs).air = []) :
    ∀ a ∈ sts, ∀ b ∈ sts, a.addr ≠ b.addr → ∀ t : Transport,
      (((Mesh.ofList sts).run w evs).st b.addr).delivered.filter (fun d => d.so == a.addr && d.kind == kindOf t) =
        b.delivered.filter (fun d => d.so == a.addr && d.kind == kindOf t) ++
        ((reqsOf evs a.addr).filter (fun r => r.transport == t)).flatMap (expected w a b) := by
  intro a ha b hb hab t
  have h := fifo_order w _ hq.quietM evs hev hfifo hair a.addr (List.mem_map.mpr ⟨a, ha, rfl⟩) b.addr
    (List.mem_map.mpr ⟨b, hb, rfl⟩) hab t
  rw [ofList_st sts hq.distinct b hb] at h
  rw [h]
  congr 1
  apply flatMap_congr'
  intro r _
  simp only [staticOf, ofList_st sts hq.distinct a ha, ofList_st sts hq.distinct b hb]
  rw [expS_expected, if_neg hab]

/-- the location-service clause of the property: station 1 issues three unicast requests back to back for
station 3, which it has never heard (the first starts the lookup, the others are issued while it is pending);
unrelated traffic (an SHB of station 2, a GBC of station 3) is requested and received in between; the medium is
FIFO per receiver.  All hypotheses of `request_order_per_destination` hold and station 3 is handed the three
payloads once each, in request order. -/
def exLsBurst : List Ev :=
  [.req 1 (exR (.guc 3) [1]), .req 1 (exR (.guc 3) [2]), .req 2 (exR .shb [9]), .dlv 1, .req 1 (exR (.guc 3) [3]),
   .req 3 (exR (.gbc 7) [8])] ++ (List.replicate 40 (.dlv 0))

example : FifoRun exW3 (Mesh.ofList [ex1, ex2, ex3]) exLsBurst := by decide
example : ((Mesh.ofList [ex1, ex2, ex3]).run exW3 exLsBurst).air = [] := by decide
example : (((((Mesh.ofList [ex1, ex2, ex3]).run exW3 exLsBurst).st 3).delivered.filter
    (fun d => d.so == 1 && d.kind == kindOf (.guc 3))).map (·.payload)) = [[1], [2], [3]] := by decide
example : ∀ ev ∈ exLsBurst, EvOK (Mesh.ofList [ex1, ex2, ex3]) ev := by
  intro ev hev
  simp only [exLsBurst, List.cons_append, List.nil_append, List.mem_cons, List.mem_replicate] at hev
  rcases hev with rfl | rfl | rfl | rfl | rfl | rfl | ⟨_, rfl⟩ <;>
    simp [EvOK, RqOK, exR, Mesh.ofList, ex1, ex2, ex3]

/-- duplicate packet list as a ring (the code: `itsGnDPLLength` = 8 sequence numbers per source): nine unicast
requests of station 1 wait for a lookup of station 2; when they are flushed, station 3 forwards every packet and
station 2's ring has forgotten the first sequence numbers when the copies arrive — every payload is handed over
twice (known finding C01-KF2; real-stack replay in `props/c01.py`).  With the unbounded duplicate memory of the
theorems (`plainSem`) each payload arrives once. -/
def nineUnicasts : List Ev := (List.range 9).map (fun k => Ev.req 1 { exR (.guc 2) [k] with dport := 2001 })

theorem dpl_ring_overflow_witness :
    (((drain (ringSem exW3 8 65535) fullRange 400 0
        (nineUnicasts.foldl (Mesh.stepG (ringSem exW3 8 65535) fullRange) (Mesh.ofList [ex1, ex2, ex3]))).1.st 2).delivered.map
          (·.payload)) = [[0], [1], [2], [3], [4], [5], [6], [7], [8], [0], [1], [2], [3], [4], [5], [6], [7], [8]] ∧
    (((drain (plainSem exW3) fullRange 400 0
        (nineUnicasts.foldl (Mesh.stepG (plainSem exW3) fullRange) (Mesh.ofList [ex1, ex2, ex3]))).1.st 2).delivered.map
          (·.payload)) = [[0], [1], [2], [3], [4], [5], [6], [7], [8]] := by
  decide +kernel

/-! ### What the driver runs: duplicate ring of `L` per source, sequence numbers modulo `M`

The code remembers only the last `itsGnDPLLength` = 8 sequence numbers per source and allocates sequence numbers
modulo 65535; the theorems above are about unbounded memory and numbers.  `ring_refines_plain` closes the gap under
an explicit window hypothesis; `dpl_ring_overflow_witness` shows that the hypothesis is needed. -/

/-- **Refinement under the window hypothesis.**  Fresh stations (empty duplicate lists, counters below the modulus),
any schedule of requests and deliveries.  If at every delivery the ring of the last `L` sequence numbers per source
modulo `M` answers the duplicate test like the complete history would (`WindowRun`), then the run of the driver's
semantics (`ringSem`: ring + wrap-around) is, station by station, the ring view of the run of the plain semantics:
in particular every handler is invoked with exactly the same deliveries in the same order, so all theorems above hold
for it. -/
theorem ring_refines_plain (w : World) (L M : Nat) (hM : 0 < M) (sts : List Station)
    (hfresh : ∀ s ∈ sts, s.seen = [] ∧ s.sn < M) (evs : List Ev) (hw : WindowRun w L M (Mesh.ofList sts) evs) :
    evs.foldl (Mesh.stepG (ringSem w L M) fullRange) (Mesh.ofList sts) = ringM L M ((Mesh.ofList sts).run w evs) ∧
    ∀ a, ((evs.foldl (Mesh.stepG (ringSem w L M) fullRange) (Mesh.ofList sts)).st a).delivered =
      (((Mesh.ofList sts).run w evs).st a).delivered := by
  have h0 : ringM L M (Mesh.ofList sts) = Mesh.ofList sts := by
    apply ringM_fresh L M _ rfl
    intro a
    by_cases ha : a ∈ sts.map (·.addr)
    · exact hfresh _ (ofList_mem sts a ha)
    · refine ⟨ofList_seen_nil sts a ha, ?_⟩
      have : sts.find? (fun s => decide (s.addr = a)) = none := by
        rw [List.find?_eq_none]; intro s hs he; simp at he; exact ha (List.mem_map.mpr ⟨s, hs, he⟩)
      simp [Mesh.ofList, this, hM]
  have h1 := ring_run w L M (Mesh.ofList sts) evs hw
  rw [h0] at h1
  exact ⟨h1, fun a => by rw [h1]; rfl⟩

/-- the window hypothesis holds for the location-service burst above with the code's parameters (8, 65535) … -/
example : WindowRun exW3 8 65535 (Mesh.ofList [ex1, ex2, ex3]) exLsBurst := by decide
/-- … and fails for the nine buffered unicasts of `dpl_ring_overflow_witness` delivered in FIFO order -/
example : ¬ WindowRun exW3 8 65535 (Mesh.ofList [ex1, ex2, ex3]) (nineUnicasts ++ List.replicate 120 (.dlv 0)) := by
  decide +kernel

/-- Known finding C01-KF1 (store-carry-forward buffers are stubs), machine-checked witness: a request parked by
the stub is prescribed a delivery that never happens.  `ReqOK` excludes exactly this region (`scfBlocked`). -/
theorem scf_blocked_witness :
    (exchange exW exA exB { exReq (.gbc 7) [1] with scfBlocked := true }).2.1.delivered = [] ∧
    expected exW exA exB { exReq (.gbc 7) [1] with scfBlocked := true } ≠ [] := by decide


/-! ## Round 4: receptions between the requests of one lookup, concurrent source operations, regenerated guards

The correspondence programmes now interleave requests with PARTIAL deliveries (some receivers lag behind, the medium
stays FIFO per receiver) and run two requesting threads on one station.  The clauses they exercise, at full strength: -/

/-- **Regenerated fact** (`harness/gen_net.py`, `Generated/NetFacts.lean`): the guard of `Router.gn_data_request_guc`
that hands a GeoUnicast request to the location service (start a lookup / queue behind the running one) instead of
transmitting it, as a Boolean function of the destination's location table entry - present?, lookup pending?,
neighbour? - is "no entry, or lookup pending", whatever the neighbour flag says. -/
theorem guc_guard_extracted : ∀ present pending neighbour : Bool,
    Generated.NetFacts.gucQueueGuard present pending neighbour = (!present || pending) := by decide

theorem lookup_setPending (p : List (Addr × List Req)) (a : Addr) (q : List Req) :
    lookupPending (setPending p a q) a = some q := by
  unfold setPending
  split
  · rename_i h
    induction p with
    | nil => simp at h
    | cons e p ih =>
      by_cases he : e.1 = a
      · simp [lookupPending, List.find?_cons, he]
      · have h' : p.any (fun e => decide (e.1 = a)) = true := by simpa [he] using h
        have := ih h'
        simp only [lookupPending, List.map_cons, List.find?_cons, he, if_false, decide_false] at this ⊢
        exact this
  · rename_i h
    have hn : p.find? (fun e => decide (e.1 = a)) = none := by
      rw [List.find?_eq_none]; intro e he; simpa using fun e' => h (List.any_eq_true.mpr ⟨e, he, by simpa using e'⟩)
    simp [lookupPending, List.find?_append, hn]

/-- **The model's unicast source operation follows the extracted guard**: after a unicast request for `de` a lookup
for `de` is pending (started or continued, the request buffered) exactly when the guard read from the source says
"location service", where `present` = the model knows the destination or has a lookup for it, `pending` = it has a
lookup for it - for every value of the neighbour flag, which the model does not even record.  A guard that consults
anything else (e.g. "pending and not a neighbour") re-opens this obligation. -/
theorem guc_request_follows_code_guard (s : Station) (r : Req) (de : Addr) (neighbour : Bool)
    (ht : r.transport = .guc de) :
    (lookupPending (request s r).1.pending de).isSome =
      Generated.NetFacts.gucQueueGuard ((lookupPending s.pending de).isSome || s.known.contains de)
        (lookupPending s.pending de).isSome neighbour := by
  rw [guc_guard_extracted]
  cases hl : lookupPending s.pending de with
  | some q => simp [request, ht, hl, lookup_setPending]
  | none =>
    by_cases hk : de ∈ s.known
    · simp [request, ht, hl, hk]
    · simp [request, ht, hl, hk, lookup_setPending]

/-- a pending lookup survives every reception but the reply it waits for (SHB / beacon of the sought station
included) -/
theorem lookup_pending_until_reply (w : World) (s : Station) (p : Pkt) (de : Addr)
    (h : ¬ (p.kind = .lsRep s.addr ∧ p.so = de)) :
    lookupPending (receive w s p).1.pending de = lookupPending s.pending de := lookup_survives_reception w s p de h

/-- **Unicast while the lookup is pending and the destination has been heard meanwhile.**  The destination's SHB /
beacon arrives before the location-service reply: the destination is now known (a neighbour with a valid position
vector), the lookup is still pending, and the next unicast request for it is QUEUED behind the buffered ones -
nothing is transmitted, no sequence number is consumed - so that it cannot overtake them. -/
theorem destination_heard_meanwhile_still_queues (w : World) (s : Station) (p : Pkt) (r : Req) (de : Addr)
    (q : List Req) (hso : p.so = de) (hne : de ≠ s.addr) (hk : p.kind = .shb)
    (hp : lookupPending s.pending de = some q) (ht : r.transport = .guc de) :
    (receive w s p).1.known.contains de = true ∧
    request (receive w s p).1 r =
      ({ (receive w s p).1 with pending := setPending (receive w s p).1.pending de (q ++ [r]) }, []) :=
  heard_destination_still_queues w s p r de q hso hne hk hp ht

/-- **Request order per destination for every programme with lagging receivers.**  A lag programme is any sequence
of requests (any station) and lag pumps (`LagOp.pump lag`: everything in the air is delivered, oldest first, except
to the stations in `lag`, which keep transmitting and are heard) - the interleavings the correspondence check runs on
the real stacks.  Every such programme is a FIFO-per-receiver run (`lagEvs_fifo`), hence, when nothing is left in the
air, every station has been handed the payloads of every other station per destination in request order - also the
unicasts issued while the lookup was pending and the destination had been heard meanwhile. -/
theorem lag_programme_order (w : World) (sts : List Station) (hq : QuietN sts) (fuel : Nat) (ops : List LagOp)
    (hev : ∀ ev ∈ lagEvs w fuel (Mesh.ofList sts) ops, EvOK (Mesh.ofList sts) ev)
    (hair : ((Mesh.ofList sts).run w (lagEvs w fuel (Mesh.ofList sts) ops)).air = []) :
    ∀ a ∈ sts, ∀ b ∈ sts, a.addr ≠ b.addr → ∀ t : Transport,
      (((Mesh.ofList sts).run w (lagEvs w fuel (Mesh.ofList sts) ops)).st b.addr).delivered.filter
          (fun d => d.so == a.addr && d.kind == kindOf t) =
        b.delivered.filter (fun d => d.so == a.addr && d.kind == kindOf t) ++
        ((reqsOf (lagEvs w fuel (Mesh.ofList sts) ops) a.addr).filter (fun r => r.transport == t)).flatMap
          (expected w a b) :=
  request_order_per_destination w sts hq _ hev (lagEvs_fifo w fuel _ ops) hair

/-- non-vacuity (the history of seeded change C01-m4): station 1 sends a unicast to station 3, which it has never
heard; station 3 lags (it has not heard the LS request) and sends an SHB of its own, which stations 1 and 2 hear;
station 1 sends a second unicast to station 3; then station 3 catches up. -/
def exLagOps : List LagOp :=
  [.rq 1 (exR (.guc 3) [1]), .pump [3], .rq 3 (exR .shb [9]), .pump [3], .rq 1 (exR (.guc 3) [2]), .pump []]

/-- at the second request station 1 knows station 3 AND its lookup for station 3 is still pending -/
example :
    let m := (Mesh.ofList [ex1, ex2, ex3]).run exW3 (lagEvs exW3 60 (Mesh.ofList [ex1, ex2, ex3]) (exLagOps.take 4))
    (m.st 1).known.contains 3 = true ∧ (lookupPending (m.st 1).pending 3).isSome = true ∧
      (m.air.map (·.1)).all (· == 3) = true ∧ m.air ≠ [] := by decide
example : ((Mesh.ofList [ex1, ex2, ex3]).run exW3 (lagEvs exW3 60 (Mesh.ofList [ex1, ex2, ex3]) exLagOps)).air = [] := by
  decide
example : (((((Mesh.ofList [ex1, ex2, ex3]).run exW3 (lagEvs exW3 60 (Mesh.ofList [ex1, ex2, ex3]) exLagOps)).st 3).delivered.filter
    (fun d => d.so == 1 && d.kind == kindOf (.guc 3))).map (·.payload)) = [[1], [2]] := by decide

/-- **Regenerated fact**: `Router.get_sequence_number` touches the counter only inside
`with self.sequence_number_lock` and returns from inside that section - the allocation is one atomic step, as in
the model's `request` (`sn := s.sn + 1`). -/
theorem sn_allocation_is_one_section :
    Generated.NetFacts.snAccessesOutsideLock = 0 ∧ Generated.NetFacts.snReturnsUnderLock = true := by decide

/-- **Concurrent source operations never share a sequence number.**  Any number of threads inside
`get_sequence_number` (the shape read from the source: `snReturnsUnderLock`), ANY schedule: two threads that have
returned hold different numbers - so two PDUs requested once each are never mistaken for duplicates of each other by
a receiver's duplicate packet detection, and `async_exactly_once_n` (atomic `req` events) applies to requests issued
by concurrent threads. -/
theorem concurrent_requests_distinct_sn (c : Nat) (sched : List Nat) (t u : Nat) (htu : t ≠ u)
    (ht : (SnAlloc.run Generated.NetFacts.snReturnsUnderLock c sched).pc t = .done)
    (hu : (SnAlloc.run Generated.NetFacts.snReturnsUnderLock c sched).pc u = .done) :
    (SnAlloc.run Generated.NetFacts.snReturnsUnderLock c sched).ret t ≠
      (SnAlloc.run Generated.NetFacts.snReturnsUnderLock c sched).ret u := by
  have h : Generated.NetFacts.snReturnsUnderLock = true := by decide
  rw [h] at ht hu ⊢
  exact (SnAlloc.distinct c sched t u htu ht hu).1

/-- the hypothesis is needed: with the result read after the lock has been released two threads are handed the same
number (the receiver then drops the second PDU as a duplicate: seeded change C01-m5) -/
theorem sn_read_outside_lock_witness :
    (SnAlloc.run false 7 [0, 0, 1, 1, 1, 0]).pc 0 = .done ∧ (SnAlloc.run false 7 [0, 0, 1, 1, 1, 0]).pc 1 = .done ∧
    (SnAlloc.run false 7 [0, 0, 1, 1, 1, 0]).ret 0 = (SnAlloc.run false 7 [0, 0, 1, 1, 1, 0]).ret 1 := by decide


/-! ## Round 5: a lookup answered twice; two receive threads and the location table

(1) The location-service retransmission timer makes the sought station answer more than once: every reply after the
first must be silent.  (2) With several receive threads the duplicate memory of a source (its location table entry)
must survive the `refresh_table` another thread is executing. -/

/-- **Regenerated fact** (`harness/gen_net.py`): in `Router.gn_data_indicate_ls_reply` the requests re-issued by the
flush loop are read from `_ls_packet_buffers` inside a `with self._ls_lock` block that also REMOVES the buffer
(`pop`) - the model's reply branch (`erasePending`).  A flush that leaves the buffer in place (seeded change
C01-m8: `list(self._ls_packet_buffers.get(...))`) re-opens this obligation. -/
theorem ls_flush_takes_the_buffer : Generated.NetFacts.lsFlushTakesBuffer = true := by decide

/-- **A second LS reply flushes nothing.**  Station `s` accepts an LS reply `p1` of station `p1.so`; then anything
happens at `s` (receptions of any packets, requests of any kind, any number, any order: `evs`); then another LS reply
`p2` of the same station arrives - the answer to a retransmitted LS request, a different packet with a different
sequence number, not a duplicate.  It transmits nothing, invokes no handler and consumes no sequence number; the
unicast requests that waited for the lookup were sent exactly once, by the first reply (`flush_spec`).  No hypothesis
on `p2` beyond its kind and source: also a reply nobody asked for is silent. -/
theorem second_ls_reply_flushes_nothing (w : World) (s : Station) (p1 p2 : Pkt) (evs : List SEv)
    (hk1 : p1.kind = .lsRep s.addr) (hne : p1.so ≠ s.addr) (hd : s.seen.contains (p1.so, p1.sn) = false)
    (hk2 : p2.kind = .lsRep s.addr) (hso : p2.so = p1.so) :
    (receive w (evs.foldl (stepS w) (receive w s p1).1) p2).2 = [] ∧
    (receive w (evs.foldl (stepS w) (receive w s p1).1) p2).1.delivered =
      (evs.foldl (stepS w) (receive w s p1).1).delivered ∧
    (receive w (evs.foldl (stepS w) (receive w s p1).1) p2).1.sn = (evs.foldl (stepS w) (receive w s p1).1).sn :=
  second_reply_flushes_nothing w s p1 p2 evs hk1 hne hd hk2 hso

/-- the lookup is over after the first reply and stays over whatever the station receives or is asked to send -/
theorem lookup_settled_after_reply (w : World) (s : Station) (p : Pkt) (evs : List SEv)
    (hk : p.kind = .lsRep s.addr) (hne : p.so ≠ s.addr) (hd : s.seen.contains (p.so, p.sn) = false) :
    lookupPending (evs.foldl (stepS w) (receive w s p).1).pending p.so = none ∧
    (evs.foldl (stepS w) (receive w s p).1).known.contains p.so = true :=
  let h := settled_run w _ _ evs (settled_after_reply w s p hk hne hd)
  ⟨h.2, h.1⟩

/-- non-vacuity, on the mesh the driver runs (the history of seeded change C01-m8): station 1 sends two unicasts to
station 2, which it has never heard; the LS request is retransmitted (`Mesh.retx`) before anything is delivered; then
everything is delivered oldest first: station 2 answers BOTH LS requests, station 1 receives both replies - and
station 2 is handed each payload exactly once, in request order. -/
def exRetx : Mesh :=
  (drain (ringSem exW3 8 65535) fullRange 400 0
    (Mesh.retx 65535 fullRange
      ([Ev.req 1 { exR (.guc 2) [1] with dport := 2001 }, Ev.req 1 { exR (.guc 2) [2] with dport := 2001 }].foldl
        (Mesh.stepG (ringSem exW3 8 65535) fullRange) (Mesh.ofList [ex1, ex2])) 1 2)).1

example : exRetx.air = [] ∧ ((exRetx.st 2).delivered.map (·.payload)) = [[1], [2]] ∧
    -- two LS requests and two unicasts left station 1, two LS replies left station 2
    (exRetx.st 1).sn = 4 ∧ (exRetx.st 2).sn = 2 := by decide

/-- **Regenerated fact** (`harness/gen_locks.py`, `Generated/Locks.lean`, regenerated for C01 by gen_net.py):
`LocationTable.refresh_table` is ONE `with self.loc_t_lock` section in which `loc_t` is read, filtered and re-bound
(a read-modify-write), and the receptions create-or-fetch and update a location table entry (with its duplicate packet
list) in one `loc_t_lock` section each.  Reading the table in one section and publishing the aged copy in another
(seeded change C01-m7) re-opens this obligation. -/
theorem refresh_table_is_one_section :
    Generated.Locks.shape .LocationTable_refresh_table = [([.LocationTable_loc_t_lock], [.LocationTable_loc_t])] ∧
    ([Generated.Locks.Fn.LocationTable_new_shb_packet, .LocationTable_new_gbc_packet, .LocationTable_new_gac_packet,
      .LocationTable_new_guc_packet, .LocationTable_new_tsb_packet, .LocationTable_new_ls_request_packet,
      .LocationTable_new_ls_reply_packet].all (fun f =>
        (Generated.Locks.shape f).length == 1 &&
        (Generated.Locks.shape f).all (fun b => b.1 == [.LocationTable_loc_t_lock]))) = true := by decide

/-- the shape of refresh_table as the model of `Net/Refresh.lean` needs it, computed from the regenerated table:
every access to `loc_t` (the read of the old table and the re-binding) lies in one and the same `loc_t_lock` section -/
def refreshOneSection : Bool :=
  decide (Generated.Locks.shape .LocationTable_refresh_table = [([.LocationTable_loc_t_lock], [.LocationTable_loc_t])])

/-- **Concurrent receive threads lose no location table entry.**  Any number of threads, each ageing the table
(`refresh_table`, shape read from the source) or creating the entry of a source it hears for the first time, ANY
schedule of their `loc_t_lock` sections, any set of expired entries: once the creating thread has finished, the entry
of a source that has not expired is in the table - and with it the duplicate packet list that remembers the packet
just handed up, so that a forwarder's copy of it is recognised (`receive`: `s.seen.contains (p.so, p.sn)`, a memory
that only grows).  The station model's single, growing `seen` list is justified for concurrent receptions by this
theorem and the per-entry sections of C15. -/
theorem concurrent_refresh_keeps_new_entry (alive : Nat → Bool) (role : Nat → Refresh.Role) (tbl0 : List Nat)
    (sched : List Nat) (t k : Nat) (hr : role t = .insert k)
    (hd : (Refresh.run refreshOneSection alive role tbl0 sched).pc t = .done) (ha : alive k = true) :
    k ∈ (Refresh.run refreshOneSection alive role tbl0 sched).tbl := by
  have h : refreshOneSection = true := by decide
  rw [h] at hd ⊢
  exact (Refresh.insert_survives alive role tbl0 sched t k hr hd ha).1

/-- the hypothesis is needed: with the table read in one section and the aged copy published in another, the entry
created in between is lost although it is alive (seeded change C01-m7) -/
theorem refresh_split_loses_entry_witness :
    (Refresh.run false (fun _ => true) Refresh.exRole [3] [0, 1, 0]).pc 1 = .done ∧
    Refresh.exRole 1 = .insert 5 ∧
    5 ∉ (Refresh.run false (fun _ => true) Refresh.exRole [3] [0, 1, 0]).tbl := by decide

/-! ### Round 6: clock skew, abandoned lookups, the LS packet buffer and the link layer -/

/-- `LocationTable._age_ms` as re-read from the source: the guard `if tst > current_time: return 0` is in front of the
subtraction.  Dropping it (seeded change C01-m10) re-opens this obligation. -/
theorem age_guard_extracted : Generated.NetFacts.ageClampsFuture = true := by decide

/-- **A station whose clock runs ahead stays known.**  For the shape of `_age_ms` re-read from the source, every local
clock value `now`, every skew `d` (1 ms up to 2^31 - 1 ms, timestamps modulo 2^32) and every entry lifetime:
`refresh_table` - which runs right after every reception - keeps the location table entry whose position vector is
stamped `now + d`.  This is what the station model's monotone `known` list (`learn`) relies on when stations'
clocks differ. -/
theorem skewed_station_stays_known (life now d : Nat) (hn : now < FlexModel.Geo.W) (hd : 0 < d)
    (hd2 : d < FlexModel.Geo.HALF) :
    keeps Generated.NetFacts.ageClampsFuture life now ((now + d) % FlexModel.Geo.W) = true := by
  have h : Generated.NetFacts.ageClampsFuture = true := by decide
  rw [h]
  exact ahead_kept life now d hn hd hd2

/-- the guard is needed: without it a position vector stamped ONE millisecond ahead is purged at every clock value
(itsGnLifetimeLocTE = 20 s) -/
theorem unclamped_future_is_purged (now : Nat) (hn : now < FlexModel.Geo.W) :
    keeps false 20000 now ((now + 1) % FlexModel.Geo.W) = false := by
  have e := unclamped_age_of_future now hn
  unfold keeps
  rw [e]
  decide

example : keeps true 20000 5 ((5 + 1500) % FlexModel.Geo.W) = true ∧ keeps false 20000 5 ((5 + 1500) % FlexModel.Geo.W) = false := by
  decide

/-- `Router._ls_retransmit` as re-read from the source: the give-up branch REMOVES the lookup from
`_ls_retransmit_counters` (key presence = "lookup running" in `gn_ls_request`) and from `_ls_packet_buffers`.
Seeded change C01-m12 (`[addr] = 0`) re-opens this obligation. -/
theorem ls_giveup_forgets_the_lookup : Generated.NetFacts.lsGiveUpForgetsLookup = true := by decide

/-- the give-up branch for the shape re-read from the source -/
def giveUpShape (forgets : Bool) (s : Station) (de : Addr) : Station :=
  if forgets then lsGiveUp s de else lsGiveUpStale s de

/-- **After an abandoned lookup a unicast request starts a NEW lookup**: for the give-up branch as extracted, every
station state, every request for a destination the station has no position of: exactly one LS request for the
destination is transmitted (the request is not merely queued behind a lookup that no longer runs). -/
theorem guc_after_abandoned_lookup_starts_new_lookup (s : Station) (de : Addr) (r : Req)
    (hr : r.transport = .guc de) (hk : s.known.contains de = false) :
    ((request (giveUpShape Generated.NetFacts.lsGiveUpForgetsLookup s de) r).2.map (·.kind)) = [.lsReq de] := by
  have h : Generated.NetFacts.lsGiveUpForgetsLookup = true := by decide
  rw [h]
  exact request_after_giveUp s de r hr hk

/-- non-vacuity, and the shape matters: with the lookup left registered the request transmits nothing -/
example :
    let s : Station := { addr := 1, pos := 7, pending := [(2, [])] }
    let r : Req := { btpB := true, dport := 2001, info := 0, payload := [1], transport := .guc 2, hopLimit := 10,
                     scfBlocked := false }
    ((request (giveUpShape true s 2) r).2.map (·.kind)) = [.lsReq 2] ∧ (request (giveUpShape false s 2) r).2 = [] := by
  decide

/-- `Router.gn_ls_request` as re-read from the source: the packet buffer of a new lookup (with the triggering request)
is stored under `_ls_lock` BEFORE the LS request is handed to the link layer; nothing after the send touches the
buffer or the request.  Seeded change C01-m11 re-opens this obligation. -/
theorem ls_buffer_opened_before_request_is_sent : Generated.NetFacts.lsBufferBeforeSend = true := by decide

/-- `gn_ls_request` (requesting thread: locked section A1, send S, locked section A2) against the reply handler R of the
receive thread (pops the buffer under `_ls_lock`, flushes it), at lock-section granularity.  `early`: the buffer is
created in A1 (the source's shape), otherwise in A2.  `replyFirst`: R runs between S and A2 (the reply is processed
before `LinkLayer.send` returns / before the requesting thread goes on) - R cannot run before S: the reply answers
the request.  Result: (requests flushed by R, requests left in a buffer nobody flushes). -/
def lsRace (early replyFirst : Bool) (r : Nat) : List Nat × List Nat :=
  let bufA1 : List Nat := if early then [r] else []
  if replyFirst then
    -- S, R (pops bufA1), A2 (late shape: appends r to a fresh buffer)
    (bufA1, if early then [] else [r])
  else
    -- S, A2, R (pops everything)
    (if early then bufA1 else [r], [])

/-- **The triggering request is flushed by the reply whatever the interleaving**, for the shape of `gn_ls_request`
re-read from the source: both schedules of the reply handler against the requesting thread's second section. -/
theorem ls_reply_flushes_triggering_request (replyFirst : Bool) (r : Nat) :
    lsRace Generated.NetFacts.lsBufferBeforeSend replyFirst r = ([r], []) := by
  have h : Generated.NetFacts.lsBufferBeforeSend = true := by decide
  rw [h]
  cases replyFirst <;> rfl

/-- the shape matters: buffer created after the send, reply processed in between - the request is stranded -/
theorem ls_buffer_after_send_strands_request_witness : lsRace false true 7 = ([], [7]) := by decide

end Props.C01

/-
C01 — End-to-end payload delivery between stations through BTP and GeoNetworking.
Property theorems only. Model: `FlexModel/Net/Stack.lean` (BTP header, GN source operations incl. location
service buffers, receive side with DAD/DPD/area test/forwarding; two stations on a reliable medium).
-/
import FlexModel.Net.Lemmas
import FlexModel.Net.Flood

namespace Props.C01
open FlexModel.Net
set_option linter.unusedSimpArgs false

/-! ## BTP header round trip: for every payload (any octets, any length) and all 16-bit ports -/

theorem btp_header_roundtrip (r : Req) (hd : r.dport < 65536) (hi : r.info < 65536) :
    btpDecode (btpEncode r) = (r.dport, r.info, r.payload) := btp_roundtrip r hd hi

/-! ## Local receive rules -/

/-- a station never hands its own packets upward nor re-transmits them -/
theorem own_packet_ignored (w : World) (s : Station) (p : Pkt) (h : p.so = s.addr) : receive w s p = (s, []) := by
  simp [receive, h]

/-- a multi-hop packet already seen (same source and sequence number) is neither delivered nor forwarded -/
theorem duplicate_ignored (w : World) (s : Station) (p : Pkt) (hk : p.kind ≠ .shb) (hs : (p.so, p.sn) ∈ s.seen) :
    receive w s p = (s, []) := by
  unfold receive
  split
  · rfl
  · cases hkk : p.kind <;> simp_all

/-- delivery goes to the handler registered for the decoded destination port and to no other port -/
theorem no_cross_port (s : Station) (p : Pkt) :
    (deliver s p).delivered = s.delivered ∨
    ∃ d, (deliver s p).delivered = s.delivered ++ [d] ∧ d.port = (btpDecode p.data).1 ∧ d.port ∈ s.ports ∧
      d.payload = (btpDecode p.data).2.2 ∧ d.so = p.so ∧ d.soPos = p.soPos := by
  unfold deliver
  simp only
  split
  · right; exact ⟨_, rfl, rfl, by simp_all, rfl, rfl, rfl⟩
  · left; rfl

/-- the location-service packet buffer is flushed in request order (requests parked by the store-carry-forward
stub are skipped), every buffered request consumes one sequence number, and the emitted sequence numbers are
fresh and strictly increasing -/
theorem flush_in_order (s : Station) (de : Addr) (q : List Req) :
    ((flush s de q).2.map (·.data)) = (q.filter (fun r => !r.scfBlocked)).map btpEncode ∧
    (flush s de q).1.sn = s.sn + q.length ∧
    (∀ p ∈ (flush s de q).2, s.sn < p.sn ∧ p.sn ≤ s.sn + q.length) ∧
    ((flush s de q).2.map (·.sn)).Pairwise (· < ·) := by
  induction q generalizing s with
  | nil => simp [flush]
  | cons r rs ih =>
    have ih' := ih { s with sn := s.sn + 1 }
    obtain ⟨i1, i2, i3, i4⟩ := ih'
    simp only [flush, List.length_cons]
    refine ⟨?_, ?_, ?_, ?_⟩
    · cases hb : r.scfBlocked <;> simp [hb, i1, gucPkt]
    · rw [i2]; simp; omega
    · intro p hp
      cases hb : r.scfBlocked <;> simp [hb] at hp
      · rcases hp with rfl | hp
        · simp [gucPkt]
        · have := i3 p hp; simp at this; omega
      · have := i3 p hp; simp at this; omega
    · cases hb : r.scfBlocked <;> simp [hb]
      · refine ⟨?_, i4⟩
        intro p hp
        have := i3 p hp
        simp [gucPkt] at this ⊢
        omega
      · exact i4

/-- a unicast request issued while a location-service lookup for its destination is pending is queued behind the
requests already waiting — nothing is transmitted, no sequence number is consumed — whatever else the station
received in between (the state `s` is arbitrary) -/
theorem request_queues_while_pending (s : Station) (r : Req) (de : Addr) (q : List Req)
    (ht : r.transport = .guc de) (hp : lookupPending s.pending de = some q) :
    request s r = ({ s with pending := setPending s.pending de (q ++ [r]) }, []) := by
  simp [request, ht, hp]

/-- the location-service retransmission only repeats the LS request: the packet buffer is untouched -/
theorem retransmit_keeps_buffer (s : Station) (de : Addr) :
    (lsRetransmit s de).1.pending = s.pending ∧ ∀ p ∈ (lsRetransmit s de).2, p.kind = .lsReq de := by
  unfold lsRetransmit
  cases lookupPending s.pending de <;> simp

/-! ## Two stations on a reliable medium: exactly-once, byte-identical, in order -/

/-- quiescent pair: no lookup in progress, and every sequence number one station has seen from the other has
really been allocated by it (so freshly allocated numbers are never mistaken for duplicates) -/
structure Quiet (a b : Station) : Prop where
  ne : a.addr ≠ b.addr
  pa : a.pending = []
  pb : b.pending = []
  sa : ∀ sn, (a.addr, sn) ∈ b.seen → sn ≤ a.sn
  sb : ∀ sn, (b.addr, sn) ∈ a.seen → sn ≤ b.sn

/-- requests in scope: 16-bit ports, not parked in a (stub) store-carry-forward buffer, unicast destination is
the peer (a station that is known or can be found by the location service) -/
def ReqOK (b : Station) (r : Req) : Prop :=
  r.dport < 65536 ∧ r.info < 65536 ∧ r.scfBlocked = false ∧ (∀ de, r.transport = .guc de → de = b.addr)

/-- outcome of one synchronous exchange -/
def Good (w : World) (a b : Station) (r : Req) : Prop :=
  let x := exchange w a b r
  x.2.1.delivered = b.delivered ++ expected w a b r ∧ x.1.delivered = a.delivered ∧ x.2.2 = [] ∧ Quiet x.1 x.2.1
  ∧ x.1.addr = a.addr ∧ x.2.1.addr = b.addr ∧ x.1.pos = a.pos ∧ x.2.1.pos = b.pos
  ∧ x.1.ports = a.ports ∧ x.2.1.ports = b.ports

private theorem fresh (a b : Station) (h : Quiet a b) (k : Nat) (hk : 0 < k) : ¬ (a.addr, a.sn + k) ∈ b.seen := by
  intro hm; have := h.sa _ hm; omega
private theorem fresh' (a b : Station) (h : Quiet a b) (k : Nat) (hk : 0 < k) : ¬ (b.addr, b.sn + k) ∈ a.seen := by
  intro hm; have := h.sb _ hm; omega

private theorem seen_bound {x : Addr} {l extra : List (Addr × Nat)} {n m sn : Nat}
    (h : ∀ sn, (x, sn) ∈ l → sn ≤ n) (hm : (x, sn) ∈ l ++ extra)
    (hextra : ∀ p ∈ extra, p.1 = x → p.2 ≤ m) (hnm : n ≤ m) : sn ≤ m := by
  rcases List.mem_append.mp hm with h1 | h1
  · exact Nat.le_trans (h _ h1) hnm
  · exact hextra _ h1 rfl

/-- closes the `Quiet` goals left after symbolic execution of an exchange -/
macro "close_quiet" h:ident hne:ident : tactic => `(tactic|
  (constructor
   · simpa using $hne
   · simp [($h).pa]
   · simp [($h).pb]
   · intro sn hm
     simp only [learn_seen, deliver_seen, learn_addr, deliver_addr] at hm
     first
     | (have := ($h).sa _ hm; simp; omega)
     | (refine seen_bound ($h).sa hm ?_ ?_ <;> simp <;> omega)
   · intro sn hm
     simp only [learn_seen, deliver_seen, learn_addr, deliver_addr] at hm
     first
     | (have := ($h).sb _ hm; simp; omega)
     | (refine seen_bound ($h).sb hm ?_ ?_ <;> simp <;> omega)))

theorem exchange_good (w : World) (a b : Station) (r : Req) (h : Quiet a b) (hr : ReqOK b r) : Good w a b r := by
  obtain ⟨hd, hi, hs, hde⟩ := hr
  have hne : ¬ a.addr = b.addr := h.ne
  have hne' : ¬ b.addr = a.addr := fun e => hne e.symm
  have hf := fresh a b h 1 (by omega)
  have hf2 := fresh a b h 2 (by omega)
  have hg := fresh' a b h 1 (by omega)
  cases ht : r.transport with
  | shb =>
    unfold Good exchange request
    simp only [ht]
    by_cases hp : r.dport ∈ b.ports <;>
      simp [receiveAll, receive, hne, deliver, btp_roundtrip r hd hi, expected, ht, hp]
    all_goals close_quiet h hne
  | gbc ar =>
    unfold Good exchange request
    simp only [ht, hs, Bool.false_eq_true, if_false]
    by_cases hh : 1 < hops a r <;> by_cases hin : w.inside ar b.addr = true <;> by_cases hp : r.dport ∈ b.ports <;>
      simp [receiveAll, receive, hne, hf, forwardCopy, deliver, btp_roundtrip r hd hi, expected, ht, hh, hin, hp]
    all_goals close_quiet h hne
  | gac ar =>
    unfold Good exchange request
    simp only [ht, hs, Bool.false_eq_true, if_false]
    by_cases hh : 1 < hops a r <;> by_cases hin : w.inside ar b.addr = true <;> by_cases hp : r.dport ∈ b.ports <;>
      simp [receiveAll, receive, hne, hf, forwardCopy, deliver, btp_roundtrip r hd hi, expected, ht, hh, hin, hp]
    all_goals close_quiet h hne
  | guc de =>
    have hdeb := hde de ht
    subst hdeb
    unfold Good exchange request
    simp only [ht, hs, Bool.false_eq_true, if_false, h.pa, lookupPending, List.find?_nil, Option.map_none]
    by_cases hk : b.addr ∈ a.known <;> by_cases hp : r.dport ∈ b.ports <;>
      simp [receiveAll, receive, hne, hne', hf, hf2, hg, forwardCopy, deliver, btp_roundtrip r hd hi, expected, ht, hk, hp,
        gucPkt, setPending, h.pa, h.pb, lookupPending, erasePending, flush, hs]
    all_goals close_quiet h hne

/-! ### Programmes: any sequence of requests, issued by either station -/

/-- a programme step: `true` = issued by the first station, `false` = by the second -/
abbrev Step := Bool × Req

def runProg (w : World) : Station → Station → List Step → Station × Station
  | a, b, [] => (a, b)
  | a, b, (true, r) :: ps => let x := exchange w a b r; runProg w x.1 x.2.1 ps
  | a, b, (false, r) :: ps => let x := exchange w b a r; runProg w x.2.1 x.1 ps

/-- what the property prescribes for the second / first station over a whole programme -/
def expectedB (w : World) (a b : Station) : List Step → List Delivery
  | [] => []
  | (true, r) :: ps => expected w a b r ++ expectedB w a b ps
  | (false, _) :: ps => expectedB w a b ps

def expectedA (w : World) (a b : Station) : List Step → List Delivery
  | [] => []
  | (true, _) :: ps => expectedA w a b ps
  | (false, r) :: ps => expected w b a r ++ expectedA w a b ps

def ProgOK (a b : Station) (ps : List Step) : Prop :=
  ∀ s ∈ ps, (s.1 = true → ReqOK b s.2) ∧ (s.1 = false → ReqOK a s.2)

private theorem quiet_symm {a b : Station} (h : Quiet a b) : Quiet b a :=
  ⟨fun e => h.ne e.symm, h.pb, h.pa, h.sb, h.sa⟩

private theorem expected_congr (w : World) (a b a' b' : Station) (r : Req)
    (h1 : a'.addr = a.addr) (h2 : a'.pos = a.pos) (h3 : b'.addr = b.addr) (h4 : b'.ports = b.ports) :
    expected w a' b' r = expected w a b r := by
  simp [expected, h1, h2, h3, h4]

private theorem expectedB_congr (w : World) (a b a' b' : Station) (ps : List Step)
    (h1 : a'.addr = a.addr) (h2 : a'.pos = a.pos) (h3 : b'.addr = b.addr) (h4 : b'.ports = b.ports) :
    expectedB w a' b' ps = expectedB w a b ps := by
  induction ps with
  | nil => rfl
  | cons s ps ih =>
    obtain ⟨sd, r⟩ := s
    cases sd <;> simp [expectedB, ih, expected_congr w a b a' b' r h1 h2 h3 h4]

private theorem expectedA_congr (w : World) (a b a' b' : Station) (ps : List Step)
    (h1 : b'.addr = b.addr) (h2 : b'.pos = b.pos) (h3 : a'.addr = a.addr) (h4 : a'.ports = a.ports) :
    expectedA w a' b' ps = expectedA w a b ps := by
  induction ps with
  | nil => rfl
  | cons s ps ih =>
    obtain ⟨sd, r⟩ := s
    cases sd <;> simp [expectedA, ih, expected_congr w b a b' a' r h1 h2 h3 h4]

private theorem reqok_congr {b b' : Station} (r : Req) (h : b'.addr = b.addr) : ReqOK b r → ReqOK b' r := by
  intro ⟨h1, h2, h3, h4⟩; exact ⟨h1, h2, h3, by rw [h]; exact h4⟩

/-- **End-to-end theorem.** For every programme of requests (any length, any payloads, both transports types of
BTP, SHB/GBC/GAC/GUC incl. unicast via the location service, issued by either station in any order), each
station's handlers are invoked with exactly the prescribed deliveries — each request addressed to it exactly
once, byte-identical, on the destination port only, with the sender's position vector, in request order — and
nothing else; the sender never receives its own payload. -/
theorem e2e_two_stations (w : World) (ps : List Step) (a b : Station) (h : Quiet a b) (hp : ProgOK a b ps) :
    (runProg w a b ps).2.delivered = b.delivered ++ expectedB w a b ps ∧
    (runProg w a b ps).1.delivered = a.delivered ++ expectedA w a b ps := by
  induction ps generalizing a b with
  | nil => simp [runProg, expectedA, expectedB]
  | cons s ps ih =>
    obtain ⟨side, r⟩ := s
    have hs := hp (side, r) (by simp)
    have hrest : ∀ a' b', a'.addr = a.addr → b'.addr = b.addr → ProgOK a' b' ps := by
      intro a' b' ha hb s hs'
      have := hp s (by simp [hs'])
      exact ⟨fun e => reqok_congr _ hb (this.1 e), fun e => reqok_congr _ ha (this.2 e)⟩
    cases side with
    | true =>
      have g := exchange_good w a b r h (hs.1 rfl)
      unfold Good at g
      simp only at g
      obtain ⟨g1, g2, _, g4, g5, g6, g7, g8, g9, g10⟩ := g
      have := ih _ _ g4 (hrest _ _ g5 g6)
      simp only [runProg, expectedA, expectedB]
      rw [this.1, this.2, g1, g2, expectedB_congr w a b _ _ ps g5 g7 g6 g10,
        expectedA_congr w a b _ _ ps g6 g8 g5 g9, List.append_assoc]
      exact ⟨rfl, rfl⟩
    | false =>
      have g := exchange_good w b a r (quiet_symm h) (hs.2 rfl)
      unfold Good at g
      simp only at g
      obtain ⟨g1, g2, _, g4, g5, g6, g7, g8, g9, g10⟩ := g
      have := ih _ _ (quiet_symm g4) (hrest _ _ g6 g5)
      simp only [runProg, expectedA, expectedB]
      rw [this.1, this.2, g1, g2, expectedB_congr w a b _ _ ps g6 g8 g5 g9,
        expectedA_congr w a b _ _ ps g5 g7 g6 g10, List.append_assoc]
      exact ⟨rfl, rfl⟩

/-- corollaries in the words of the property -/
theorem not_to_sender (w : World) (a b : Station) (r : Req) (h : Quiet a b) (hr : ReqOK b r) :
    (exchange w a b r).1.delivered = a.delivered := (exchange_good w a b r h hr).2.1

theorem not_outside_area (w : World) (a b : Station) (r : Req) (ar : Area)
    (ht : r.transport = .gbc ar ∨ r.transport = .gac ar) (hout : w.inside ar b.addr = false) :
    expected w a b r = [] := by
  rcases ht with ht | ht <;> simp [expected, ht, hout]

theorem unregistered_port_not_delivered (w : World) (a b : Station) (r : Req) (hp : ¬ r.dport ∈ b.ports) :
    expected w a b r = [] := by
  simp [expected, hp]

/-! ## Non-vacuity: a concrete quiescent pair and a programme that exercises the location service -/

def exA : Station := { addr := 1, pos := 11, ports := [2001] }
def exB : Station := { addr := 2, pos := 22, ports := [2001, 2002] }
def exW : World := { inside := fun ar x => ar = 7 ∧ x = 2 }
def exReq (t : Transport) (pl : Bytes) : Req :=
  { btpB := true, dport := 2002, info := 5, payload := pl, transport := t, hopLimit := 3, scfBlocked := false }

example : Quiet exA exB := ⟨by decide, rfl, rfl, by simp [exB], by simp [exA]⟩
example : (runProg exW exA exB [(true, exReq (.guc 2) [1, 2, 3]), (true, exReq (.gbc 7) []), (true, exReq (.gbc 8) [9])]).2.delivered.map (·.payload)
    = [[1, 2, 3], []] := by decide

/-- Known finding C01-KF1 (store-carry-forward buffers are stubs), machine-checked witness: a request parked by
the stub is prescribed a delivery that never happens.  `ReqOK` excludes exactly this region (`scfBlocked`). -/
theorem scf_blocked_witness :
    (exchange exW exA exB { exReq (.gbc 7) [1] with scfBlocked := true }).2.1.delivered = [] ∧
    expected exW exA exB { exReq (.gbc 7) [1] with scfBlocked := true } ≠ [] := by decide

end Props.C01

/-
C08 — bridge lemmas: the wrap-aware comparison / difference operators of `position_vector.TST`
(`__gt__ __ge__ __lt__ __le__ __eq__ __sub__ __add__`) extracted from the Python AST on every run
(`Generated/ExtractedTST.lean`) are equal to the hand model `FlexModel/Geo/TST.lean` that the C08 theorems
(strict order on a half-window, age computation) are about — for ALL natural timestamps
(`__sub__`: subtrahend below 2^32, see `sub_eq`).
Assumption of the extraction: the right operand is a `TST` (the `isinstance` test is folded).
-/
import FlexModel.Geo.TST
import Generated.ExtractedTST

namespace Props.C08BridgeTST
open FlexModel.Geo Generated.Extracted

private theorem hH : HALF = 2147483648 := rfl
/-- `TST.__gt__` : `(a > b and a - b <= 2**32/2) or (b > a and b - a > 2**32/2)`, for all naturals -/
theorem gt_eq (a b : Nat) : TST_gt a b = TST.gt a b := by
  rw [Bool.eq_iff_iff]
  simp [TST_gt, TST.gt]
  have := hH
  omega
/-- `TST.__eq__` -/
theorem eq_eq (a b : Nat) : TST_eq a b = (a == b) := by
  rw [Bool.eq_iff_iff]; simp [TST_eq]
/-- `TST.__ge__` = `__eq__ or __gt__` -/
theorem ge_eq (a b : Nat) : TST_ge a b = TST.ge a b := by
  rw [Bool.eq_iff_iff]
  simp [TST_ge, TST.ge, TST.gt]
  have := hH
  omega
/-- `TST.__lt__` = `not __ge__` -/
theorem lt_eq (a b : Nat) : TST_lt a b = TST.lt a b := by
  rw [Bool.eq_iff_iff]
  simp [TST_lt, TST.lt, TST.ge, TST.gt]
  have := hH
  omega
/-- `TST.__le__` = `not __gt__` -/
theorem le_eq (a b : Nat) : TST_le a b = TST.le a b := by
  rw [Bool.eq_iff_iff]
  simp [TST_le, TST.le, TST.gt]
  have := hH
  omega
/-- `TST.__sub__` : `r = a - b; if r < 0: r += 2**32` — for timestamps in range (`msec < 2^32`, which `TST.decode`
and the `set_in_normal_timestamp_*` constructors guarantee); outside that range the Python result can stay
negative while the model's natural-number subtraction truncates, hence the hypothesis `b < 2^32` -/
theorem sub_eq (a b : Nat) (hb : b < W) : TST_sub a b = (TST.sub a b : Int) := by
  simp only [TST_sub, TST.sub, W] at *
  split <;> split <;> omega
/-- `TST.__add__` -/
theorem add_eq (a b : Nat) : TST_add a b = (a + b) % W := by
  simp only [TST_add, W]
/-- consequence used by C08: the age computation of the location table (`_age_ms`, repaired code) expressed
with the extracted operators -/
theorem age_eq (now tst : Nat) (ht : tst < W) :
    (if TST_gt tst now = true then (0 : Int) else TST_sub now tst) = (TST.age now tst : Int) := by
  simp only [gt_eq, sub_eq now tst ht, TST.age]
  split <;> simp_all

end Props.C08BridgeTST

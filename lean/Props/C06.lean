/-
C06 — Multi-hop packets: at-most-once delivery and forwarding, shrinking hop budget, CBF cancellation, termination.
Property theorems only.  Model: `FlexModel/Geo/Router.lean` over `FlexModel/Geo/LocT.lean` (both mirror the code after
the repairs fixes/C06-* and fixes/C08-*); helper lemmas: `FlexModel/Geo/RouterLemmas.lean`.

`c.loct.v = {}`, `c.gacFix = true`, `c.cbfFix = true` select the repaired code.  Geometry, PDR gate, greedy outcome and
CBF timeout are arbitrary (`env : Env` is universally quantified everywhere).
-/
import FlexModel.Geo.RouterLemmas
import FlexModel.Geo.NetLemmas

namespace Props.C06
open FlexModel.Geo

/-! ## Duplicate packet list (annex A.2): a ring of the last L accepted sequence numbers -/

/-- for every ring length `L > 0` and every stream of sequence numbers (any values, so also across the 2^16 wrap):
the code's verdicts equal "sn is among the last L accepted sequence numbers" -/
theorem dpl_ring (L : Nat) (hL : 0 < L) (sns : List Nat) : dplImpl L [] sns = dplSpec L [] sns := by
  have := dpl_ring_gen L hL sns []
  simpa [lastN] using this

example : dplImpl 2 [] [65535, 0, 65535, 1, 65535] = [false, false, true, false, false] := by decide

/-! ## One reception (all states, all packets, all opaque inputs) -/

/-- a station never delivers, forwards, buffers or answers a packet bearing its own address (MID) -/
theorem never_own_address (c : RCfg) (s : RSt) (p : Pkt) (env : Env) (now : Nat)
    (h : mid p.so = mid c.loct.self) : recvR c s p env now = (s, []) := by
  unfold recvR
  by_cases h1 : p.rhl > p.mhl
  · simp [h1]
  · simp [h1, recv_dad _ _ _ _ _ _ _ h]

/-- every forwarded copy equals the received packet except for an RHL exactly one lower and, for GUC / LS reply, a DE
position vector that is the strictly newer PV of a neighbour's location table entry; it is only produced for a received
RHL ≥ 2, and its RHL does not exceed the MHL -/
theorem forward_is_copy (c : RCfg) (hg : c.gacFix = true) (s : RSt) (p : Pkt) (env : Env) (now : Nat) (q : Pkt)
    (h : Act.send q ∈ (recvR c s p env now).2) :
    2 ≤ p.rhl ∧ q.rhl + 1 = p.rhl ∧ q.rhl ≤ q.mhl ∧
    (q = { p with rhl := p.rhl - 1 } ∨
      ((p.kind = .guc ∨ p.kind = .lsRep) ∧
        ∃ e, lookup (recvR c s p env now).1.t p.de = some e ∧ e.isNeighbour = true ∧
          TST.gt e.pv.tst p.dePV.tst = true ∧ q = { p with rhl := p.rhl - 1, dePV := e.pv })) := by
  rcases recvR_acts c hg s p env now _ h with ⟨hc, _⟩ | ⟨hok, hle, hrok⟩
  · cases hc
  obtain ⟨h2, hcopy⟩ := hok.1 q rfl
  have ht : (recvR c s p env now).1.t = (recv c.loct s.t p.kind p.so p.soPV p.sn now).1 := by
    rw [recvR_t, if_neg (by omega)]
  rcases hcopy with rfl | ⟨hk, rfl⟩
  · exact ⟨h2, by simp only [fwd]; omega, by simp only [fwd]; omega, Or.inl rfl⟩
  · rcases refreshDE_spec (recv c.loct s.t p.kind p.so p.soPV p.sn now).1 p with hr | ⟨e, h1, h2', h3, hr⟩
    · rw [hr]
      exact ⟨h2, by simp only [fwd]; omega, by simp only [fwd]; omega, Or.inl rfl⟩
    · rw [hr]
      refine ⟨h2, by simp only [fwd]; omega, by simp only [fwd]; omega, Or.inr ⟨hk, e, ?_, h2', h3, rfl⟩⟩
      rw [ht]; exact h1

/-- no copy is emitted, and none is put into the CBF buffer, when the received hop limit is 0 or 1 -/
theorem no_forward_rhl_le_1 (c : RCfg) (hg : c.gacFix = true) (s : RSt) (p : Pkt) (env : Env) (now : Nat)
    (h : p.rhl ≤ 1) : ∀ act ∈ (recvR c s p env now).2, (∀ q, act ≠ .send q) ∧ (∀ k ms, act ≠ .arm k ms) := by
  intro act hact
  rcases recvR_acts c hg s p env now act hact with ⟨hc, _⟩ | ⟨hok, _, _⟩
  · subst hc; exact ⟨fun _ hq => (by cases hq), fun _ _ hq => (by cases hq)⟩
  · refine ⟨fun q hq => ?_, fun k ms hq => ?_⟩
    · have := (hok.1 q hq).1; omega
    · have := (hok.2.1 k ms hq).1; omega

/-- before `C06-gac-rhl-zero`: a GeoAnycast packet received with RHL 0 was re-transmitted with RHL 255 -/
theorem gac_rhl0_old_witness :
    let c : RCfg := { loct := { self := 1, lifetimeMs := 20000, dplLen := 8 }, gacFix := false }
    let p : Pkt := { kind := .gac, rhl := 0, mhl := 10, so := 5, soPV := { time := 1000 }, sn := 3 }
    (recvR c {} p {} 1000).2 = [.send { p with rhl := 255 }] ∧
    (recvR { c with gacFix := true } {} p {} 1000).2 = [] := by decide

/-- a packet is delivered at most once per reception, carries its own identity, and LS packets are never delivered -/
theorem deliver_identity (c : RCfg) (hg : c.gacFix = true) (s : RSt) (p : Pkt) (env : Env) (now : Nat) (k : Kind)
    (so sn : Nat) (h : Act.deliver k so sn ∈ (recvR c s p env now).2) :
    k = p.kind ∧ so = p.so ∧ (p.kind = .shb ∨ sn = p.sn) := by
  rcases recvR_acts c hg s p env now _ h with ⟨hc, _⟩ | ⟨hok, _, _⟩
  · cases hc
  · exact hok.2.2.1 k so sn rfl

/-! ## At most once within the duplicate-detection window (all histories) -/

/-- a multi-hop packet whose sequence number is in the duplicate packet list of its source's live entry causes no
delivery, no transmission and no timer – only (under CBF) the cancellation of the buffered copy -/
theorem duplicate_is_quiet (c : RCfg) (hv : c.loct.v = {}) (hg : c.gacFix = true) (s : RSt) (p : Pkt) (env : Env)
    (now : Nat) (e : Entry) (hu : Uniq s.t) (hm : p.kind.singleHop = false)
    (hlive : keep (fresh c.loct now) (lookup s.t p.so) = some e) (hin : p.sn ∈ e.dpl) :
    ∀ act ∈ (recvR c s p env now).2, act = .cancel (p.so, p.sn) :=
  duplicate_causes_nothing c hv hg s p env now e hu hm hlive hin

/-- whenever a multi-hop packet causes a delivery, a transmission or a CBF timer, the location table accepted it, and
its sequence number is then the newest element of the source's duplicate packet list -/
theorem acted_implies_recorded (c : RCfg) (hv : c.loct.v = {}) (hg : c.gacFix = true) (s : RSt) (p : Pkt) (env : Env)
    (now : Nat) (act : Act) (hu : Uniq s.t) (hm : p.kind.singleHop = false) (hact : act ∈ (recvR c s p env now).2)
    (hne : act ≠ .cancel (p.so, p.sn)) :
    ∀ e', lookup (recvR c s p env now).1.t p.so = some e' → ∃ pre, e'.dpl = pre ++ [p.sn] := by
  rcases recvR_acts c hg s p env now act hact with ⟨hc, _⟩ | ⟨_, hle, hok⟩
  · exact absurd hc hne
  · intro e' h'
    exact accepted_sn_recorded c hv s p env now e' hu hm hle hok h'

/-- ALL HISTORIES.  Start: the entry of `a` lives (PV time in window `B`) and holds `sn` in its duplicate packet list with
`post` newer sequence numbers behind it (`post = []` right after the first acceptance, see `acted_implies_recorded`).
Then for every sequence of receptions (any packets of any sources, any opaque inputs) and CBF timer expiries that
happen not later than `lim ≤ PV time + lifetime` and contain fewer than `L - post.length` multi-hop packets of `a`:
every reception of `(a, sn)` is quiet – it is neither delivered nor forwarded nor buffered again. -/
theorem at_most_once_in_window (c : RCfg) (hv : c.loct.v = {}) (hg : c.gacFix = true) (a : Addr) (sn B lim : Nat)
    (ops : List ROp) (s : RSt) (e : Entry) (pre post : List Nat)
    (hu : Uniq s.t) (hl : lookup s.t a = some e) (hh : e.hasPV = true) (hw : Win B e.pv.time)
    (hlim : lim ≤ e.pv.time + c.loct.lifetimeMs) (hdpl : e.dpl = pre ++ sn :: post)
    (hcnt : post.length + countRx a ops ≤ c.loct.dplLen - 1) (hops : ∀ op ∈ ops, ROpOK a B lim op) :
    AllQuiet a sn ops (rrun c s ops).2 :=
  window_quiet c hv hg a sn B ops s e lim pre post hu hl hh hw hlim hdpl hcnt hops

/-- non-vacuity: TSB (5,7) accepted, another packet of 5, a packet of 6, then two replays of (5,7): only the first
reception delivers and forwards -/
example :
    let c : RCfg := { loct := { self := 1, lifetimeMs := 20000, dplLen := 2 } }
    let p : Pkt := { kind := .tsb, rhl := 3, mhl := 10, so := 5, soPV := { time := 1000 }, sn := 7 }
    ((rrun c {} [.rx p {} 1000, .rx { p with sn := 8 } {} 1100, .rx { p with so := 6 } {} 1200, .rx p {} 1300,
        .rx p {} 1400]).2.map List.length) = [2, 2, 2, 0, 0] := by decide

/-- the known finding C06-KF1 (not repaired): a packet whose SO position vector is older than the LocTE lifetime creates
an entry that is purged within the same reception, so its replay is delivered and forwarded again -/
theorem at_most_once_stale_witness :
    let c : RCfg := { loct := { self := 1, lifetimeMs := 20000, dplLen := 8 } }
    let p : Pkt := { kind := .tsb, rhl := 3, mhl := 10, so := 5, soPV := { time := 1000 }, sn := 7 }
    (rrun c {} [.rx p {} 30000, .rx p {} 30001]).2 =
      [[.send (fwd p), .deliver .tsb 5 7], [.send (fwd p), .deliver .tsb 5 7]] := by decide

/-! ## Contention-based forwarding -/

/-- value of a duplicate GBC reception under CBF while the copy waits in the buffer: it does not mention `env` at all -/
private theorem cbf_dup_value (c : RCfg) (hv : c.loct.v = {}) (hcbf : c.cbf = true)
    (hfix : c.cbfFix = true) (s : RSt) (p : Pkt) (env : Env) (now : Nat) (e : Entry) (hu : Uniq s.t)
    (hk : p.kind = .gbc) (hle : p.rhl ≤ p.mhl) (hd : mid p.so ≠ mid c.loct.self)
    (hlive : keep (fresh c.loct now) (lookup s.t p.so) = some e) (hin : p.sn ∈ e.dpl)
    (hbuf : bufHas s.buf (p.so, p.sn) = true) :
    recvR c s p env now =
      ({ s with t := (recv c.loct s.t p.kind p.so p.soPV p.sn now).1, buf := bufDel s.buf (p.so, p.sn) },
        [.cancel (p.so, p.sn)]) := by
  have hm : p.kind.singleHop = false := by rw [hk]; rfl
  have hres : (recv c.loct s.t p.kind p.so p.soPV p.sn now).2 = .dup := by
    rw [recv_res c.loct hv s.t p.kind p.so p.soPV p.sn now hd hu]
    simp only [selfOutcome, hlive]
    simp [(entryStep_some c.loct hv e p.kind p.soPV p.sn).1.2 ⟨hm, hin⟩]
  have hres' := hres
  rw [hk] at hres'
  unfold recvR
  simp only [if_neg (Nat.not_lt.2 hle), hk, hres', hcbf, hfix, and_self, if_true, cbfDiscard, hbuf]

/-- under CBF a duplicate overheard while the copy waits in the buffer cancels it, and the later timer expiry sends
nothing - for EVERY value of the opaque inputs at the time of the duplicate (`env` is unconstrained: where the station is
relative to the area by then, PAI, PDR, greedy outcome play no role) -/
theorem cbf_duplicate_cancels (c : RCfg) (hv : c.loct.v = {}) (hcbf : c.cbf = true)
    (hfix : c.cbfFix = true) (s : RSt) (p : Pkt) (env : Env) (now : Nat) (e : Entry) (hu : Uniq s.t)
    (hk : p.kind = .gbc) (hle : p.rhl ≤ p.mhl) (hd : mid p.so ≠ mid c.loct.self)
    (hlive : keep (fresh c.loct now) (lookup s.t p.so) = some e) (hin : p.sn ∈ e.dpl)
    (hbuf : bufHas s.buf (p.so, p.sn) = true) :
    (recvR c s p env now).2 = [.cancel (p.so, p.sn)] ∧
    bufHas (recvR c s p env now).1.buf (p.so, p.sn) = false ∧
    (fire (recvR c s p env now).1 (p.so, p.sn)).2 = [] := by
  rw [cbf_dup_value c hv hcbf hfix s p env now e hu hk hle hd hlive hin hbuf]
  refine ⟨rfl, bufHas_del _ _, ?_⟩
  simp only [fire, bufGet_none_of_not_has _ _ (bufHas_del s.buf (p.so, p.sn))]

/-- … and the outcome is literally the same for any two values of the opaque inputs (e.g. station inside the area when the
copy was buffered, outside when the duplicate is overheard) -/
theorem cbf_duplicate_ignores_geometry (c : RCfg) (hv : c.loct.v = {}) (hcbf : c.cbf = true)
    (hfix : c.cbfFix = true) (s : RSt) (p : Pkt) (env env' : Env) (now : Nat) (e : Entry) (hu : Uniq s.t)
    (hk : p.kind = .gbc) (hle : p.rhl ≤ p.mhl) (hd : mid p.so ≠ mid c.loct.self)
    (hlive : keep (fresh c.loct now) (lookup s.t p.so) = some e) (hin : p.sn ∈ e.dpl)
    (hbuf : bufHas s.buf (p.so, p.sn) = true) : recvR c s p env now = recvR c s p env' now := by
  rw [cbf_dup_value c hv hcbf hfix s p env now e hu hk hle hd hlive hin hbuf,
    cbf_dup_value c hv hcbf hfix s p env' now e hu hk hle hd hlive hin hbuf]

/-- the timer of a key that is not (or no longer) in the buffer sends nothing -/
theorem fire_unbuffered_sends_nothing (s : RSt) (k : Key) (h : bufHas s.buf k = false) : fire s k = (s, []) := by
  simp only [fire, bufGet_none_of_not_has _ _ h]

/-- a CBF timer that does fire sends exactly the buffered copy, and `forward_is_copy`-style: the buffered copy of an
armed packet is the received packet with RHL one lower -/
theorem cbf_buffers_copy (c : RCfg) (hg : c.gacFix = true) (s : RSt) (p : Pkt) (env : Env) (now : Nat) (k : Key) (ms : Nat)
    (h : Act.arm k ms ∈ (recvR c s p env now).2) :
    2 ≤ p.rhl ∧ k = (p.so, p.sn) ∧ (fire (recvR c s p env now).1 k).2 = [.send { p with rhl := p.rhl - 1 }] := by
  rcases recvR_acts c hg s p env now _ h with ⟨hc, _⟩ | ⟨hok, _, _⟩
  · cases hc
  obtain ⟨h2, _, _, hk, hb⟩ := hok.2.1 k ms rfl
  refine ⟨h2, hk, ?_⟩
  simp only [fire, hb]; rfl

/-- before `C06-cbf-duplicate-discards`: the duplicate left the buffered copy in place and the timer sent it -/
theorem cbf_old_witness :
    let c : RCfg := { loct := { self := 1, lifetimeMs := 20000, dplLen := 8 }, cbf := true, cbfFix := false }
    let p : Pkt := { kind := .gbc, rhl := 3, mhl := 10, so := 5, soPV := { time := 1000 }, sn := 7 }
    let env : Env := { inside := true }
    (rrun c {} [.rx p env 1000, .rx p env 1010, .fire (5, 7)]).2 =
      [[.arm (5, 7) 0, .deliver .gbc 5 7], [], [.send (fwd p)]] ∧
    (rrun { c with cbfFix := true } {} [.rx p env 1000, .rx p env 1010, .fire (5, 7)]).2 =
      [[.arm (5, 7) 0, .deliver .gbc 5 7], [.cancel (5, 7)], []] := by decide

/-! ## Shrinking hop budget: every causal chain of re-transmissions is finite -/

/-- `q` is a re-transmission caused by the reception of `p` at SOME station in SOME state with SOME opaque inputs:
sent at once, or buffered under CBF and sent when the timer fires -/
def Causes (p q : Pkt) : Prop :=
  ∃ (c : RCfg) (s : RSt) (env : Env) (now : Nat), c.gacFix = true ∧
    (Act.send q ∈ (recvR c s p env now).2 ∨
      ∃ k ms, Act.arm k ms ∈ (recvR c s p env now).2 ∧ (fire (recvR c s p env now).1 k).2 = [.send q])

theorem causes_rhl (p q : Pkt) (h : Causes p q) : 2 ≤ p.rhl ∧ q.rhl + 1 = p.rhl := by
  obtain ⟨c, s, env, now, hg, h | ⟨k, ms, ha, hf⟩⟩ := h
  · obtain ⟨h1, h2, _⟩ := forward_is_copy c hg s p env now q h; exact ⟨h1, h2⟩
  · obtain ⟨h1, _, h3⟩ := cbf_buffers_copy c hg s p env now k ms ha
    rw [h3] at hf
    cases hf
    exact ⟨h1, by simp only []; omega⟩

/-- a causal chain `p₀ → p₁ → … → pₙ` (every element caused by the reception of its predecessor, at whatever stations,
in whatever states, SIMPLE or CBF) -/
def Chain : List Pkt → Prop
  | [] => True
  | [_] => True
  | p :: q :: r => Causes p q ∧ Chain (q :: r)

/-- all configurations, all stations, all schedules: a chain started by a packet with hop limit `rhl₀` contains at most
`rhl₀ - 1` re-transmissions (and none at all for `rhl₀ ≤ 1`); the hop limit falls by exactly one per hop -/
theorem chain_length_bounded : ∀ (l : List Pkt) (p : Pkt), Chain (p :: l) → l.length + 1 ≤ max p.rhl 1 ∧
    ∀ q ∈ l.getLast?, q.rhl + l.length = p.rhl := by
  intro l
  induction l with
  | nil => intro p _; simp; omega
  | cons q r ih =>
    intro p h
    obtain ⟨h1, h2⟩ := h
    obtain ⟨c1, c2⟩ := causes_rhl p q h1
    obtain ⟨i1, i2⟩ := ih q h2
    refine ⟨by simp only [List.length_cons]; omega, ?_⟩
    intro x hx
    cases r with
    | nil => simp at hx; subst hx; simp; omega
    | cons y r' =>
      have := i2 x (by simpa using hx)
      simp only [List.length_cons] at this ⊢
      omega

/-! ## Flood termination in a network of stations (any number, any topology, any schedule) -/

/-- one reception puts at most ONE frame on the medium (RHL one lower) or ONE copy into the CBF buffer, never both -/
theorem one_reception_one_copy (c : RCfg) (hg : c.gacFix = true) (s : RSt) (p : Pkt) (env : Env) (now : Nat) :
    (sends (recvR c s p env now).2 = [] ∨ ∃ q, sends (recvR c s p env now).2 = [q] ∧ q.rhl + 1 = p.rhl) := by
  rcases recvR_effect c hg s p env now with ⟨h, _⟩ | ⟨q, h, hr, _⟩
  · exact Or.inl h
  · exact Or.inr ⟨q, h, hr⟩

/-- every effective operation of the medium (delivery of a frame in flight to the station it is addressed to, loss, CBF timer
expiry) strictly decreases the measure `Σ_air A^(2·rhl) + Σ_buffers A^(2·rhl+1)`, `A = F + 2`, as long as a transmission is
heard by at most `F` stations - for every network, every state, every opaque input -/
theorem flood_step_decreases (F : Nat) (n : Net) (op : NetOp) (hg : ∀ nd ∈ n.nodes, nd.c.gacFix = true)
    (hf : fanout op ≤ F) (he : Effective n op) : (netStep n op).weight (F + 2) < n.weight (F + 2) :=
  net_step_decreases F n op hg hf he

/-- FLOOD TERMINATION: every schedule of effective operations has length at most the initial measure; in particular no
infinite flood exists, whatever the delivery order, duplication by overlapping radio ranges (≤ F hearers), loss, and timer
expiry points, with SIMPLE or CBF forwarding in any mix -/
theorem flood_terminates (F : Nat) (ops : List NetOp) (n : Net) (hg : ∀ nd ∈ n.nodes, nd.c.gacFix = true)
    (h : AllEffective F n ops) : ops.length ≤ n.weight (F + 2) := by
  have := net_run_bound F ops n hg h
  omega

/-- non-vacuity: three stations in a row, a TSB with hop limit 3 from station 0; the schedule below is effective and ends
with an empty medium -/
example :
    let mk (a : Nat) : Node := { c := { loct := { self := a, lifetimeMs := 20000, dplLen := 8 } }, s := {} }
    let p : Pkt := { kind := .tsb, rhl := 3, mhl := 10, so := 100, soPV := { time := 1000 }, sn := 7 }
    let n0 : Net := { nodes := [mk 100, mk 101, mk 102], air := [(1, p)] }
    let ops := [NetOp.deliver 0 {} 1000 [0, 2], .deliver 0 {} 1001 [1], .deliver 0 {} 1002 [1], .deliver 0 {} 1003 [0, 2],
      .deliver 0 {} 1004 [], .deliver 0 {} 1005 []]
    (netRun n0 ops).air = [] ∧ (netRun n0 (ops.take 1)).air.length = 2 := by decide

end Props.C06

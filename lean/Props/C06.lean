/-
C06 — Multi-hop packets: at-most-once delivery and forwarding, shrinking hop budget, CBF cancellation, termination.
Property theorems only.  Model: `FlexModel/Geo/Router.lean` over `FlexModel/Geo/LocT.lean` (both mirror the code after
the repairs fixes/C06-* and fixes/C08-*); helper lemmas: `FlexModel/Geo/RouterLemmas.lean`.

`c.loct.v = {}`, `c.gacFix = true`, `c.cbfFix = true` select the repaired code.  Geometry, PDR gate, greedy outcome and
CBF timeout are arbitrary (`env : Env` is universally quantified everywhere).
-/
import FlexModel.Geo.RouterLemmas
import FlexModel.Geo.NetLemmas
import FlexModel.Geo.NetFlood
import Generated.Mib
import FlexModel.Geo.RouterSecLemmas
import Generated.RouterRx
import FlexModel.Geo.RouterDplConc
import FlexModel.Geo.RouterCbfConc

namespace Props.C06
open FlexModel.Geo

/-! ## Duplicate packet list (annex A.2): a ring of the last L accepted sequence numbers -/

/-- for every ring length `L > 0` and every stream of sequence numbers (any values, so also across the 2^16 wrap):
the code's verdicts equal "sn is among the last L accepted sequence numbers" -/
theorem dpl_ring (L : Nat) (hL : 0 < L) (sns : List Nat) : dplImpl L [] sns = dplSpec L [] sns := by
  have := dpl_ring_gen L hL sns []
  simpa [lastN] using this

example : dplImpl 2 [] [65535, 0, 65535, 1, 65535] = [false, false, true, false, false] := by decide

/-! ## One reception (all states, all packets, all opaque inputs) -/

/-- a station never delivers, forwards, buffers or answers a packet bearing its own address (MID) -/
theorem never_own_address (c : RCfg) (s : RSt) (p : Pkt) (env : Env) (now : Nat)
    (h : mid p.so = mid c.loct.self) : recvR c s p env now = (s, []) := by
  unfold recvR
  by_cases h1 : p.rhl > p.mhl
  · simp [h1]
  · simp [h1, recv_dad _ _ _ _ _ _ _ h]

/-- every forwarded copy equals the received packet except for an RHL exactly one lower and, for GUC / LS reply, a DE
position vector that is the strictly newer PV of a neighbour's location table entry; it is only produced for a received
RHL ≥ 2, and its RHL does not exceed the MHL -/
theorem forward_is_copy (c : RCfg) (hg : c.gacFix = true) (s : RSt) (p : Pkt) (env : Env) (now : Nat) (q : Pkt)
    (h : Act.send q ∈ (recvR c s p env now).2) :
    2 ≤ p.rhl ∧ q.rhl + 1 = p.rhl ∧ q.rhl ≤ q.mhl ∧
    (q = { p with rhl := p.rhl - 1 } ∨
      ((p.kind = .guc ∨ p.kind = .lsRep) ∧
        ∃ e, lookup (recvR c s p env now).1.t p.de = some e ∧ e.isNeighbour = true ∧
          TST.gt e.pv.tst p.dePV.tst = true ∧ q = { p with rhl := p.rhl - 1, dePV := e.pv })) := by
  rcases recvR_acts c hg s p env now _ h with ⟨hc, _⟩ | ⟨hok, hle, hrok⟩
  · cases hc
  obtain ⟨h2, hcopy⟩ := hok.1 q rfl
  have ht : (recvR c s p env now).1.t = (recv c.loct s.t p.kind p.so p.soPV p.sn now).1 := by
    rw [recvR_t_of_send c s p env now q h, recvT, if_neg (by omega)]
  rcases hcopy with rfl | ⟨hk, rfl⟩
  · exact ⟨h2, by simp only [fwd]; omega, by simp only [fwd]; omega, Or.inl rfl⟩
  · rcases refreshDE_spec (recv c.loct s.t p.kind p.so p.soPV p.sn now).1 p with hr | ⟨e, h1, h2', h3, hr⟩
    · rw [hr]
      exact ⟨h2, by simp only [fwd]; omega, by simp only [fwd]; omega, Or.inl rfl⟩
    · rw [hr]
      refine ⟨h2, by simp only [fwd]; omega, by simp only [fwd]; omega, Or.inr ⟨hk, e, ?_, h2', h3, rfl⟩⟩
      rw [ht]; exact h1

/-- no copy is emitted, and none is put into the CBF buffer, when the received hop limit is 0 or 1 -/
theorem no_forward_rhl_le_1 (c : RCfg) (hg : c.gacFix = true) (s : RSt) (p : Pkt) (env : Env) (now : Nat)
    (h : p.rhl ≤ 1) : ∀ act ∈ (recvR c s p env now).2, (∀ q, act ≠ .send q) ∧ (∀ k ms, act ≠ .arm k ms) := by
  intro act hact
  rcases recvR_acts c hg s p env now act hact with ⟨hc, _⟩ | ⟨hok, _, _⟩
  · subst hc; exact ⟨fun _ hq => (by cases hq), fun _ _ hq => (by cases hq)⟩
  · refine ⟨fun q hq => ?_, fun k ms hq => ?_⟩
    · have := (hok.1 q hq).1; omega
    · have := (hok.2.1 k ms hq).1; omega

/-- before `C06-gac-rhl-zero`: a GeoAnycast packet received with RHL 0 was re-transmitted with RHL 255 -/
theorem gac_rhl0_old_witness :
    let c : RCfg := { loct := { self := 1, lifetimeMs := 20000, dplLen := 8 }, gacFix := false }
    let p : Pkt := { kind := .gac, rhl := 0, mhl := 10, so := 5, soPV := { time := 1000 }, sn := 3 }
    (recvR c {} p {} 1000).2 = [.send { p with rhl := 255 }] ∧
    (recvR { c with gacFix := true } {} p {} 1000).2 = [] := by decide

/-- a packet is delivered at most once per reception, carries its own identity, and LS packets are never delivered -/
theorem deliver_identity (c : RCfg) (hg : c.gacFix = true) (s : RSt) (p : Pkt) (env : Env) (now : Nat) (k : Kind)
    (so sn : Nat) (h : Act.deliver k so sn ∈ (recvR c s p env now).2) :
    k = p.kind ∧ so = p.so ∧ (p.kind = .shb ∨ sn = p.sn) := by
  rcases recvR_acts c hg s p env now _ h with ⟨hc, _⟩ | ⟨hok, _, _⟩
  · cases hc
  · exact hok.2.2.1 k so sn rfl

/-! ## At most once within the duplicate-detection window (all histories) -/

/-- a multi-hop packet whose sequence number is in the duplicate packet list of its source's live entry causes no
delivery, no transmission and no timer – only (under CBF) the cancellation of the buffered copy -/
theorem duplicate_is_quiet (c : RCfg) (hv : c.loct.v = {}) (hg : c.gacFix = true) (s : RSt) (p : Pkt) (env : Env)
    (now : Nat) (e : Entry) (hu : Uniq s.t) (hm : p.kind.singleHop = false)
    (hlive : keep (fresh c.loct now) (lookup s.t p.so) = some e) (hin : p.sn ∈ e.dpl) :
    ∀ act ∈ (recvR c s p env now).2, act = .cancel (p.so, p.sn) :=
  duplicate_causes_nothing c hv hg s p env now e hu hm hlive hin

/-- whenever a multi-hop packet causes a delivery, a transmission or a CBF timer (or, for an LS reply at the requester, a
Location Service action), the location table accepted it, and its sequence number is then the newest element of the duplicate
packet list of the source's entry (`hasPV`: the entry proper, not a Location Service placeholder) -/
theorem acted_implies_recorded (c : RCfg) (hv : c.loct.v = {}) (hg : c.gacFix = true) (s : RSt) (p : Pkt) (env : Env)
    (now : Nat) (act : Act) (hu : Uniq s.t) (hm : p.kind.singleHop = false) (hact : act ∈ (recvR c s p env now).2)
    (hne : act ≠ .cancel (p.so, p.sn)) :
    ∀ e', lookup (recvR c s p env now).1.t p.so = some e' → e'.hasPV = true → ∃ pre, e'.dpl = pre ++ [p.sn] := by
  rcases recvR_acts c hg s p env now act hact with ⟨hc, _⟩ | ⟨_, hle, hok⟩
  · exact absurd hc hne
  · intro e' h' hpv
    exact accepted_sn_recorded c hv s p env now e' hu hm hle hok h' hpv

/-- ALL HISTORIES.  Start: the entry of `a` lives (PV time in window `B`) and holds `sn` in its duplicate packet list with
`post` newer sequence numbers behind it (`post = []` right after the first acceptance, see `acted_implies_recorded`).
Then for every sequence of receptions (any packets of any sources, any opaque inputs) and CBF timer expiries that
happen not later than `lim ≤ PV time + lifetime` and contain fewer than `L - post.length` multi-hop packets of `a`:
every reception of `(a, sn)` is quiet – it is neither delivered nor forwarded nor buffered again. -/
theorem at_most_once_in_window (c : RCfg) (hv : c.loct.v = {}) (hg : c.gacFix = true) (a : Addr) (sn B lim : Nat)
    (ops : List ROp) (s : RSt) (e : Entry) (pre post : List Nat)
    (hu : Uniq s.t) (hl : lookup s.t a = some e) (hh : e.hasPV = true) (hw : Win B e.pv.time)
    (hlim : lim ≤ e.pv.time + c.loct.lifetimeMs) (hdpl : e.dpl = pre ++ sn :: post)
    (hcnt : post.length + countRx a ops ≤ c.loct.dplLen - 1) (hops : ∀ op ∈ ops, ROpOK a B lim op) :
    AllQuiet a sn ops (rrun c s ops).2 :=
  window_quiet c hv hg a sn B ops s e lim pre post hu hl hh hw hlim hdpl hcnt hops

/-- non-vacuity: TSB (5,7) accepted, another packet of 5, a packet of 6, then two replays of (5,7): only the first
reception delivers and forwards -/
example :
    let c : RCfg := { loct := { self := 1, lifetimeMs := 20000, dplLen := 2 } }
    let p : Pkt := { kind := .tsb, rhl := 3, mhl := 10, so := 5, soPV := { time := 1000 }, sn := 7 }
    ((rrun c {} [.rx p {} 1000, .rx { p with sn := 8 } {} 1100, .rx { p with so := 6 } {} 1200, .rx p {} 1300,
        .rx p {} 1400]).2.map List.length) = [2, 2, 2, 0, 0] := by decide

/-- the known finding C06-KF1 (not repaired): a packet whose SO position vector is older than the LocTE lifetime creates
an entry that is purged within the same reception, so its replay is delivered and forwarded again -/
theorem at_most_once_stale_witness :
    let c : RCfg := { loct := { self := 1, lifetimeMs := 20000, dplLen := 8 } }
    let p : Pkt := { kind := .tsb, rhl := 3, mhl := 10, so := 5, soPV := { time := 1000 }, sn := 7 }
    (rrun c {} [.rx p {} 30000, .rx p {} 30001]).2 =
      [[.send (fwd p), .deliver .tsb 5 7], [.send (fwd p), .deliver .tsb 5 7]] := by decide

/-! ## Contention-based forwarding -/

/-- value of a duplicate GBC reception under CBF while the copy waits in the buffer: it does not mention `env` at all -/
private theorem cbf_dup_value (c : RCfg) (hv : c.loct.v = {}) (hcbf : c.cbf = true)
    (hfix : c.cbfFix = true) (s : RSt) (p : Pkt) (env : Env) (now : Nat) (e : Entry) (hu : Uniq s.t)
    (hk : p.kind = .gbc) (hle : p.rhl ≤ p.mhl) (hd : mid p.so ≠ mid c.loct.self)
    (hlive : keep (fresh c.loct now) (lookup s.t p.so) = some e) (hin : p.sn ∈ e.dpl)
    (hbuf : bufHas s.buf (p.so, p.sn) = true) :
    recvR c s p env now =
      ({ s with t := (recv c.loct s.t p.kind p.so p.soPV p.sn now).1, buf := bufDel s.buf (p.so, p.sn) },
        [.cancel (p.so, p.sn)]) := by
  have hm : p.kind.singleHop = false := by rw [hk]; rfl
  have hres : (recv c.loct s.t p.kind p.so p.soPV p.sn now).2 = .dup := by
    rw [recv_res c.loct hv s.t p.kind p.so p.soPV p.sn now hd hu]
    simp only [selfOutcome, hlive]
    simp [(entryStep_some c.loct hv e p.kind p.soPV p.sn).1.2 ⟨hm, hin⟩]
  have hres' := hres
  rw [hk] at hres'
  unfold recvR
  simp only [if_neg (Nat.not_lt.2 hle), hk, hres', hcbf, hfix, and_self, if_true, cbfDiscard, hbuf]

/-- under CBF a duplicate overheard while the copy waits in the buffer cancels it, and the later timer expiry sends
nothing - for EVERY value of the opaque inputs at the time of the duplicate (`env` is unconstrained: where the station is
relative to the area by then, PAI, PDR, greedy outcome play no role) -/
theorem cbf_duplicate_cancels (c : RCfg) (hv : c.loct.v = {}) (hcbf : c.cbf = true)
    (hfix : c.cbfFix = true) (s : RSt) (p : Pkt) (env : Env) (now : Nat) (e : Entry) (hu : Uniq s.t)
    (hk : p.kind = .gbc) (hle : p.rhl ≤ p.mhl) (hd : mid p.so ≠ mid c.loct.self)
    (hlive : keep (fresh c.loct now) (lookup s.t p.so) = some e) (hin : p.sn ∈ e.dpl)
    (hbuf : bufHas s.buf (p.so, p.sn) = true) :
    (recvR c s p env now).2 = [.cancel (p.so, p.sn)] ∧
    bufHas (recvR c s p env now).1.buf (p.so, p.sn) = false ∧
    (fire (recvR c s p env now).1 (p.so, p.sn)).2 = [] := by
  rw [cbf_dup_value c hv hcbf hfix s p env now e hu hk hle hd hlive hin hbuf]
  refine ⟨rfl, bufHas_del _ _, ?_⟩
  simp only [fire, bufGet_none_of_not_has _ _ (bufHas_del s.buf (p.so, p.sn))]

/-- … and the outcome is literally the same for any two values of the opaque inputs (e.g. station inside the area when the
copy was buffered, outside when the duplicate is overheard) -/
theorem cbf_duplicate_ignores_geometry (c : RCfg) (hv : c.loct.v = {}) (hcbf : c.cbf = true)
    (hfix : c.cbfFix = true) (s : RSt) (p : Pkt) (env env' : Env) (now : Nat) (e : Entry) (hu : Uniq s.t)
    (hk : p.kind = .gbc) (hle : p.rhl ≤ p.mhl) (hd : mid p.so ≠ mid c.loct.self)
    (hlive : keep (fresh c.loct now) (lookup s.t p.so) = some e) (hin : p.sn ∈ e.dpl)
    (hbuf : bufHas s.buf (p.so, p.sn) = true) : recvR c s p env now = recvR c s p env' now := by
  rw [cbf_dup_value c hv hcbf hfix s p env now e hu hk hle hd hlive hin hbuf,
    cbf_dup_value c hv hcbf hfix s p env' now e hu hk hle hd hlive hin hbuf]

/-- the timer of a key that is not (or no longer) in the buffer sends nothing -/
theorem fire_unbuffered_sends_nothing (s : RSt) (k : Key) (h : bufHas s.buf k = false) : fire s k = (s, []) := by
  simp only [fire, bufGet_none_of_not_has _ _ h]

/-- a CBF timer that does fire sends exactly the buffered copy, and `forward_is_copy`-style: the buffered copy of an
armed packet is the received packet with RHL one lower -/
theorem cbf_buffers_copy (c : RCfg) (hg : c.gacFix = true) (s : RSt) (p : Pkt) (env : Env) (now : Nat) (k : Key) (ms : Nat)
    (h : Act.arm k ms ∈ (recvR c s p env now).2) :
    2 ≤ p.rhl ∧ k = (p.so, p.sn) ∧ (fire (recvR c s p env now).1 k).2 = [.send { p with rhl := p.rhl - 1 }] := by
  rcases recvR_acts c hg s p env now _ h with ⟨hc, _⟩ | ⟨hok, _, _⟩
  · cases hc
  obtain ⟨h2, _, _, hk, hb⟩ := hok.2.1 k ms rfl
  refine ⟨h2, hk, ?_⟩
  simp only [fire, hb]; rfl

/-- before `C06-cbf-duplicate-discards`: the duplicate left the buffered copy in place and the timer sent it -/
theorem cbf_old_witness :
    let c : RCfg := { loct := { self := 1, lifetimeMs := 20000, dplLen := 8 }, cbf := true, cbfFix := false }
    let p : Pkt := { kind := .gbc, rhl := 3, mhl := 10, so := 5, soPV := { time := 1000 }, sn := 7 }
    let env : Env := { inside := true }
    (rrun c {} [.rx p env 1000, .rx p env 1010, .fire (5, 7)]).2 =
      [[.arm (5, 7) 0, .deliver .gbc 5 7], [], [.send (fwd p)]] ∧
    (rrun { c with cbfFix := true } {} [.rx p env 1000, .rx p env 1010, .fire (5, 7)]).2 =
      [[.arm (5, 7) 0, .deliver .gbc 5 7], [.cancel (5, 7)], []] := by decide

/-! ## Shrinking hop budget: every causal chain of re-transmissions is finite -/

/-- `q` is a re-transmission caused by the reception of `p` at SOME station in SOME state with SOME opaque inputs:
sent at once, or buffered under CBF and sent when the timer fires -/
def Causes (p q : Pkt) : Prop :=
  ∃ (c : RCfg) (s : RSt) (env : Env) (now : Nat), c.gacFix = true ∧
    (Act.send q ∈ (recvR c s p env now).2 ∨
      ∃ k ms, Act.arm k ms ∈ (recvR c s p env now).2 ∧ (fire (recvR c s p env now).1 k).2 = [.send q])

theorem causes_rhl (p q : Pkt) (h : Causes p q) : 2 ≤ p.rhl ∧ q.rhl + 1 = p.rhl := by
  obtain ⟨c, s, env, now, hg, h | ⟨k, ms, ha, hf⟩⟩ := h
  · obtain ⟨h1, h2, _⟩ := forward_is_copy c hg s p env now q h; exact ⟨h1, h2⟩
  · obtain ⟨h1, _, h3⟩ := cbf_buffers_copy c hg s p env now k ms ha
    rw [h3] at hf
    cases hf
    exact ⟨h1, by simp only []; omega⟩

/-- a causal chain `p₀ → p₁ → … → pₙ` (every element caused by the reception of its predecessor, at whatever stations,
in whatever states, SIMPLE or CBF) -/
def Chain : List Pkt → Prop
  | [] => True
  | [_] => True
  | p :: q :: r => Causes p q ∧ Chain (q :: r)

/-- all configurations, all stations, all schedules: a chain started by a packet with hop limit `rhl₀` contains at most
`rhl₀ - 1` re-transmissions (and none at all for `rhl₀ ≤ 1`); the hop limit falls by exactly one per hop -/
theorem chain_length_bounded : ∀ (l : List Pkt) (p : Pkt), Chain (p :: l) → l.length + 1 ≤ max p.rhl 1 ∧
    ∀ q ∈ l.getLast?, q.rhl + l.length = p.rhl := by
  intro l
  induction l with
  | nil => intro p _; simp; omega
  | cons q r ih =>
    intro p h
    obtain ⟨h1, h2⟩ := h
    obtain ⟨c1, c2⟩ := causes_rhl p q h1
    obtain ⟨i1, i2⟩ := ih q h2
    refine ⟨by simp only [List.length_cons]; omega, ?_⟩
    intro x hx
    cases r with
    | nil => simp at hx; subst hx; simp; omega
    | cons y r' =>
      have := i2 x (by simpa using hx)
      simp only [List.length_cons] at this ⊢
      omega

/-! ## Flood termination in a network of stations (any number, any topology, any schedule) -/

/-- one reception puts at most ONE frame on the medium (RHL one lower) or ONE copy into the CBF buffer, never both -/
theorem one_reception_one_copy (c : RCfg) (hg : c.gacFix = true) (s : RSt) (p : Pkt) (env : Env) (now : Nat) :
    (sends (recvR c s p env now).2 = [] ∨ ∃ q, sends (recvR c s p env now).2 = [q] ∧ q.rhl + 1 = p.rhl) := by
  rcases recvR_effect c hg s p env now with ⟨h, _⟩ | ⟨q, h, hr, _⟩
  · exact Or.inl h
  · exact Or.inr ⟨q, h, hr⟩

/-- every effective operation of the medium (delivery of a frame in flight to the station it is addressed to, loss, CBF timer
expiry) strictly decreases the measure `Σ_air A^(2·rhl) + Σ_buffers A^(2·rhl+1)`, `A = F + 2`, as long as a transmission is
heard by at most `F` stations - for every network, every state, every opaque input -/
theorem flood_step_decreases (F : Nat) (n : Net) (op : NetOp) (hg : ∀ nd ∈ n.nodes, nd.c.gacFix = true)
    (hf : fanout op ≤ F) (he : Effective n op) : (netStep n op).weight (F + 2) < n.weight (F + 2) :=
  net_step_decreases F n op hg hf he

/-- FLOOD TERMINATION: every schedule of effective operations has length at most the initial measure; in particular no
infinite flood exists, whatever the delivery order, duplication by overlapping radio ranges (≤ F hearers), loss, and timer
expiry points, with SIMPLE or CBF forwarding in any mix -/
theorem flood_terminates (F : Nat) (ops : List NetOp) (n : Net) (hg : ∀ nd ∈ n.nodes, nd.c.gacFix = true)
    (h : AllEffective F n ops) : ops.length ≤ n.weight (F + 2) := by
  have := net_run_bound F ops n hg h
  omega

/-- non-vacuity: three stations in a row, a TSB with hop limit 3 from station 0; the schedule below is effective and ends
with an empty medium -/
example :
    let mk (a : Nat) : Node := { c := { loct := { self := a, lifetimeMs := 20000, dplLen := 8 } }, s := {} }
    let p : Pkt := { kind := .tsb, rhl := 3, mhl := 10, so := 100, soPV := { time := 1000 }, sn := 7 }
    let n0 : Net := { nodes := [mk 100, mk 101, mk 102], air := [(1, p)] }
    let ops := [NetOp.deliver 0 {} 1000 [0, 2], .deliver 0 {} 1001 [1], .deliver 0 {} 1002 [1], .deliver 0 {} 1003 [0, 2],
      .deliver 0 {} 1004 [], .deliver 0 {} 1005 []]
    (netRun n0 ops).air = [] ∧ (netRun n0 (ops.take 1)).air.length = 2 := by decide

/-! ## Location Service reply at the requester (§10.3.7.1.4) -/

/-- an LS reply addressed to this station is neither delivered to the upper layer nor forwarded nor buffered for CBF: its
only effects are Location Service actions for its source (`lsSend`, `origGuc`), and the CBF buffer is left alone - for every
state, every LS state, every outcome of the location table -/
theorem ls_reply_at_requester (c : RCfg) (s : RSt) (p : Pkt) (env : Env) (now : Nat) (hk : p.kind = .lsRep)
    (hme : mid p.de = mid c.loct.self) :
    (∀ act ∈ (recvR c s p env now).2, act = .lsSend p.so ∨ act = .origGuc p.so) ∧ (recvR c s p env now).1.buf = s.buf := by
  unfold recvR
  by_cases h1 : p.rhl > p.mhl
  · simp [h1]
  simp only [h1, if_false]
  cases hr : (recv c.loct s.t p.kind p.so p.soPV p.sn now).2
  case dad => simp
  case dup =>
    simp only []
    have : ¬ (p.kind = .gbc ∧ c.cbf = true ∧ c.cbfFix = true) := by
      intro hx; rw [hk] at hx; cases hx.1
    simp [this]
  case ok =>
    simp only [handle, hk, hme, if_true]
    obtain ⟨h2, h3, _⟩ := lsComplete_spec { s with t := (recv c.loct s.t p.kind p.so p.soPV p.sn now).1 } p.so
    rw [hk] at h2 h3
    exact ⟨h2, h3⟩

/-- the flush of the LS packet buffer is unreachable without a pending Location Service: if no GUC request waits for the
source of the reply, the LS reply at the requester causes no action at all -/
theorem ls_reply_without_pending_request_is_quiet (c : RCfg) (s : RSt) (p : Pkt) (env : Env) (now : Nat)
    (hk : p.kind = .lsRep) (hme : mid p.de = mid c.loct.self) (hno : (lsBufGet s.lsBuf p.so).getD 0 = 0) :
    (recvR c s p env now).2 = [] := by
  unfold recvR
  by_cases h1 : p.rhl > p.mhl
  · simp [h1]
  simp only [h1, if_false]
  cases hr : (recv c.loct s.t p.kind p.so p.soPV p.sn now).2
  case dad => rfl
  case dup =>
    simp only []
    have : ¬ (p.kind = .gbc ∧ c.cbf = true ∧ c.cbfFix = true) := by
      intro hx; rw [hk] at hx; cases hx.1
    simp [this]
  case ok =>
    simp only [handle, hk, hme, if_true]
    exact lsComplete_no_pending _ p.so hno

/-- an accepted LS reply whose source has an entry afterwards (its position vector is not older than the lifetime)
re-submits every waiting GUC request exactly once and closes the Location Service: flag, counter and buffer of the source are
gone, so a later LS reply of the same source flushes nothing (`ls_reply_without_pending_request_is_quiet`) -/
theorem ls_reply_flushes_buffer_once (c : RCfg) (s : RSt) (p : Pkt) (env : Env) (now : Nat) (e : Entry)
    (hk : p.kind = .lsRep) (hme : mid p.de = mid c.loct.self) (hle : p.rhl ≤ p.mhl)
    (hok : (recv c.loct s.t p.kind p.so p.soPV p.sn now).2 = .ok)
    (he : lookup (recv c.loct s.t p.kind p.so p.soPV p.sn now).1 p.so = some e) :
    (recvR c s p env now).2 = List.replicate ((lsBufGet s.lsBuf p.so).getD 0) (.origGuc p.so) ∧
    lookup (recvR c s p env now).1.t p.so = some { e with lsPending := false } ∧
    lsBufGet (recvR c s p env now).1.lsBuf p.so = none ∧ (recvR c s p env now).1.lsCnt.contains p.so = false := by
  have heq : recvR c s p env now =
      lsComplete { s with t := (recv c.loct s.t p.kind p.so p.soPV p.sn now).1 } p.so := by
    unfold recvR
    simp only [if_neg (Nat.not_lt.2 hle), hok]
    simp only [handle, hk, hme, if_true]
  rw [heq]
  exact lsComplete_known _ p.so e he

/-- non-vacuity: the station asks for station 5 twice with a GUC request each (one LS request goes out), a third party's
packet passes, the LS reply of 5 arrives: both requests are re-submitted, the entry of 5 has its flag cleared; a second LS
reply and an exact duplicate of the first cause nothing -/
example :
    let c : RCfg := { loct := { self := 1, lifetimeMs := 20000, dplLen := 4 } }
    let r : Pkt := { kind := .lsRep, rhl := 5, mhl := 10, so := 5, soPV := { time := 1000 }, sn := 3, de := 1 }
    let x := rrun c {} [.lsreq 5 true, .lsreq 5 true, .rx { r with kind := .tsb, so := 6 } {} 1000, .rx r {} 1010,
      .rx { r with sn := 4 } {} 1020, .rx r {} 1030]
    x.2 = [[.lsSend 5], [], [.send (fwd { r with kind := .tsb, so := 6 }), .deliver .tsb 6 3],
      [.origGuc 5, .origGuc 5], [], []] ∧
    (lookup x.1.t 5).map (·.lsPending) = some false ∧ x.1.lsBuf = [] ∧ x.1.lsCnt = [] := by decide

/-! ## One station, all histories: the packet `(a, sn)` is transmitted at most once and delivered at most once -/

/-- configuration well-formedness used by the model: the duplicate packet list has a positive length.  (For length 0 the
code's `deque(maxlen=0)` makes `popleft()` raise on the first multi-hop packet, which the model - `dplPush 0` keeps
appending - does not mirror; `dpl_ring` and the network theorem carry `0 < L`.)  Re-checked against the MIB default of the
source tree on every run. -/
theorem dpl_length_default_wellformed : 0 < Generated.Mib.itsGnDPLLength := by decide

/-- ALL HISTORIES OF ONE STATION (headline form of the property's first sentence).  Start: any state in which `(a, sn)` has
not been seen (`StInit`: unique table keys, `a`'s entry absent or alive until `lim`, no copy of the packet in the CBF buffer,
buffer keyed by packet identity - true of the empty state and of every state reached without `(a, sn)`).  History: ANY
sequence of receptions (fresh packets, exact duplicates, replays, any kinds, any sources, any opaque inputs) and CBF timer
expiries that happen inside the clock window and before `lim`, in which packets of `a` carry position timestamps that keep
`a`'s entry alive until `lim` (`ROpOK2`; without it the known finding C06-KF1 applies), and which contains at most `L - 1`
multi-hop packets of `a` with other sequence numbers (the duplicate packet list window).  Then the station transmits
`(a, sn)` at most once - immediately or later from its CBF buffer - and delivers it to the upper layer at most once; a station
whose own address is `a` does neither. -/
theorem station_at_most_once (c : RCfg) (hv : c.loct.v = {}) (hg : c.gacFix = true) (a : Addr) (sn B lim : Nat)
    (H : List ROp) (s : RSt) (hinit : StInit c a sn B lim s) (hops : ∀ op ∈ H, ROpOK2 c a B lim op)
    (hcnt : countOther a sn H ≤ c.loct.dplLen - 1) :
    txLog a sn (rrun c s H).2 ≤ 1 ∧ dlvLog a sn (rrun c s H).2 ≤ 1 ∧
    (mid a = mid c.loct.self → txLog a sn (rrun c s H).2 = 0 ∧ dlvLog a sn (rrun c s H).2 = 0) :=
  FlexModel.Geo.station_at_most_once c hv hg a sn B lim H s hinit hops hcnt

/-- non-vacuity: from the empty state; TSB (5,7), a beacon of 5, another packet of 5, a packet of 6, a replay of (5,7), the
same identity as GBC, a timer expiry, another replay: one transmission and one delivery of (5,7) in the whole history -/
example :
    let c : RCfg := { loct := { self := 1, lifetimeMs := 20000, dplLen := 2 } }
    let p : Pkt := { kind := .tsb, rhl := 3, mhl := 10, so := 5, soPV := { time := 1000 }, sn := 7 }
    let H := [ROp.rx p {} 1000, .rx { p with kind := .beacon, sn := 0 } {} 1050, .rx { p with sn := 8 } {} 1100,
      .rx { p with so := 6 } {} 1200, .rx p {} 1300, .rx { p with kind := .gbc } { inside := true } 1350, .fire (5, 7),
      .rx p {} 1400]
    StInit c 5 7 0 20000 {} ∧ (∀ op ∈ H, ROpOK2 c 5 0 20000 op) ∧ countOther 5 7 H ≤ c.loct.dplLen - 1 ∧
    txLog 5 7 (rrun c {} H).2 = 1 ∧ dlvLog 5 7 (rrun c {} H).2 = 1 := by decide

/-! ## The network-level count: every station at most once, at most n - 1 re-transmissions, hop budget -/

/-- EVERY STATION, EVERY SCHEDULE.  Network of any number of stations (any configurations running the repaired code, any
start states satisfying `StInit`), broadcast medium with arbitrary delivery order, loss, duplication and arbitrary receiver
sets (= any topology), arbitrary CBF timer expiry points, SIMPLE and CBF in any mix, any other traffic in the air.  Under
`FloodHyp` (decidable; at every station: `a`'s location table entry stays alive until `lim`, fewer than `itsGnDPLLength`
multi-hop packets of `a` with other sequence numbers are received) every station re-transmits the packet `(a, sn)` at most
once - immediately or from its CBF buffer - and delivers it to the upper layer at most once; a station whose own address
is `a` does neither. -/
theorem flood_station_at_most_once (a : Addr) (sn B lim : Nat) (n : Net) (ops : List NetOp)
    (h : FloodHyp a sn B lim n ops) (i : Nat) (nd : Node) (hnd : n.nodes[i]? = some nd) :
    txCount a sn i (netTrace n ops) ≤ 1 ∧ dlvCount a sn i (netTrace n ops) ≤ 1 ∧
    (mid a = mid nd.c.loct.self → txCount a sn i (netTrace n ops) = 0 ∧ dlvCount a sn i (netTrace n ops) = 0) :=
  flood_station_bound a sn B lim n ops h i nd hnd

/-- THE NETWORK-LEVEL THEOREM.  A multi-hop packet `(a, sn)` originated with hop limit `h` by station `o` (every copy of it
in flight at the start is the originator's transmission: RHL `h`, no hop made) in a network of `n` stations: for EVERY
schedule `ops` satisfying `FloodHyp`
* every station re-transmits it at most once and delivers it at most once,
* the originator never re-transmits or delivers it,
* the whole flood consists of at most `n` transmissions (the origination and at most `n - 1` re-transmissions),
* every copy in flight carries RHL = `h` minus the number of hops it made (ghost counter of `HNet`). -/
theorem network_flood_at_most_once (a : Addr) (sn B lim h : Nat) (x : HNet) (ops : List NetOp) (o : Nat) (ndo : Node)
    (hyp : FloodHyp a sn B lim x.toNet ops)
    (ho : x.nodes[o]? = some ndo) (hself : mid a = mid ndo.c.loct.self)
    (horig : ∀ f ∈ x.air, f.2.1.so = a → f.2.1.sn = sn → f.2.1.rhl = h ∧ f.2.2 = 0) :
    (∀ i nd, x.nodes[i]? = some nd →
      txCount a sn i (netTrace x.toNet ops) ≤ 1 ∧ dlvCount a sn i (netTrace x.toNet ops) ≤ 1) ∧
    (txCount a sn o (netTrace x.toNet ops) = 0 ∧ dlvCount a sn o (netTrace x.toNet ops) = 0) ∧
    totalTx a sn (netTrace x.toNet ops) + 1 ≤ x.nodes.length ∧
    (∀ f ∈ (netRunH x ops).air, f.2.1.so = a → f.2.1.sn = sn → f.2.1.rhl + f.2.2 = h) := by
  refine ⟨fun i nd hnd => ?_, ?_, ?_, ?_⟩
  · have := flood_station_bound a sn B lim x.toNet ops hyp i nd hnd
    exact ⟨this.1, this.2.1⟩
  · exact (flood_station_bound a sn B lim x.toNet ops hyp o ndo ho).2.2 hself
  · exact flood_total_bound a sn B lim x.toNet ops hyp o ndo ho hself
  · exact (hopInv_run a sn h ops x (floodHyp_gacFix a sn B lim x.toNet ops hyp)
      (hopInv_origin a sn h x horig (floodHyp_no_buffered a sn B lim x.toNet ops hyp))).1

/-- the hop budget alone needs no window hypothesis: in every network running the repaired code, along every schedule,
every copy of `(a, sn)` in flight or in a CBF buffer carries RHL = `h` minus the hops it made -/
theorem flood_hop_budget (a : Addr) (sn h : Nat) (x : HNet) (ops : List NetOp)
    (hg : ∀ nd ∈ x.nodes, nd.c.gacFix = true) (h0 : HopInv a sn h x) : HopInv a sn h (netRunH x ops) :=
  hopInv_run a sn h ops x hg h0

/-- … combined with `flood_terminates`: every schedule of effective medium operations is finite (at most `weight` operations,
then the medium is silent and no timer is pending), and however long it is, it contains at most `n - 1` re-transmissions
of the flood -/
theorem flood_ends_within_n_transmissions (F : Nat) (a : Addr) (sn B lim : Nat) (n : Net) (ops : List NetOp) (o : Nat)
    (ndo : Node) (hyp : FloodHyp a sn B lim n ops) (ho : n.nodes[o]? = some ndo) (hself : mid a = mid ndo.c.loct.self)
    (heff : AllEffective F n ops) :
    ops.length ≤ n.weight (F + 2) ∧ totalTx a sn (netTrace n ops) + 1 ≤ n.nodes.length := by
  have h1 := net_run_bound F ops n (floodHyp_gacFix a sn B lim n ops hyp) heff
  exact ⟨by omega, flood_total_bound a sn B lim n ops hyp o ndo ho hself⟩

/-- non-vacuity, SIMPLE forwarding: three stations in a row (0 - 1 - 2), TSB with hop limit 3 from station 0.  The
hypotheses hold, the medium ends empty, stations 1 and 2 re-transmit once each (the bound n - 1 = 2 is attained), every
station but the originator delivers once, and the originator hears its own packet back without reacting -/
example :
    let mk (a : Nat) : Node := { c := { loct := { self := a, lifetimeMs := 20000, dplLen := 8 } }, s := {} }
    let p : Pkt := { kind := .tsb, rhl := 3, mhl := 10, so := 100, soPV := { time := 1000 }, sn := 7 }
    let x : HNet := { nodes := [mk 100, mk 101, mk 102], air := [(1, p, 0)] }
    let ops := [NetOp.deliver 0 {} 1000 [0, 2], .deliver 0 {} 1001 [1], .deliver 0 {} 1002 [1], .deliver 0 {} 1003 [0, 2],
      .deliver 0 {} 1004 [], .deliver 0 {} 1005 []]
    let tr := netTrace x.toNet ops
    floodHypB 100 7 0 20000 x.toNet ops = true ∧ (netRunH x ops).air = [] ∧
    [0, 1, 2].map (fun i => txCount 100 7 i tr) = [0, 1, 1] ∧ [0, 1, 2].map (fun i => dlvCount 100 7 i tr) = [0, 1, 1] ∧
    totalTx 100 7 tr + 1 = 3 ∧ ((netRunH x (ops.take 1)).air.map (fun f => (f.2.1.rhl, f.2.2))) = [(2, 1), (2, 1)] ∧
    ((netRunH x (ops.take 3)).air.map (fun f => (f.2.1.rhl, f.2.2))) = [(1, 2)] := by
  decide

/-- non-vacuity, CBF: four stations in a ring (0 - 1 - 2 - 3 - 0), GBC with hop limit 4 from station 0, every station inside
the area.  Stations 1 and 3 buffer a copy, their timers fire, station 2 buffers the copy heard from 1, its timer fires
before the copy of 3 arrives (a duplicate: quiet).  Hypotheses hold, n - 1 = 3 re-transmissions, medium and buffers end
empty -/
example :
    let mk (a : Nat) : Node := { c := { loct := { self := a, lifetimeMs := 20000, dplLen := 2 }, cbf := true }, s := {} }
    let p : Pkt := { kind := .gbc, rhl := 4, mhl := 10, so := 100, soPV := { time := 1000 }, sn := 65535 }
    let e : Env := { inside := true, cbfMs := 50 }
    let x : HNet := { nodes := [mk 100, mk 101, mk 102, mk 103], air := [(1, p, 0), (3, p, 0)] }
    let ops := [NetOp.deliver 0 e 1000 [0, 2], .deliver 0 e 1000 [0, 2], .fire 1 (100, 65535) [0, 2],
      .fire 3 (100, 65535) [0, 2], .deliver 1 e 1010 [1, 3], .fire 2 (100, 65535) [1, 3], .deliver 0 e 1011 [],
      .deliver 0 e 1012 [], .deliver 0 e 1013 [], .deliver 0 e 1014 [], .deliver 0 e 1015 [], .fire 2 (100, 65535) [1, 3]]
    let tr := netTrace x.toNet ops
    floodHypB 100 65535 0 20000 x.toNet ops = true ∧ (netRunH x ops).air = [] ∧
    (netRunH x ops).nodes.all (fun nd => nd.s.buf.isEmpty) = true ∧
    [0, 1, 2, 3].map (fun i => txCount 100 65535 i tr) = [0, 1, 1, 1] ∧
    [0, 1, 2, 3].map (fun i => dlvCount 100 65535 i tr) = [0, 1, 1, 1] ∧ totalTx 100 65535 tr + 1 = 4 := by
  decide

/-! ## Wire level (Round 4): secured and unsecured packets, the per-thread receive context, fault points

`FlexModel/Geo/RouterSec.lean`: a frame arrives with Basic Header NH = Common Header or Secured Packet; a secured one is
verified (opaque outcome), its secured message is put into the receive context of the thread for the duration of the
dispatch, `_forward_pdu` emits `Basic Header(NH = secured, RHL - 1) + received secured message` under a context and the
re-assembled PDU otherwise; the dispatch may be left by an exception (hop-limit check, raising indication callback). -/

/-- the structural facts of the SOURCE TREE the wire-level model rests on, re-read on every run (`harness/gen_router.py`):
the context is a `threading.local` created in `__init__`; in `process_security_header` the secured message is assigned
immediately before a `try` that holds the dispatch and whose `finally` resets the context; nothing else writes it, only
`_forward_pdu` reads it, and `_forward_pdu` is called by the forwarders of the receive path only (no source operation) -/
theorem rx_context_discipline_of_source :
    Generated.RouterRx.ctxResetInFinally = true ∧ Generated.RouterRx.ctxThreadLocal = true ∧
    Generated.RouterRx.ctxWriters = ["process_security_header"] ∧ Generated.RouterRx.ctxReaders = ["_forward_pdu"] ∧
    Generated.RouterRx.forwardPduCallers.all (fun f =>
      ["gn_area_cbf_forwarding", "gn_data_forward_gbc", "gn_data_indicate_guc", "gn_data_indicate_gac",
        "gn_data_indicate_ls_request", "gn_data_indicate_ls_reply", "gn_data_indicate_tsb"].contains f) = true := by
  decide

/-- the wire-level configuration the source tree implements: whether the context is reset on every exit of the dispatch is
the regenerated fact -/
def codeCfg (c : RCfg) (hasVerify secEnabled : Bool) : WCfg :=
  { c := c, hasVerify := hasVerify, secEnabled := secEnabled, ctxFinally := Generated.RouterRx.ctxResetInFinally }

theorem codeCfg_finally (c : RCfg) (hv en : Bool) : (codeCfg c hv en).ctxFinally = true := by
  simp only [codeCfg]; decide

/-- ONE RECEPTION, secured or not, any verification outcome, any fault: when the receiving thread holds no stale secured
message, every frame a forwarder hands to the link layer is an admissible copy of the RECEIVED FRAME (`WCopy`): for a packet
received secured exactly `Basic Header(NH = Secured Packet, RHL - 1) + the received secured message` - envelope, signed
headers and payload untouched, no DE refresh; for an unsecured packet the re-assembled packet with RHL - 1 (DE position
vector possibly refreshed as in `forward_is_copy`); only for a received RHL ≥ 2, and RHL - 1 ≤ MHL -/
theorem wire_forward_is_copy (w : WCfg) (hg : w.c.gacFix = true) (s : WSt) (x : Rx) (env : Env) (now : Nat)
    (hctx : s.ctx x.thr = none) (g : WFrame) (h : g ∈ sentW w s x env now) :
    WCopy (recvW w s x env now).1.r.t x g := by
  cases hp : Processed w x
  · rw [sentW_not_processed w s x env now hp] at h; cases h
  obtain ⟨h1, h2, h3, _⟩ := recvW_processed w s x env now hp
  simp only [sentW, h1, h3] at h
  obtain ⟨q, hq, rfl⟩ := mem_wsent.1 h
  obtain ⟨a1, a2, a3, a4⟩ := forward_is_copy w.c hg s.r x.p env now q hq
  rw [h2]
  have hm : q.mhl = x.p.mhl := by
    rcases a4 with rfl | ⟨_, e, _, _, _, rfl⟩ <;> rfl
  refine ⟨a1, by omega, ?_⟩
  cases hs : x.sec
  · simp only [Bool.false_eq_true, if_false, hctx, forwardPdu]
    rcases a4 with rfl | ⟨hk, e, he, hn, ht, rfl⟩
    · exact Or.inl rfl
    · exact Or.inr ⟨hk, e, he, hn, ht, rfl⟩
  · have : q.rhl = x.p.rhl - 1 := by omega
    simp only [if_true, forwardPdu, this]

/-- a frame that is not handed to the handlers (unsecured at a station with itsGnSecurity ENABLED; secured without a verify
service or with a failed verification) causes no action, no transmission and no state change -/
theorem gated_frame_is_quiet (w : WCfg) (s : WSt) (x : Rx) (env : Env) (now : Nat) (h : Processed w x = false) :
    recvW w s x env now = (s, [], none) ∧ sentW w s x env now = [] :=
  ⟨recvW_not_processed w s x env now h, sentW_not_processed w s x env now h⟩

/-- ALL HISTORIES, ALL FAULT POINTS: with the reset in the `finally`, no receive thread ever holds a secured message between
two receptions - whatever mix of secured / unsecured frames, verification outcomes, hop-limit failures and raising
indication callbacks on whatever threads, timer expiries and Location Service requests the station went through -/
theorem rx_context_clear_after_every_history (w : WCfg) (hf : w.ctxFinally = true) (ops : List WOp) (s : WSt)
    (h : CtxClear s) : CtxClear (wrun w s ops).1 :=
  wrun_ctx_clear w hf ops s h

/-- every frame sent during every reception of the history is an admissible copy of the frame received in THAT reception -/
def HistCopies (w : WCfg) : WSt → List WOp → Prop
  | _, [] => True
  | s, op :: r =>
    (match op with
      | .rx x env now => ∀ g ∈ sentW w s x env now, WCopy (recvW w s x env now).1.r.t x g
      | _ => True) ∧ HistCopies w (wstep w s op).1 r

/-- ALL HISTORIES: from a state with clear receive contexts, along every sequence of receptions (secured and unsecured
mixed, every verification outcome, processing aborted after verification by the hop-limit check or by a raising callback,
any threads), CBF timer expiries and Location Service requests, every forwarded frame is an admissible copy of the frame
whose reception caused it - in particular an unsecured packet received after an aborted secured one is forwarded as
itself, never behind the previous packet's secured message -/
theorem wire_history_forward_is_copy (w : WCfg) (hg : w.c.gacFix = true) (hf : w.ctxFinally = true) :
    ∀ (ops : List WOp) (s : WSt), CtxClear s → HistCopies w s ops := by
  intro ops
  induction ops with
  | nil => intro _ _; trivial
  | cons op r ih =>
    intro s h
    refine ⟨?_, ih _ (wstep_ctx_clear w hf s op h)⟩
    cases op with
    | rx x env now => exact fun g hgm => wire_forward_is_copy w hg s x env now (h x.thr) g hgm
    | fire k => trivial
    | lsreq a req => trivial

/-- … instantiated at the source tree: the hypothesis about the `finally` is discharged by the regenerated fact -/
theorem code_history_forward_is_copy (c : RCfg) (hg : c.gacFix = true) (hv en : Bool) (ops : List WOp) (s : WSt)
    (h : CtxClear s) : HistCopies (codeCfg c hv en) s ops :=
  wire_history_forward_is_copy (codeCfg c hv en) hg (codeCfg_finally c hv en) ops s h

/-- CBF on the wire: the PDU put into the buffer when a reception arms a timer is the admissible copy of the received frame
(secured: received secured message behind `Basic Header(NH = secured, RHL - 1)`), it survives every later operation that
leaves the key in the buffer (other receptions on any thread - secured or not, aborted or not -, other timers, Location
Service requests), and the timer expiry sends exactly it -/
theorem cbf_buffers_wire_copy (w : WCfg) (hg : w.c.gacFix = true) (s : WSt) (x : Rx) (env : Env) (now : Nat)
    (hctx : s.ctx x.thr = none) (k : Key) (ms : Nat) (h : Act.arm k ms ∈ (recvW w s x env now).2.1)
    (mid : List WOp) (hstay : StaysBuffered w k (recvW w s x env now).1 mid) :
    2 ≤ x.p.rhl ∧ k = (x.p.so, x.p.sn) ∧
    (fireW (wrun w (recvW w s x env now).1 mid).1 k).2 =
      [if x.sec then .secured (x.p.rhl - 1) x.m else .plain { x.p with rhl := x.p.rhl - 1 }] := by
  cases hp : Processed w x
  · rw [recvW_not_processed w s x env now hp] at h; cases h
  obtain ⟨h1, h2, h3, h4⟩ := recvW_processed w s x env now hp
  rw [h1] at h
  rcases recvR_acts w.c hg s.r x.p env now _ h with ⟨hc, _⟩ | ⟨hok, _, _⟩
  · cases hc
  obtain ⟨b1, _, _, hk, hb⟩ := hok.2.1 k ms rfl
  have harm : (arms (recvR w.c s.r x.p env now).2).contains k = true := by
    simp only [List.contains_iff_mem]
    exact mem_arms.2 ⟨ms, h⟩
  have hw : wbufGet (recvW w s x env now).1.wbuf k =
      some (if x.sec then .secured (x.p.rhl - 1) x.m else .plain { x.p with rhl := x.p.rhl - 1 }) := by
    rw [h4, wbufGet_sync, hb, harm]
    cases hs : x.sec
    · simp only [Bool.false_eq_true, if_false, hctx, forwardPdu, Option.map_some, if_true]; rfl
    · simp only [if_true, forwardPdu, Option.map_some]; rfl
  obtain ⟨k1, k2⟩ := wrun_keeps w hg k _ mid _ hw hstay
  obtain ⟨q, hq⟩ := bufHas_get _ _ k2
  refine ⟨b1, hk, ?_⟩
  simp only [fireW, hq, k1, Option.getD_some]

/-- WITNESS (seeded change C06-m6, `ctxFinally = false`: the reset is straight-line code after the dispatch).  A secured TSB
whose processing is aborted after verification (RHL 5 > MHL 3: `DecapError`; or accepted, forwarded, and the indication
callback raises) leaves its secured message (identity 77) in the context; the next UNSECURED TSB (RHL 4) on the same thread
is then "forwarded" as `Basic Header(NH = secured, RHL 3) + secured message 77`.  With the `finally` it is forwarded as
itself with RHL 3; so is a packet on another thread even without it. -/
theorem rx_context_stale_witness :
    let c : RCfg := { loct := { self := 1, lifetimeMs := 20000, dplLen := 8 } }
    let p1 : Pkt := { kind := .tsb, rhl := 5, mhl := 3, so := 5, soPV := { time := 1000 }, sn := 1 }
    let p2 : Pkt := { kind := .tsb, rhl := 4, mhl := 10, so := 6, soPV := { time := 1000 }, sn := 2 }
    let bad : WCfg := { c := c, hasVerify := true, ctxFinally := false }
    let good : WCfg := { c := c, hasVerify := true }
    let h1 := [WOp.rx { sec := true, m := 77, p := p1 } {} 1000, .rx { p := p2 } {} 1010]
    let h2 := [WOp.rx { sec := true, m := 77, p := { p1 with mhl := 10 }, cbRaises := true } {} 1000, .rx { p := p2 } {} 1010]
    let h3 := [WOp.rx { sec := true, m := 77, p := p1 } {} 1000, .rx { thr := 1, p := p2 } {} 1010]
    (wrun bad {} h1).2 = [[], [.secured 3 77]] ∧ (wrun good {} h1).2 = [[], [.plain (fwd p2)]] ∧
    (wrun bad {} h2).2 = [[.secured 4 77], [.secured 3 77]] ∧ (wrun good {} h2).2 = [[.secured 4 77], [.plain (fwd p2)]] ∧
    (wrun bad {} h3).2 = [[], [.plain (fwd p2)]] := by
  decide

/-- non-vacuity of `wire_history_forward_is_copy` / `cbf_buffers_wire_copy`: CBF station with a verify service; a secured GBC
(message 9) is buffered and its indication callback raises, an unsecured TSB passes, a secured GUC with a failed
verification is ignored, a secured TSB is forwarded with its envelope, then the timer fires: it sends the secured GBC with
RHL 2 behind its own envelope -/
example :
    let c : RCfg := { loct := { self := 1, lifetimeMs := 20000, dplLen := 8 }, cbf := true }
    let w : WCfg := { c := c, hasVerify := true }
    let g : Pkt := { kind := .gbc, rhl := 3, mhl := 10, so := 5, soPV := { time := 1000 }, sn := 7 }
    let t : Pkt := { kind := .tsb, rhl := 4, mhl := 10, so := 6, soPV := { time := 1000 }, sn := 2 }
    let ops := [WOp.rx { sec := true, m := 9, p := g, cbRaises := true } { inside := true } 1000, .rx { p := t } {} 1010,
      .rx { sec := true, m := 10, vok := false, p := { t with kind := .guc, sn := 3 } } {} 1020,
      .rx { sec := true, m := 11, p := { t with sn := 4 } } {} 1030, .fire (5, 7)]
    (wrun w {} ops).2 = [[], [.plain (fwd t)], [], [.secured 3 11], [.secured 2 9]] ∧
    StaysBuffered w (5, 7) (recvW w {} { sec := true, m := 9, p := g, cbRaises := true } { inside := true } 1000).1
      ((ops.drop 1).take 3) := by
  decide

/-! ## Round 5: the CBF copy is assembled on the RECEIVE path; two receive threads and the duplicate packet list -/

/-- LATE ASSEMBLY LOSES THE ENVELOPE (why `_forward_pdu` must be called by the forwarders of the receive path only - the last
conjunct of `rx_context_discipline_of_source`, which seeded change C06-m8 breaks by calling it from `_cbf_timeout`): after ANY
history every receive context is clear (`rx_context_clear_after_every_history`), and the timer thread never had one; so a PDU
assembled at timer expiry is always the re-assembled plain packet, on whatever thread the timer runs -/
theorem late_assembly_strips_envelope (w : WCfg) (hf : w.ctxFinally = true) (ops : List WOp) (s : WSt) (h : CtxClear s)
    (tthr : Nat) (k : Key) : ∀ g ∈ fireLate (wrun w s ops).1 tthr k, ∃ q, g = .plain q := by
  intro g hg
  have hc := wrun_ctx_clear w hf ops s h tthr
  simp only [fireLate] at hg
  split at hg
  · simp only [hc, forwardPdu, List.mem_singleton] at hg; exact ⟨_, hg⟩
  · cases hg

/-- … hence for a packet received SECURED the late assembly never sends the admissible copy: under the hypotheses of
`cbf_buffers_wire_copy` the stored PDU (what the repaired code sends) is `Basic Header(NH = secured, RHL - 1) + the received
secured message`, what late assembly sends is not -/
theorem late_assembly_is_not_the_copy (w : WCfg) (hg : w.c.gacFix = true) (hf : w.ctxFinally = true) (s : WSt) (hs : CtxClear s)
    (x : Rx) (hsec : x.sec = true) (env : Env) (now : Nat) (k : Key) (ms : Nat)
    (h : Act.arm k ms ∈ (recvW w s x env now).2.1) (mid : List WOp) (hstay : StaysBuffered w k (recvW w s x env now).1 mid)
    (tthr : Nat) :
    (fireW (wrun w (recvW w s x env now).1 mid).1 k).2 = [.secured (x.p.rhl - 1) x.m] ∧
    fireLate (wrun w (recvW w s x env now).1 mid).1 tthr k ≠ [.secured (x.p.rhl - 1) x.m] := by
  obtain ⟨_, _, h3⟩ := cbf_buffers_wire_copy w hg s x env now (hs x.thr) k ms h mid hstay
  simp only [hsec, if_true] at h3
  refine ⟨h3, ?_⟩
  intro heq
  have hc : CtxClear (recvW w s x env now).1 := by
    have := wstep_ctx_clear w hf s (.rx x env now) hs
    simpa only [wstep] using this
  obtain ⟨q, hq⟩ := late_assembly_strips_envelope w hf mid _ hc tthr k (.secured (x.p.rhl - 1) x.m) (by rw [heq]; simp)
  cases hq

/-- WITNESS (seeded change C06-m8): CBF station with a verify service, a secured GBC (message 9, RHL 3) is buffered; at expiry
the stored PDU is the secured message behind RHL 2, the late assembly on the timer thread (99) yields the stripped packet -/
theorem cbf_late_assembly_witness :
    let c : RCfg := { loct := { self := 1, lifetimeMs := 20000, dplLen := 8 }, cbf := true }
    let w : WCfg := { c := c, hasVerify := true }
    let g : Pkt := { kind := .gbc, rhl := 3, mhl := 10, so := 5, soPV := { time := 1000 }, sn := 7 }
    let s := (wrun w {} [WOp.rx { sec := true, m := 9, p := g } { inside := true } 1000]).1
    (fireW s (5, 7)).2 = [.secured 2 9] ∧ fireLate s 99 (5, 7) = [.plain (fwd g)] ∧ fireLate s 0 (5, 7) = [.plain (fwd g)] := by
  decide

section TwoThreads
open FlexModel.Geo.LocTConc FlexModel.Geo.RouterDplConc

/-- regenerated from the SOURCE (harness/gen_locks.py → `Generated.Locks.shape`): `LocationTable.refresh_table` is exactly ONE
`loc_t_lock` section touching `loc_t` - snapshot, ageing and replacement of the table are one atomic block for every other
receive thread (seeded change C06-m9 splits it: the obligation no longer checks) -/
theorem refresh_table_is_one_section : refreshIsOneSection = true := by decide

/-- TWO (or more) RECEIVE THREADS, EVERY SCHEDULE of `loc_t_lock` sections: thread B's section for the first copy of the
multi-hop packet `(a, sn)` runs on whatever table `s1` the other threads left (C08 invariants only, `(a, sn)` not recorded
yet); then ANY blocks of other threads (`e2`: purges at clocks ≤ `lim` ≤ PV time + lifetime, receptions of other sources or of
`(a, sn)` itself, Location Service placeholders), B's closing purge, ANY further such blocks (`e3`).  Whatever the schedule,
a later copy of `(a, sn)` - any multi-hop kind, any position vector, any thread - finds `sn` in `a`'s duplicate list: `dup`,
table unchanged (and then `duplicate_is_quiet`: nothing delivered, nothing forwarded).  Rests on `refresh_table` being one
block (`Blk.refresh`); the source's shape is `refresh_table_is_one_section`. -/
theorem concurrent_duplicate_is_suppressed (c : Cfg) (hv : c.v = {}) (k : Kind) (hk : k.singleHop = false) (a : Addr) (p : PV)
    (sn now B lim : Nat) (hp : Win B p.time) (hlim : lim ≤ p.time + c.lifetimeMs) (hnow : Win B now) (hnl : now ≤ lim)
    (s1 : CS) (hu : Uniq s1.t) (hi : SrcInv a B s1.t)
    (hnew : lookup s1.t a = none ∨ ∃ e, lookup s1.t a = some e ∧ sn ∉ e.dpl)
    (e2 e3 : List Blk) (h2 : ∀ b ∈ e2, EnvQ a sn B lim b) (h3 : ∀ b ∈ e3, EnvQ a sn B lim b)
    (k' : Kind) (hk' : k'.singleHop = false) (q : PV) :
    core c (crun c s1 (.core k a p sn :: (e2 ++ .refresh now :: e3))).t k' a q sn =
      ((crun c s1 (.core k a p sn :: (e2 ++ .refresh now :: e3))).t, .dup) :=
  later_copy_is_duplicate c hv a sn B p _
    (recorded_after_core c hv k hk a p sn now B lim hp hlim hnow hnl s1 hu hi hnew e2 e3 h2 h3) k' hk' q

/-- non-vacuity: empty table, TSB (5, 100) on thread B; meanwhile another thread purges, receives a GBC of station 6 and a
concurrent copy of (5, 100), and a Location Service placeholder for 7 is created; hypotheses hold, the later GBC-shaped copy
of (5, 100) is a duplicate -/
example :
    let c : Cfg := { self := 1, lifetimeMs := 20000, dplLen := 2 }
    let e2 : List Blk := [.refresh 1200, .core .gbc 6 { time := 900 } 3, .core .tsb 5 { time := 1000 } 100]
    let e3 : List Blk := [.ensure 7, .refresh 21000]
    (core c (crun c {} (.core .tsb 5 { time := 1000 } 100 :: (e2 ++ .refresh 1100 :: e3))).t .gbc 5 { time := 1000 } 100).2 = .dup := by
  intro c e2 e3
  have := concurrent_duplicate_is_suppressed c rfl .tsb rfl 5 { time := 1000 } 100 1100 0 21000
    (by simp [Win, HALF]) (by decide) (by simp [Win, HALF]) (by decide) {} trivial (by intro e he; cases he) (Or.inl rfl)
    e2 e3 (by intro b hb; simp only [e2, List.mem_cons, List.mem_nil_iff, or_false] at hb
              rcases hb with rfl | rfl | rfl <;> simp [EnvQ, Win, HALF, Kind.singleHop])
    (by intro b hb; simp only [e3, List.mem_cons, List.mem_nil_iff, or_false] at hb
        rcases hb with rfl | rfl <;> simp [EnvQ, Win, HALF])
    .gbc rfl { time := 1000 }
  rw [this]

/-- WITNESS (seeded change C06-m9: `refresh_table` = snapshot under the lock / ageing outside / store under the lock).  Thread
A (any reception: its opening purge) takes the snapshot of the empty table, thread B receives TSB (5, 100) completely
(purge, section, purge), A stores its filtered snapshot: station 5's entry and its duplicate list are gone, and the exact
duplicate of (5, 100) is accepted a second time.  With the one-section shape the same schedule ends with the entry in place
and the duplicate is `dup`; without anything in between the split shape equals `refresh_table` (`split_sequential`: the
single-threaded suite cannot see it). -/
theorem split_refresh_loses_dpl_witness :
    let c : Cfg := { self := 1, lifetimeMs := 20000, dplLen := 8 }
    let p : PV := { time := 1000 }
    let rxB : List SBlk := [.std (.refresh 1000), .std (.core .tsb 5 p 100), .std (.refresh 1000)]
    let bad := [SBlk.snap] ++ rxB ++ [.store 1000]
    let good := [SBlk.std (.refresh 1000)] ++ rxB
    lookup (srun c {} bad).cs.t 5 = none ∧ (core c (srun c {} bad).cs.t .tsb 5 p 100).2 = .ok ∧
    (core c (srun c {} good).cs.t .tsb 5 p 100).2 = .dup := by
  decide

end TwoThreads

/-! ### Round 6: the CBF buffer under two receive threads (`_cbf_lock` sections) -/
section CbfTwoThreads
open FlexModel.Geo.RouterCbfConc

/-- regenerated from the SOURCE (harness/gen_locks.py → `Generated.Locks.shape / accesses`): in `gn_area_cbf_forwarding` the
test "already buffered?" and the insertion are ONE `_cbf_lock` section, `_cbf_discard` and `_cbf_timeout` are one section
each and `_cbf_buffer` is never touched outside `_cbf_lock` (seeded change C06-m11 narrows the section into test / insert:
the obligation no longer checks) -/
theorem cbf_test_and_insert_is_one_section : cbfBufferingIsOneSection = true := by decide

/-- TWO (or more) RECEIVE THREADS, EVERY SCHEDULE of `_cbf_lock` sections: from ANY buffer `b`, after a thread's
`gn_area_cbf_forwarding` section for `k` (`buf k`), any sections `e1` of other threads / the timer thread, the overheard
duplicate's `_cbf_discard k`, and any further sections `e2` - none of `e1`, `e2` buffering `k` anew (every later copy of `k`
is a DPD duplicate: `concurrent_duplicate_is_suppressed`) - the copy is NOT waiting in the buffer: it will not be
re-broadcast.  Rests on the one-section shape (`cbf_test_and_insert_is_one_section`). -/
theorem overheard_duplicate_drops_copy (b : List CKey) (k : CKey) (e1 e2 : List CBlk) (h2 : ∀ x ∈ e2, NoIns k x) :
    k ∉ brun b (.buf k :: (e1 ++ .disc k :: e2)) := by
  simp only [brun, List.foldl_cons, List.foldl_append]
  exact run_keeps_absent k e2 h2 _ (disc_removes _ k)

/-- non-vacuity: another packet is buffered and fires, a third one is buffered and discarded in between -/
example : (5, 100) ∉ brun [(6, 3)] (.buf (5, 100) :: ([.fire (6, 3), .buf (7, 1)] ++ .disc (5, 100) :: [.disc (7, 1), .buf (6, 4)])) :=
  overheard_duplicate_drops_copy _ _ _ _ (by intro x hx; simp only [List.mem_cons, List.mem_nil_iff, or_false] at hx
                                             rcases hx with rfl | rfl <;> simp [NoIns])

/-- WITNESS (seeded change C06-m11: test under the lock / PDU and timer built outside / insertion in a second section).
Thread A tests (5, 100): not buffered; thread B overhears the duplicate: `_cbf_discard` finds nothing; A inserts: the copy
waits in the buffer and is re-broadcast at expiry.  With the one-section shape the same two receptions leave the buffer
empty; without anything in between the split shape equals the one-section shape (the single-threaded suite cannot see it). -/
theorem split_buffering_keeps_copy_witness :
    (5, 100) ∈ brun [] [.chk (5, 100), .disc (5, 100), .ins (5, 100)] ∧
    brun [] [.buf (5, 100), .disc (5, 100)] = [] ∧
    brun [] [.chk (5, 100), .ins (5, 100)] = brun [] [.buf (5, 100)] := by
  decide

end CbfTwoThreads

/-- regenerated from the SOURCE (harness/gen_router.py, ast pass over location_table.py and router.py): the duplicate packet
list of a location table entry is touched by the entry's constructor and by the DPD step `check_duplicate_sn` ONLY - the model's
`dpl` changes in `dplPush` alone; no exception handler, no maintenance method takes an accepted sequence number out again
(seeded change C06-m12 adds `LocationTableEntry.forget_sn`, called when the link layer refuses the re-broadcast: the
obligation no longer checks) -/
theorem dpl_touched_by_dpd_only :
    Generated.RouterRx.dplTouchers = ["LocationTableEntry.__init__", "LocationTableEntry.check_duplicate_sn"] := by
  decide

end Props.C06

import FlexModel.Geo.Router
namespace Props.C06
open FlexModel.Geo
theorem placeholder_fwd (p : Pkt) : (fwd p).rhl = p.rhl - 1 := rfl
end Props.C06

import FlexModel.Sec.Sign
namespace Props.C09
open FlexModel.Sec
theorem placeholder : (1 : Nat) = 1 := rfl
end Props.C09

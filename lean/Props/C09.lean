/-
C09 — Trust store closure and signer authorisation.  Property theorems only.
Model: FlexModel/Sec/{Cert,Store,Verify,Sign}.lean (mirrors the repaired code, `Cfg.fixed`); vocabulary:
FlexModel/Sec/Spec.lean; helper lemmas: FlexModel/Sec/Lemmas.lean.
-/
import FlexModel.Sec.Lemmas
import FlexModel.Sec.Groups
import Generated.Sec
import Generated.SecWrites

namespace Props.C09
open FlexModel.Sec FlexModel.Sec.Store

/-! ## Closure of the trust store over every history -/

/-- the empty library is closed -/
theorem closed_init (U : Cert → Prop) : Inv U ({} : Store) :=
  ⟨fun c h => by simp [certsOf] at h, fun c h => by simp [certsOf] at h⟩

/-- every operation (add-root / add-AA / add-AT / add-own / verify-chain / received message / signing) preserves
    closure, for certificates offered from a universe without HashedId8 collisions – for every variant `cfg` of the
    code with the containment guard of C09-F3 (`allGuard`), in particular the code as it is (`Cfg.fixed`) -/
theorem closed_step {U : Cert → Prop} (hinj : IdInj U) {cfg : Cfg} (hg : cfg.allGuard = true) (S : Station)
    (hinv : Inv U S.store) (op : Op)
    (hop : ∀ c ∈ op.certs, U c) : Inv U (S.step cfg op).store :=
  step_inv hinj hg hinv op hop

/-- ALL histories: whatever certificates are offered or arrive inside messages, in any order and number, the
    authorities and tickets of the store chain to a configured root -/
theorem closed_reachable {U : Cert → Prop} (hinj : IdInj U) {cfg : Cfg} (hg : cfg.allGuard = true) (ops : List Op)
    (S : Station) (hinv : Inv U S.store)
    (hops : ∀ op ∈ ops, ∀ c ∈ op.certs, U c) : Inv U (S.run cfg ops).store := by
  induction ops generalizing S with
  | nil => exact hinv
  | cons op rest ih =>
    simp only [Station.run, List.foldl_cons]
    exact ih (S.step cfg op) (closed_step hinj hg S hinv op (hops op (by simp)))
      (fun o ho => hops o (by simp [ho]))

/-- … in particular from the empty library -/
theorem closed_from_empty {U : Cert → Prop} (hinj : IdInj U) {cfg : Cfg} (hg : cfg.allGuard = true) (ops : List Op)
    (S : Station) (h0 : S.store = {})
    (hops : ∀ op ∈ ops, ∀ c ∈ op.certs, U c) : Closed (S.run cfg ops).store :=
  (closed_reachable hinj hg ops S (h0 ▸ closed_init U) hops).closed

/-- roots are exactly what the configuration API accepted: over any history, every certificate in the root dictionary
    was there initially or was offered through `add_root_certificate` and verified (nothing a message or a chain offer
    carries can become a root) -/
theorem roots_only_configured (cfg : Cfg) (ops : List Op) (S : Station) (c : Cert)
    (h : c ∈ certsOf (S.run cfg ops).store.roots) :
    c ∈ certsOf S.store.roots ∨ ∃ s, Op.addRoot s ∈ ops ∧ s.c = c ∧ s.c.verify cfg s.att = true := by
  induction ops generalizing S with
  | nil => exact Or.inl h
  | cons op rest ih =>
    rcases ih (S.step cfg op) h with h1 | ⟨s, hs, hc, hv⟩
    · rcases roots_only_by_addRoot cfg S op with heq | ⟨s, hop, hv, heq⟩
      · rw [heq] at h1; exact Or.inl h1
      · rw [heq] at h1
        rcases mem_certsOf_put h1 with h2 | h2
        · exact Or.inl h2
        · exact Or.inr ⟨s, by simp [hop], h2.symm, hv⟩
    · exact Or.inr ⟨s, by simp [hs], hc, hv⟩

/-- a stored authority or ticket has its issuer in the store: named by digest, signature by that issuer's key,
    permissions within the issuer's issuing permissions (or it is itself a configured root) -/
theorem stored_has_issuer {st : Store} (hc : Closed st) {c : Cert} (h : c ∈ certsOf st.aas ∨ c ∈ certsOf st.ats) :
    c ∈ certsOf st.roots ∨ ∃ i, (i ∈ certsOf st.roots ∨ i ∈ certsOf st.aas) ∧ Link c i := by
  cases hc c h with
  | root hr => exact Or.inl hr
  | step _ hi hl _ => exact Or.inr ⟨_, hi, hl⟩

/-- finite path of issuer links -/
inductive Path : Cert → Cert → Prop
  | refl (c : Cert) : Path c c
  | cons {c i r : Cert} : Link c i → Path i r → Path c r

/-- "up to a configured root": the chain is a finite (well-founded) descent ending in the root dictionary -/
theorem chain_to_root {st : Store} {c : Cert} (h : Chain st c) : ∃ r, r ∈ certsOf st.roots ∧ Path c r := by
  induction h with
  | root hr => exact ⟨_, hr, Path.refl _⟩
  | step _ _ hl _ ih => obtain ⟨r, hr, hp⟩ := ih; exact ⟨r, hr, Path.cons hl hp⟩

/-- the containment test of the repaired code is sound for the permission semantics … -/
theorem permsOk_sound {cfg : Cfg} (hg : cfg.allGuard = true) {c i : Cert} (h : Cert.permsOk cfg c i = true) :
    PermsWithin c i :=
  permsOk_within hg h

def wIssuer : Cert :=
  { id := 1, issuer := .self, ctype := 0, vkiVerif := true, sigP256 := true, keyP256 := true, keyUnc := true,
    idNone := false, app := none, issue := some [⟨.explicit [36, 37], 1⟩], start := 0, durUs := 1000, key := 1,
    sigBy := some 1 }
def wSubAll : Cert :=
  { wIssuer with id := 2, issuer := .digest 1, app := some [36], issue := some [⟨.all, 5⟩], key := 2 }

/-- … and was not for the code before the repair (C09-F3): a subordinate with the `all` issuing permission passed under an
    issuer limited to {36, 37} -/
theorem permsOk_old_witness : Cert.permsOk Cfg.old wSubAll wIssuer = true ∧ ¬ PermsWithin wSubAll wIssuer := by
  refine ⟨by decide, fun h => ?_⟩
  have := h.2 99 (Or.inl (by decide))
  rcases this with h | h
  · exact absurd h (by decide)
  · exact absurd h (by decide)

/-! ## Acceptance of messages -/

/-- a message is accepted only if its ITS-AID is among the signing ticket's application permissions -/
theorem accept_requires_psid {cfg : Cfg} (hpg : cfg.psidGuard = true) {S S' : Station} {m : Msg} {o : VOut}
    (h : S.verifyMsg cfg m = (S', .ok o)) (hs : o.report = .success) :
    ∃ a, a ∈ S'.store.ats ∧ o.certId = some a.c.id ∧ m.psid ∈ a.c.appList := by
  obtain ⟨a, hmem, hacc, _⟩ := verifyMsg_success h hs
  exact ⟨a, hmem, hacc.certId, hacc.psid hpg⟩

/-- … and its generation time lies within the ticket's validity period -/
theorem accept_requires_validity {cfg : Cfg} (htg : cfg.timeGuard = true) {S S' : Station} {m : Msg} {o : VOut}
    (h : S.verifyMsg cfg m = (S', .ok o)) (hs : o.report = .success) :
    ∃ a, a ∈ S'.store.ats ∧ o.certId = some a.c.id ∧
      ∃ t, m.genTime = some t ∧ a.c.start * 1000000 ≤ t ∧ t ≤ a.c.start * 1000000 + a.c.durUs := by
  obtain ⟨a, hmem, hacc, _⟩ := verifyMsg_success h hs
  exact ⟨a, hmem, hacc.certId, hacc.time htg⟩

/-- … after ANY history of library operations, sign operations and received messages on the station (in particular
    after earlier messages of the same ticket that were accepted): the two acceptance conditions are judged per
    MESSAGE, in whatever state the history left -/
theorem accept_conditions_after_any_history {cfg : Cfg} (hpg : cfg.psidGuard = true) (htg : cfg.timeGuard = true)
    (S0 : Station) (hist : List Op) {S' : Station} {m : Msg} {o : VOut}
    (h : (S0.run cfg hist).verifyMsg cfg m = (S', .ok o)) (hs : o.report = .success) :
    ∃ a, a ∈ S'.store.ats ∧ o.certId = some a.c.id ∧ m.psid ∈ a.c.appList ∧
      ∃ t, m.genTime = some t ∧ a.c.start * 1000000 ≤ t ∧ t ≤ a.c.start * 1000000 + a.c.durUs := by
  obtain ⟨a, hmem, hacc, _⟩ := verifyMsg_success h hs
  exact ⟨a, hmem, hacc.certId, hacc.psid hpg, hacc.time htg⟩

/-- regenerated fact (ast pass `gen_sec_writes` of harness/gen_sec.py): no method or module function of
    verify_service.py on the verification path stores anything that outlives the call – `VerifyService` has no memory
    of earlier messages, so the model's verdict, a function of (library + sign-service bookkeeping, message), is all
    there is.  A per-instance cache of "already checked" tickets re-opens this obligation. -/
theorem acceptance_has_no_memory : Generated.SecWrites.verifyServiceWrites = [] := by decide

/-- … under a ticket that chains to a configured root (closure + acceptance combined, any history before) -/
theorem accept_requires_chain {U : Cert → Prop} (hinj : IdInj U) {cfg : Cfg} (hg : cfg.allGuard = true)
    {S S' : Station} (hinv : Inv U S.store) {m : Msg}
    (hm : ∀ c ∈ m.certs, U c) {o : VOut} (h : S.verifyMsg cfg m = (S', .ok o)) (hs : o.report = .success) :
    ∃ a, a ∈ S'.store.ats ∧ o.certId = some a.c.id ∧ Chain S'.store a.c := by
  obtain ⟨a, hmem, hacc, _⟩ := verifyMsg_success h hs
  have hinv' : Inv U S'.store := by
    have := verifyMsg_inv hinj (cfg := cfg) hg hinv hm
    rw [h] at this; exact this
  exact ⟨a, hmem, hacc.certId, hinv'.closed _ (Or.inr (mem_certsOf.2 ⟨a, hmem, rfl⟩))⟩

def accepts (cfg : Cfg) (S : Station) (m : Msg) : Bool :=
  match (S.verifyMsg cfg m).2 with
  | .ok o => o.report == .success
  | .error _ => false

def wRoot : Cert :=
  { id := 10, issuer := .self, ctype := 0, vkiVerif := true, sigP256 := true, keyP256 := true, keyUnc := true,
    idNone := false, app := none, issue := some [⟨.all, 2⟩], start := 100, durUs := 1000000000, key := 10,
    sigBy := some 10 }
def wAA : Cert := { wRoot with id := 11, issuer := .digest 10, issue := some [⟨.explicit [36, 37], 1⟩], key := 11 }
def wAT : Cert := { wRoot with id := 12, issuer := .digest 11, idNone := true, app := some [36], issue := none, key := 12,
                                sigBy := some 11 }
def wStation : Station :=
  (({} : Station).run Cfg.fixed [.addRoot ⟨wRoot, none⟩, .addAA ⟨wAA, some wRoot⟩])
def wMsg (psid t : Nat) : Msg :=
  { psid := psid, genTime := some t, genLoc := false, p2pcdLearn := false, missingCrl := false, expiry := false,
    encKey := false, inlineReq := none, reqCert := none, signer := .certs [wAT], sigFmtOk := true, sigBy := some 12,
    payload := 7 }

/-- non-vacuity: the honest chain is learnt and the honest message accepted by the repaired code -/
example : accepts Cfg.fixed wStation (wMsg 36 100000500) = true := by decide
example : certsOf (wStation.step Cfg.fixed (.msg (wMsg 36 100000500))).store.ats = [wAT] := by decide

/-- the code before the repair accepted ITS-AID 99 under a ticket for {36} (C09-F1); the repaired code does not -/
theorem accept_psid_old_witness :
    accepts Cfg.old wStation (wMsg 99 100000500) = true ∧ 99 ∉ wAT.appList ∧
    accepts Cfg.fixed wStation (wMsg 99 100000500) = false := by decide

/-- the code before the repair accepted generation times outside the validity period (C09-F2) -/
theorem accept_time_old_witness :
    accepts Cfg.old wStation (wMsg 36 5) = true ∧ accepts Cfg.old wStation (wMsg 36 2000000000) = true ∧
    accepts Cfg.fixed wStation (wMsg 36 5) = false ∧ accepts Cfg.fixed wStation (wMsg 36 2000000000) = false := by
  decide

/-- regenerated fact: the Duration → microseconds table of the validity guard is the IEEE 1609.2 one (a year =
    31 556 952 s, sixtyHours = 216 000 s); the harness feeds `durUs` computed with its own copy of this table -/
theorem duration_table_agrees :
    Generated.Sec.durationUs =
      [("microseconds", 1), ("milliseconds", 1000), ("seconds", 1000000), ("minutes", 60 * 1000000),
       ("hours", 3600 * 1000000), ("sixtyHours", 216000 * 1000000), ("years", 31556952 * 1000000)] := by decide

/-! ## Issuing API -/

/-- a certificate obtained from `issue_certificate` for a subordinate (non-self) unsigned template verifies under
    its issuer only if its permissions are contained in the issuer's issuing permissions and the issuer's remaining
    chain length allows it -/
theorem issued_verifies_only_if {cfg : Cfg} (hg : cfg.allGuard = true) {i c c' : Cert} {newId : Nat}
    (hsub : c.issuer ≠ .self) (hu : c.sigBy = none)
    (h : Cert.issueCert cfg i c newId = .ok c') (hv : c'.verify cfg (some i) = true) :
    PermsWithin c i ∧ PermsWithin c' i ∧ ChainAllows i ∧ c' = { c.setChainLen i with issuer := .digest i.id, id := newId, sigBy := some i.key } := by
  unfold Cert.issueCert at h
  simp only [hsub, if_false] at h
  split at h
  · rename_i hp
    split at h
    · simp at h
    · cases h; rw [verify_unsigned hu] at hv; simp at hv
    · rename_i he
      cases h
      obtain ⟨j, hj, _, hl⟩ := verify_digest (cfg := cfg) hg (h := i.id) rfl hv
      cases hj
      exact ⟨permsOk_within hg hp, hl.perms, enoughChain_allows he, rfl⟩
  · cases h; rw [verify_unsigned hu] at hv; simp at hv

/-- the same through `initialize_certificate` -/
theorem initialized_verifies_only_if {cfg : Cfg} (hg : cfg.allGuard = true) {i c c' : Cert} {newId : Nat} (ok : Bool)
    (hu : c.sigBy = none)
    (h : Cert.initCert cfg i ok c newId = .ok c') (hv : c'.verify cfg (some i) = true) :
    PermsWithin c' i ∧ ChainAllows i := by
  unfold Cert.initCert at h
  split at h
  · simp at h
  · have hu' : (Cert.setChainLen { c with issuer := .digest i.id } i).sigBy = none := by
      unfold Cert.setChainLen; split <;> simpa using hu
    have hsub : (Cert.setChainLen { c with issuer := .digest i.id } i).issuer ≠ .self := by
      unfold Cert.setChainLen; split <;> simp
    obtain ⟨_, h2, h3, _⟩ := issued_verifies_only_if hg hsub hu' h hv
    exact ⟨h2, h3⟩

/-- the issued certificate's own issuing budget is ≥ 1 and one below an entry of its issuer: chain length decreases -/
theorem issued_chain_decreases {cfg : Cfg} (hg : cfg.allGuard = true) {i c c' : Cert} {newId : Nat}
    (hsub : c.issuer ≠ .self) (hu : c.sigBy = none)
    (h : Cert.issueCert cfg i c newId = .ok c') (hv : c'.verify cfg (some i) = true) :
    ∀ p ∈ c'.issueList, 1 ≤ p.minChain ∧ ∃ q ∈ i.issueList, p.minChain = q.minChain - 1 := by
  obtain ⟨_, _, _, rfl⟩ := issued_verifies_only_if hg hsub hu h hv
  exact setChainLen_budget c i

/-- non-vacuity: an AA with budget 1 issues a ticket; an issuer with budget 0 does not -/
example : (match Cert.issueCert Cfg.fixed wAA { wAT with sigBy := none } 12 with
    | .ok r => r.verify Cfg.fixed (some wAA) | .error _ => false) = true := by decide
example : (match Cert.issueCert Cfg.fixed { wAA with issue := some [⟨.explicit [36], 0⟩] } { wAT with sigBy := none } 12 with
    | .ok r => r.sigBy.isNone | .error _ => false) = true := by decide

/-! ## certIssuePermissions is a LIST of groups: containment is decided against the union of all of them -/

/-- the issuing scope read by `get_list_of_allowed_persmissions` is the union over ALL explicit PsidGroupPermissions
    entries of the issuer – whatever their number and position in the list -/
theorem issuing_scope_is_union (i : Cert) (p : Nat) :
    p ∈ i.explicitPsids ↔ ∃ g ∈ i.issueList, ∃ ps, g.subj = .explicit ps ∧ p ∈ ps :=
  mem_explicitPsids

/-- `check_issuer_has_subject_permissions` holds iff the issuer has an `all` group, or the subject has none and every
    permission it needs (application or issuing) is named by SOME explicit group of the issuer – for every number of
    groups (no bound on the list) -/
theorem containment_against_union (c i : Cert) :
    Cert.permsOk Cfg.fixed c i = true ↔
      (i.hasAll = true ∨
        (c.hasAll = false ∧ ∀ p ∈ c.needed, ∃ g ∈ i.issueList, ∃ ps, g.subj = .explicit ps ∧ p ∈ ps)) :=
  permsOk_iff_union c i

/-- the layout of the groups is irrelevant: two issuers with the same `all` flag and the same union give the same
    verdict on every subject (splitting, merging, duplicating or re-ordering groups changes nothing) -/
theorem containment_layout_irrelevant (cfg : Cfg) (c i i' : Cert) (hall : i.hasAll = i'.hasAll)
    (hu : ∀ p, InSomeGroup i p ↔ InSomeGroup i' p) : Cert.permsOk cfg c i = Cert.permsOk cfg c i' :=
  permsOk_congr_groups cfg c i i' hall hu

/-- … in particular every permutation of the issuer's groups -/
theorem containment_order_irrelevant (cfg : Cfg) (c i i' : Cert) (h : List.Perm i.issueList i'.issueList) :
    Cert.permsOk cfg c i = Cert.permsOk cfg c i' :=
  permsOk_congr_groups cfg c i i' (hasAll_perm h) (inSomeGroup_perm h)

/-- a subject that requests the `all` issuing permission in ANY of its groups – alone or mixed with explicit groups,
    in any position – is refused under an issuer without `all` (escalation through a mixed list) -/
theorem all_in_any_group_refused {cfg : Cfg} (hg : cfg.allGuard = true) (c i : Cert) (hi : i.hasAll = false)
    {g : IssuePerm} (hmem : g ∈ c.issueList) (hall : g.subj = .all) : Cert.permsOk cfg c i = false := by
  have hc : c.hasAll = true := hasAll_iff.2 ⟨g, hmem, hall⟩
  unfold Cert.permsOk
  simp [hi, hg, hc]

/-- the issuer ATTACHED to an offered certificate is bound to the issuer the certificate DECLARES: `verify` succeeds
    only if the attached object has the declared HashedId8 and its key made the signature (a certificate naming a
    trusted authority but carrying a foreign CA as `.issuer` does not verify) -/
theorem attached_issuer_is_declared_issuer {cfg : Cfg} (hg : cfg.allGuard = true) {c : Cert} {att : Option Cert}
    {h : Nat} (hi : c.issuer = .digest h) (hv : c.verify cfg att = true) :
    ∃ i, att = some i ∧ i.id = h ∧ c.sigBy = some i.key ∧ PermsWithin c i := by
  obtain ⟨i, ha, hh, hl⟩ := verify_digest hg hi hv
  exact ⟨i, ha, hh.symm, hl.signed, hl.perms⟩

/-- a ticket whose appPermissions list is present but EMPTY authorises nothing: no message is accepted under it -/
theorem empty_app_accepts_nothing {cfg : Cfg} (hpg : cfg.psidGuard = true) {S S' : Station} {m : Msg} {o : VOut}
    (h : S.verifyMsg cfg m = (S', .ok o)) (hs : o.report = .success) :
    ∃ a, a ∈ S'.store.ats ∧ o.certId = some a.c.id ∧ a.c.appList ≠ [] := by
  obtain ⟨a, hmem, hid, hp⟩ := accept_requires_psid hpg h hs
  exact ⟨a, hmem, hid, List.ne_nil_of_mem hp⟩

/-- non-vacuity / witnesses of the three statements above on concrete certificates -/
example : Cert.permsOk Cfg.fixed { wAA with id := 30, issuer := .digest 11, issue := some [⟨.explicit [36], 1⟩, ⟨.all, 1⟩] } wAA = false ∧
    Cert.permsOk Cfg.fixed { wAA with id := 30, issuer := .digest 11, issue := some [⟨.all, 1⟩, ⟨.explicit [36], 1⟩] } wAA = false ∧
    ({ wAT with sigBy := some 66 } : Cert).verify Cfg.fixed (some { wAA with id := 66, key := 66 }) = false ∧
    accepts Cfg.fixed wStation { wMsg 36 100000500 with signer := .certs [{ wAT with app := some [] }] } = false := by decide

/-- an authority whose issuing permissions are split over two groups, and a ticket across them -/
def wAA2 : Cert := { wAA with id := 21, issue := some [⟨.explicit [36, 37], 1⟩, ⟨.explicit [638], 1⟩], key := 21 }
def wAT2 : Cert := { wAT with id := 22, issuer := .digest 21, app := some [36, 638], key := 22, sigBy := some 21 }
def wStation2 : Station :=
  (({} : Station).run Cfg.fixed [.addRoot ⟨wRoot, none⟩, .addAA ⟨wAA2, some wRoot⟩])

/-- non-vacuity of the union: the ticket is contained although NO single group of the authority contains it (a test
    against the last – or any one – group alone would refuse it), it is learnt, and its message is accepted -/
theorem containment_union_witness :
    Cert.permsOk Cfg.fixed wAT2 wAA2 = true ∧
    (∀ g ∈ wAA2.issueList, ¬ ∀ p ∈ wAT2.needed, p ∈ Cert.explicitOf g) ∧
    accepts Cfg.fixed wStation2 { wMsg 638 100000500 with signer := .certs [wAT2], sigBy := some 22 } = true ∧
    certsOf (wStation2.step Cfg.fixed (.vseq [wAT2])).store.ats = [wAT2] := by decide

end Props.C09

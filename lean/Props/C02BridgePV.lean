/-
C02 — bridge lemmas, family `gn_address.py` + `position_vector.py` (GN address, timestamp field, long / short
position vectors incl. the two's-complement helpers `_to_twos_complement` / `_from_twos_complement` inlined with
their literal widths): extracted definitions (`Generated/ExtractedPV.lean`) = hand model
(`FlexModel/Wire/Headers.lean`) for ALL arguments.  The Python `MID` keeps 6 octets, the model the number they
denote: `absAddr / absLPV / absSPV` (FlexModel/Wire/BridgeLemmas.lean) map the extracted tuple to the model structure.
Only range hypothesis: `bs.WF` (every octet < 256, true of any Python `bytes`) for `LongPositionVector.decode`,
where the code re-serialises the address part with `to_bytes(8)` and the model uses that this cannot overflow.
-/
import FlexModel.Wire.BridgeLemmas
import Generated.ExtractedPV
set_option linter.unusedSimpArgs false

namespace Props.C02BridgePV
open FlexModel.Wire FlexModel.Wire.Bridge Generated.Extracted Generated.WireEnums

theorem GNAddress_encode_to_int_eq (m st : Nat) (mid : Bytes) :
    GNAddress_encode_to_int m st mid = (GNAddr.mk m st (fromBytesBE mid)).encodeInt := by
  simp only [GNAddress_encode_to_int, GNAddr.encodeInt, fromBytesBE_zero_zero]
  try lor_ac

/-- `GNAddress.encode` = `to_bytes(8)` of the same integer (as used by the model's LS request header) -/
theorem GNAddress_encode_eq (m st : Nat) (mid : Bytes) :
    GNAddress_encode m st mid = toBytes? 8 (GNAddr.mk m st (fromBytesBE mid)).encodeInt := by
  simp only [GNAddress_encode, GNAddr.encodeInt, fromBytesBE_zero_zero, bind_pure]
  try (refine congrArg (toBytes? 8) ?_; lor_ac)

/-- `GNAddress.decode`: DecodeError below 8 octets, ValueError on unknown M / ST codes (sets from the source) -/
theorem GNAddress_decode_eq (bs : Bytes) : (GNAddress_decode bs).map absAddr = GNAddr.decode bs := by
  simp only [GNAddress_decode, GNAddr.decode, enumOf_eq, M_values, ST_values, absAddr]
  try except_cases

theorem TST_encode_eq (t : Nat) : TST_encode t = t % 2 ^ 32 := by simp [TST_encode]
theorem TST_decode_eq (n : Nat) : TST_decode n = n % 2 ^ 32 := by simp [TST_decode]

/-- `LongPositionVector.encode_to_int` (lat/lon masked to 32 bits, speed to 15 bits: two's complement) -/
theorem LongPositionVector_encode_to_int_eq (m st : Nat) (mid : Bytes) (tst : Nat) (lat lon : Int) (pai : Bool) (s : Int) (h : Nat) :
    LongPositionVector_encode_to_int m st mid tst lat lon pai s h
      = (LongPV.mk ⟨m, st, fromBytesBE mid⟩ tst lat lon pai s h).encodeInt := by
  simp only [LongPositionVector_encode_to_int, LongPV.encodeInt, GNAddress_encode_to_int_eq, TST_encode_eq, toTwos]
  simp <;> try lor_ac

theorem LongPositionVector_encode_eq (m st : Nat) (mid : Bytes) (tst : Nat) (lat lon : Int) (pai : Bool) (s : Int) (h : Nat) :
    LongPositionVector_encode m st mid tst lat lon pai s h
      = (LongPV.mk ⟨m, st, fromBytesBE mid⟩ tst lat lon pai s h).encode := by
  simp only [LongPositionVector_encode, LongPV.encode, LongPV.encodeInt, GNAddress_encode_to_int_eq, TST_encode_eq,
    toTwos, bind_pure]
  try (refine congrArg (toBytes? 24) ?_; simp <;> try lor_ac)

theorem ShortPositionVector_encode_to_int_eq (m st : Nat) (mid : Bytes) (tst : Nat) (lat lon : Int) :
    ShortPositionVector_encode_to_int m st mid tst lat lon
      = (ShortPV.mk ⟨m, st, fromBytesBE mid⟩ tst lat lon).encodeInt := by
  simp only [ShortPositionVector_encode_to_int, ShortPV.encodeInt, GNAddress_encode_to_int_eq, TST_encode_eq, toTwos]
  simp <;> try lor_ac

theorem ShortPositionVector_encode_eq (m st : Nat) (mid : Bytes) (tst : Nat) (lat lon : Int) :
    ShortPositionVector_encode m st mid tst lat lon = (ShortPV.mk ⟨m, st, fromBytesBE mid⟩ tst lat lon).encode := by
  simp only [ShortPositionVector_encode, ShortPV.encode, ShortPV.encodeInt, GNAddress_encode_to_int_eq, TST_encode_eq,
    toTwos, bind_pure]
  try (refine congrArg (toBytes? 20) ?_; simp <;> try lor_ac)

/-- the address part of a 24-octet position vector fits 8 octets -/
theorem addr_part_fits (bs : Bytes) (hwf : bs.WF) (hl : 24 ≤ bs.length) :
    fromBytesBE (slice bs 0 24) >>> 128 < 256 ^ 8 := by
  have h1 := fromBytesBE_lt (slice bs 0 24) (slice_wf bs hwf 0 24)
  rw [slice_length bs 0 24 hl] at h1
  rw [Nat.shiftRight_eq_div_pow]
  have e1 : (256 : Nat) ^ (24 - 0) = 6277101735386680763835789423207666416102355444464034512896 := by decide
  have e2 : (2 : Nat) ^ 128 = 340282366920938463463374607431768211456 := by decide
  have e3 : (256 : Nat) ^ 8 = 18446744073709551616 := by decide
  rw [e1] at h1; rw [e2, e3]; omega

/-- `LongPositionVector.decode` (DecodeError below 24 octets; address decoded from the re-serialised top 8 octets;
TST, sign-extended lat/lon/speed, PAI bit, heading) -/
theorem LongPositionVector_decode_eq (bs : Bytes) (hwf : bs.WF) :
    (LongPositionVector_decode bs).map absLPV = LongPV.decode bs := by
  simp only [LongPositionVector_decode, LongPV.decode, ← GNAddress_decode_eq, TST_decode_eq]
  by_cases hl : bs.length < 24
  · simp [hl, Except.map]
  · have hfit := addr_part_fits bs hwf (by omega)
    simp only [hl, if_false, toBytes?, if_pos hfit, fromTwos, and_mask32, and_mask15]
    simp only [bind, Except.bind, Except.map, pure, Except.pure]
    cases GNAddress_decode (toBytesBE 8 (fromBytesBE (slice bs 0 24) >>> 128)) <;> simp

/-- `ShortPositionVector.decode` (no length guard in the code; OverflowError when more than 20 significant octets) -/
theorem ShortPositionVector_decode_eq (bs : Bytes) :
    (ShortPositionVector_decode bs).map absSPV = ShortPV.decode bs := by
  simp only [ShortPositionVector_decode, ShortPV.decode, ← GNAddress_decode_eq, TST_decode_eq, fromTwos, and_mask32]
  cases toBytes? 8 (fromBytesBE bs >>> 96) with
  | error e => rfl
  | ok ab =>
    simp only [bind, Except.bind, Except.map, pure, Except.pure]
    cases GNAddress_decode ab <;> simp

end Props.C02BridgePV

/-
C12 — LDM behaves as a store of objects with registration gating and expiry.
Property theorems only.  Implementation model: FlexModel/Ldm/Store.lean (the repaired code, with the two known
findings as variants `areaFixed`, `gated`); reference map: FlexModel/Ldm/Spec.lean (independent of the implementation
model; parameters: area rule, gating, reactive trigger); lemmas: StoreLemmas.lean.

Shape:
 1. refinement — for every variant and EVERY history the answers of the implementation are the answers of the
    reference map with the parameters that variant implements (`ldm_refines_map`, no side condition; instances
    `_repaired` = the intended parameters, `_as_is` = the code today with the area rule it really applies);
    `area_witness`, `gating_witness` for the two known findings;
 2. the clauses of the property, proved of the reference map for every history and all parameter values;
 3. `impl_*`: each clause carried over to the implementation model's own step / run / rows / registries / counter.
-/
import FlexModel.Ldm.StoreLemmas
import Generated.LdmAlias

namespace Props.C12
open FlexModel.Ldm Generated.Ldm

/-- answers of the implementation to a history, read in the reference vocabulary (result codes kept) -/
def answers (cfg : Cfg) (u m : Int) (ops : List Op) : List Spec.Out :=
  List.zipWith absOut ops (run cfg (St.init u m) ops).2

/-- answers of the reference map with parameters `P` -/
def refAnswers (P : Spec.Params) (u m : Int) (ops : List Spec.Op) : List Spec.Out :=
  (Spec.run P (Spec.St.init u m) ops).2

/-! ## 1. Refinement (no side condition) -/

/-- **For every variant of the code, every pair of start clocks and EVERY history** (any length, any ids, objects
anywhere - inside, on the border of, outside the area of maintenance -, updates / deletes by anybody, any clock
advances, maintenance explicit and reactive) the implementation answers exactly like the reference map whose area
rule, gating and reactive trigger are `specOf cfg`. -/
theorem ldm_refines_map (cfg : Cfg) (u m : Int) (ops : List Op) :
    answers cfg u m ops = refAnswers (specOf cfg) u m (ops.map toSpec) :=
  (run_refines cfg ops _ _ (rel_init u m)).2

/-- the area of maintenance as EN 302 895 5.3.2 means it: inside the relevance distance and within the altitude band -/
def inArea (a : Area) (l : Loc) : Bool :=
  within a.relDist (sqDist a l) && decide ((l.alt - a.alt) * (l.alt - a.alt) < maxAltDiff)

/-- the parameters the property asks for: objects OUTSIDE the area of maintenance are discarded, update / delete are
gated by the provider registration, reactive pass after >= 1 s -/
def intended (a : Area) : Spec.Params :=
  { drops := fun l => !inArea a l, gated := true, reactive := fun d => decide (d ≥ 1000) }

/-- what the code as it is implements (C12-KF1: the area test is inverted and `^` is XOR, so objects INSIDE the area
with a small altitude difference are discarded and objects outside are kept; C12-KF2: update / delete not gated) -/
def asIs (a : Area) : Spec.Params :=
  { drops := fun l => within a.relDist (sqDist a l) && decide (xor2 (l.alt - a.alt) < maxAltDiff), gated := false,
    reactive := fun d => decide (d ≥ 1000) }

/-- repaired variant: refines the intended reference, all histories -/
theorem ldm_refines_map_repaired (area : Area) (u m : Int) (ops : List Op) :
    answers { area := area, areaFixed := true, gated := true } u m ops = refAnswers (intended area) u m (ops.map toSpec) :=
  ldm_refines_map _ u m ops

/-- the code as it is: refines the reference with the area rule it really applies, ALL histories -/
theorem ldm_refines_map_as_is (area : Area) (u m : Int) (ops : List Op) :
    answers { area := area, areaFixed := false, gated := false } u m ops = refAnswers (asIs area) u m (ops.map toSpec) :=
  ldm_refines_map _ u m ops

/-- C12-KF1 is total on the area of maintenance: EVERY object inside the area (relevance distance and altitude band
`Δalt² < 15`, i.e. |Δalt| ≤ 3) is discarded by the code as it is at the next maintenance pass.  (What the code as it
is keeps: objects outside the relevance distance, and objects inside it whose altitude difference has
`Δalt XOR 2 ≥ 15`, e.g. 13 or ≥ 16 - all of them outside the intended area.) -/
theorem kf1_total_on_area (a : Area) (l : Loc) (h : inArea a l = true) : (asIs a).drops l = true := by
  simp only [inArea, Bool.and_eq_true, decide_eq_true_eq] at h
  simp only [asIs, h.1, Bool.true_and, decide_eq_true_eq]
  have h2 := h.2
  generalize l.alt - a.alt = d at h2 ⊢
  have hb : -4 < d ∧ d < 4 := by
    constructor
    · apply Classical.byContradiction
      intro hn
      have h1 : (4 : Int) ≤ -d := by omega
      have := Int.mul_le_mul h1 h1 (by decide) (by omega)
      rw [Int.neg_mul_neg] at this
      simp only [maxAltDiff] at h2
      omega
    · apply Classical.byContradiction
      intro hn
      have h1 : (4 : Int) ≤ d := by omega
      have := Int.mul_le_mul h1 h1 (by decide) (by omega)
      simp only [maxAltDiff] at h2
      omega
  have : d = -3 ∨ d = -2 ∨ d = -1 ∨ d = 0 ∨ d = 1 ∨ d = 2 ∨ d = 3 := by omega
  rcases this with h | h | h | h | h | h | h <;> subst h <;> decide

/-! ### witnesses of the two known findings -/

def cfgAsIs : Cfg := { area := { lat := 415000000, lon := 21000000, alt := 0, relDist := 4 }, areaFixed := false, gated := false }
def camObj : JVal := .dict (.cons "cam" (.dict (.cons "generationDeltaTime" (.int 1) .nil)) .nil)
def camObj2 : JVal := .dict (.cons "cam" (.dict (.cons "generationDeltaTime" (.int 2) .nil)) .nil)
def atLdm : Loc := { lat := 415000000, lon := 21000000, majC := 0, minC := 0, majO := 0, alt := 0, altC := 0,
                     radius := 0, relDist := 4, relDir := 0 }
def farAway : Loc := { atLdm with lat := 416000000 }
/-- inside the relevance distance (300 units away), 13 units above the LDM: kept by the code as it is
(13 XOR 2 = 15), outside the intended area (altitude band |Δalt| ≤ 3) -/
def nearKept : Loc := { atLdm with lat := 415000300, alt := 13 }
def unfiltered (app : Nat) (types : List Nat) : Request :=
  { app := app, types := types, prio := none, orderBad := false, order := none, filterBad := false, filter := none }
def listed : Spec.Out → Option (List Record)
  | .req (.ok rs) => some rs
  | _ => none
def camRec (l : Loc) : Record := { appId := 2, timestamp := 627084805000, loc := l, obj := camObj, validity := 1000 }

def areaWitness : List Op :=
  [.regProvider 2 [2], .regConsumer 2 [2], .add 2 627084805000 atLdm camObj 1000, .maintain, .request (unfiltered 2 [2])]

/-- C12-KF1: an object added at the LDM's own position is gone after one maintenance run (code as is), the intended
rule keeps it, and the repaired area test keeps it -/
theorem area_witness :
    (answers cfgAsIs 1700000000000 1000000 areaWitness).getLast?.bind listed = some []
    ∧ (refAnswers (intended cfgAsIs.area) 1700000000000 1000000 (areaWitness.map toSpec)).getLast?.bind listed = some [camRec atLdm]
    ∧ (answers { cfgAsIs with areaFixed := true } 1700000000000 1000000 areaWitness).getLast?.bind listed = some [camRec atLdm] := by
  decide

def gatingWitness : List Op :=
  [.regProvider 2 [2], .regConsumer 2 [2], .add 2 627084805000 farAway camObj 1000, .deregProvider 2, .delete 2 0,
   .request (unfiltered 2 [2])]

/-- C12-KF2: a delete issued by an application that is no longer a registered provider is carried out (code as is) -/
theorem gating_witness :
    (answers cfgAsIs 1700000000000 1000000 gatingWitness).getLast?.bind listed = some []
    ∧ (answers { cfgAsIs with gated := true } 1700000000000 1000000 gatingWitness).getLast?.bind listed = some [camRec farAway] := by
  decide

/-! ## 2. The clauses of the property, for the reference map, every history, every value of the parameters

`t` ranges over arbitrary reference states satisfying the invariant `Spec.Inv` (nothing stored at identifiers not
yet handed out), which holds initially and after every history (`inv_reachable`).  Section 3 carries each clause over
to the implementation model. -/

theorem inv_reachable (P : Spec.Params) (u m : Int) (ops : List Spec.Op) : Spec.Inv (Spec.run P (Spec.St.init u m) ops).1 :=
  spec_inv_run P ops _ (spec_inv_init u m)

/-- an unfiltered, unordered request of a registered consumer is either refused for a malformed field or answered with
exactly the stored objects of the requested types, in identifier order -/
theorem request_lists_stored (P : Spec.Params) (t : Spec.St) (q : Request) (hc : t.cons q.app = true)
    (hq : Spec.refusal true q = none) (hf : q.filter = none) (ho : q.order = none) :
    (Spec.step P t (.request q)).2 = .req (.ok ((Spec.listing t).filter (Spec.wanted q.types))) := by
  simp only [Spec.step, hc, hq, Spec.answer, hf, ho]

/-- an accepted add hands out the next identifier and stores the object as given, unless the maintenance pass of that
very call already finds its validity lapsed or its location outside what the area rule keeps -/
theorem add_stores (P : Spec.Params) (t : Spec.St) (app : Nat) (ts : Int) (loc : Loc) (obj : JVal) (validity : Int)
    (hp : t.prov app = true) :
    let r : Record := { appId := app, timestamp := ts, loc := loc, obj := obj, validity := validity }
    let t' := (Spec.step P t (.add app ts loc obj validity)).1
    (Spec.step P t (.add app ts loc obj validity)).2 = .id t.next ∧ t'.next = t.next + 1 ∧
      (t'.objs t.next = some r ∨ Spec.lapsed (Spec.nowIts t.utcMs) r = true ∨ P.drops loc = true) := by
  simp only [Spec.step, hp, Bool.not_true, Bool.false_eq_true, if_false]
  split
  · refine ⟨rfl, rfl, ?_⟩
    simp only [Spec.collect, Spec.setAt, if_true]
    cases e : Spec.lapsed (Spec.nowIts t.utcMs) { appId := app, timestamp := ts, loc := loc, obj := obj, validity := validity }
    · cases e2 : P.drops loc
      · left; simp
      · right; right; rfl
    · right; left; rfl
  · exact ⟨rfl, rfl, Or.inl (by simp [Spec.setAt])⟩

/-- **added is returned until deleted or expired, a successful update replaces only the content** (history form):
a stored object that the area rule keeps is returned by every later unfiltered request of a registered consumer for
its type, whatever happens in between (any operations on other objects, REFUSED updates / deletes aimed at it,
registrations, maintenance runs, clock advances), as long as no *successful* delete was aimed at it and its validity has
not lapsed at the time of the request - with the application id, timestamp, location and validity it was stored with
and the content of the last *successful* update aimed at it (`Spec.follow`). -/
theorem added_is_returned_until_deleted_or_expired (P : Spec.Params) (t : Spec.St) (i : Nat) (r : Record)
    (hi : t.objs i = some r) (hlt : i < t.next) (hk : P.drops r.loc = false) (ops : List Spec.Op)
    (r' : Record) (hfo : Spec.follow i (some r) ops (Spec.run P t ops).2 = some r')
    (q : Request) (hq : Spec.refusal true q = none) (hf : q.filter = none) (ho : q.order = none)
    (hty : Spec.wanted q.types r' = true) (hc : (Spec.run P t ops).1.cons q.app = true)
    (hne : Spec.lapsed (Spec.nowIts (Spec.run P t ops).1.utcMs) r = false) :
    (∃ rs, (Spec.step P (Spec.run P t ops).1 (.request q)).2 = .req (.ok rs) ∧ r' ∈ rs) ∧
      r'.appId = r.appId ∧ r'.timestamp = r.timestamp ∧ r'.loc = r.loc ∧ r'.validity = r.validity := by
  have hst := run_follows P ops t i r hi hlt hk hne
  rw [hfo] at hst
  refine ⟨⟨_, request_lists_stored P _ q hc hq hf ho, ?_⟩, follow_keeps_meta i ops _ r r' hfo⟩
  simp only [List.mem_filter, hty, and_true]
  exact (mem_listing _ r').mpr ⟨i, Nat.lt_of_lt_of_le hlt (spec_run_next_mono P ops t), hst⟩

/-- nothing else is returned: every object in an unfiltered answer is stored under some identifier and of a
requested type -/
theorem returned_is_stored (P : Spec.Params) (t : Spec.St) (q : Request) (hf : q.filter = none) (ho : q.order = none)
    (rs : List Record) (h : (Spec.step P t (.request q)).2 = .req (.ok rs)) (r : Record) (hr : r ∈ rs) :
    Spec.wanted q.types r = true ∧ ∃ i, i < t.next ∧ t.objs i = some r := by
  simp only [Spec.step, Spec.answer, hf, ho] at h
  split at h
  · cases h
  · injection h with h; injection h with h; subst h
    simp only [List.mem_filter] at hr
    exact ⟨hr.2, (mem_listing t r).mp hr.1⟩

/-- **a successful update replaces only the content** (one step): application id, timestamp, location and validity of
the object stay, every other object, both registries and the identifier counter are unchanged -/
theorem update_replaces_only_content (P : Spec.Params) (t : Spec.St) (app id : Nat) (obj : JVal)
    (h : (Spec.step P t (.update app id obj)).2 = .done) :
    ∃ r, t.objs id = some r ∧ (Spec.step P t (.update app id obj)).1.objs id = some { r with obj := obj } ∧
      (∀ j, j ≠ id → (Spec.step P t (.update app id obj)).1.objs j = t.objs j) ∧
      (Spec.step P t (.update app id obj)).1.prov = t.prov ∧ (Spec.step P t (.update app id obj)).1.cons = t.cons ∧
      (Spec.step P t (.update app id obj)).1.next = t.next := by
  simp only [Spec.step] at h ⊢
  split at h
  · cases h
  · next hg =>
    simp only [hg]
    cases hr : t.objs id with
    | none => simp [hr] at h
    | some r =>
      by_cases hty : Spec.typeOf r.obj = Spec.typeOf obj
      · refine ⟨r, rfl, ?_⟩
        simp only [hty, Spec.setAt, if_true, Bool.false_eq_true, if_false]
        exact ⟨trivial, fun j hj => by simp [hj], trivial, trivial, trivial⟩
      · simp [hr, hty] at h

/-- **deleted is never returned**: after a successful delete the identifier holds nothing, whatever follows;
by `returned_is_stored` no answer can contain it -/
theorem deleted_never_returned (P : Spec.Params) (t : Spec.St) (hinv : Spec.Inv t) (app id : Nat)
    (h : (Spec.step P t (.delete app id)).2 = .done) (ops : List Spec.Op) :
    (Spec.run P (Spec.step P t (.delete app id)).1 ops).1.objs id = none := by
  have hex : ∃ r, t.objs id = some r := by
    simp only [Spec.step] at h
    split at h
    · cases h
    · cases hr : t.objs id with
      | none => simp [hr] at h
      | some r => exact ⟨r, rfl⟩
  obtain ⟨r, hr⟩ := hex
  have hlt : id < t.next := by
    apply Classical.byContradiction
    intro hge
    rw [hinv id (by omega)] at hr
    cases hr
  apply none_stays P ops
  · simp only [Spec.step] at h ⊢
    split at h
    · cases h
    · next hg => simp [hg, hr, Spec.setAt]
  · exact Nat.lt_of_lt_of_le hlt (spec_step_next_mono P t _)

/-- **expired is never returned after maintenance has run past its expiry**, for every validity (0 s included: see
`lapsed_validity_zero`): a maintenance pass leaves no object whose validity has lapsed (nor one the area rule
discards), and an object it removed stays away -/
theorem expired_never_returned_after_gc (P : Spec.Params) (t : Spec.St) (hinv : Spec.Inv t) :
    (∀ i r, (Spec.step P t .maintain).1.objs i = some r →
        Spec.lapsed (Spec.nowIts t.utcMs) r = false ∧ P.drops r.loc = false) ∧
    (∀ i r, t.objs i = some r → Spec.lapsed (Spec.nowIts t.utcMs) r = true →
        ∀ ops, (Spec.run P (Spec.step P t .maintain).1 ops).1.objs i = none) := by
  constructor
  · intro i r h
    simp only [Spec.step, Spec.collect] at h
    split at h
    · next r' _ =>
      split at h
      · cases h
      · injection h with h; subst h; simp_all
    · cases h
  · intro i r hi he ops
    have hlt : i < t.next := by
      apply Classical.byContradiction
      intro hge
      rw [hinv i (by omega)] at hi
      cases hi
    apply none_stays P ops _ i _ (Nat.lt_of_lt_of_le hlt (spec_step_next_mono P t _))
    simp only [Spec.step, Spec.collect, hi, he, Bool.true_or, if_true]

/-- the same for the reactive pass inside an accepted add -/
theorem expired_never_returned_after_reactive_gc (P : Spec.Params) (t : Spec.St) (app : Nat) (ts : Int) (loc : Loc)
    (obj : JVal) (v : Int) (hp : t.prov app = true) (hg : P.reactive (t.monoMs - t.lastGc) = true) :
    ∀ i r, (Spec.step P t (.add app ts loc obj v)).1.objs i = some r →
        Spec.lapsed (Spec.nowIts t.utcMs) r = false ∧ P.drops r.loc = false := by
  intro i r h
  simp only [Spec.step, hp, hg, Bool.not_true, Bool.false_eq_true, if_false, if_true, Spec.collect] at h
  split at h
  · next r' _ =>
    split at h
    · cases h
    · injection h with h; subst h; simp_all
  · cases h

/-- **unregistered requests are refused without effect**: adds of unregistered providers and requests of unregistered
consumers for every value of the parameters; updates / deletes when the machine is gated (the code as it is: C12-KF2,
`gating_witness`) -/
theorem unregistered_refused_without_effect (P : Spec.Params) (t : Spec.St) (app : Nat) :
    (t.prov app = false →
      (∀ ts loc obj v, Spec.step P t (.add app ts loc obj v) = (t, .refused 1)) ∧
      (P.gated = true → (∀ id obj, Spec.step P t (.update app id obj) = (t, .refused 1)) ∧
                        (∀ id, Spec.step P t (.delete app id) = (t, .refused 1)))) ∧
    (t.cons app = false → ∀ q : Request, q.app = app → Spec.step P t (.request q) = (t, .req (.refused 1))) := by
  constructor
  · intro hp
    refine ⟨?_, fun hg => ⟨?_, ?_⟩⟩ <;> intros <;> simp [Spec.step, *]
  · intro hc q hq
    subst hq
    simp [Spec.step, hc, Spec.refusal]

/-- **identifiers are never reused**: the identifiers handed out along any history (whatever maintenance passes,
deletions or expiries empty the store in between) are strictly increasing -/
theorem ids_never_reused (P : Spec.Params) (ops : List Spec.Op) :
    ∀ t : Spec.St, (handedOut (Spec.run P t ops).2).Pairwise (· < ·) := by
  induction ops with
  | nil => intro t; simp [Spec.run, handedOut]
  | cons op ops ih =>
    intro t
    simp only [Spec.run]
    cases hop : (Spec.step P t op).2 with
    | id k =>
      simp only [handedOut, List.pairwise_cons]
      refine ⟨?_, ih _⟩
      intro n hn
      have hge := handedOut_ge P ops _ n hn
      have := id_out P t op k hop
      omega
    | _ => simp only [handedOut]; exact ih _

/-- **frame**: an update or delete aimed at one object changes no other object, no registration and not the
identifier counter; registrations, requests and clock advances change no object at all; and NO operation other than a
(de)registration changes any registration -/
theorem frame (P : Spec.Params) (t : Spec.St) (op : Spec.Op) :
    (∀ i j, op.targets i = true → j ≠ i → (Spec.step P t op).1.objs j = t.objs j) ∧
    (∀ i, op.targets i = true → (Spec.step P t op).1.next = t.next) ∧
    ((match op with | .add .. => False | .update .. => False | .delete .. => False | .maintain => False | _ => True) →
        (Spec.step P t op).1.objs = t.objs ∧ (Spec.step P t op).1.next = t.next) ∧
    ((match op with | .regProvider .. => False | .deregProvider .. => False | .regConsumer .. => False
                    | .deregConsumer .. => False | _ => True) →
        (Spec.step P t op).1.prov = t.prov ∧ (Spec.step P t op).1.cons = t.cons) := by
  cases op with
  | update app id obj =>
    refine ⟨?_, ?_, fun h => h.elim, fun _ => ?_⟩
    · intro i j hi hj
      simp only [Spec.Op.targets, beq_iff_eq] at hi; subst hi
      simp only [Spec.step]; repeat' split
      all_goals (first | rfl | simp [Spec.setAt, hj])
    · intro i _
      simp only [Spec.step]; repeat' split
      all_goals rfl
    · simp only [Spec.step]; repeat' split
      all_goals exact ⟨rfl, rfl⟩
  | delete app id =>
    refine ⟨?_, ?_, fun h => h.elim, fun _ => ?_⟩
    · intro i j hi hj
      simp only [Spec.Op.targets, beq_iff_eq] at hi; subst hi
      simp only [Spec.step]; repeat' split
      all_goals (first | rfl | simp [Spec.setAt, hj])
    · intro i _
      simp only [Spec.step]; repeat' split
      all_goals rfl
    · simp only [Spec.step]; repeat' split
      all_goals exact ⟨rfl, rfl⟩
  | add app ts loc obj validity =>
    refine ⟨fun i j h => by simp [Spec.Op.targets] at h, fun i h => by simp [Spec.Op.targets] at h, fun h => h.elim, fun _ => ?_⟩
    simp only [Spec.step]; repeat' split
    all_goals exact ⟨rfl, rfl⟩
  | maintain =>
    exact ⟨fun i j h => by simp [Spec.Op.targets] at h, fun i h => by simp [Spec.Op.targets] at h, fun h => h.elim,
      fun _ => ⟨rfl, rfl⟩⟩
  | regProvider app perms =>
    refine ⟨fun i j h => by simp [Spec.Op.targets] at h, fun i h => by simp [Spec.Op.targets] at h, fun _ => ?_, fun h => h.elim⟩
    simp only [Spec.step]; split <;> exact ⟨rfl, rfl⟩
  | deregProvider app =>
    refine ⟨fun i j h => by simp [Spec.Op.targets] at h, fun i h => by simp [Spec.Op.targets] at h, fun _ => ?_, fun h => h.elim⟩
    simp only [Spec.step]; split <;> exact ⟨rfl, rfl⟩
  | regConsumer app perms =>
    refine ⟨fun i j h => by simp [Spec.Op.targets] at h, fun i h => by simp [Spec.Op.targets] at h, fun _ => ?_, fun h => h.elim⟩
    simp only [Spec.step]; split <;> exact ⟨rfl, rfl⟩
  | deregConsumer app =>
    refine ⟨fun i j h => by simp [Spec.Op.targets] at h, fun i h => by simp [Spec.Op.targets] at h, fun _ => ?_, fun h => h.elim⟩
    simp only [Spec.step]; split <;> exact ⟨rfl, rfl⟩
  | request q =>
    exact ⟨fun i j h => by simp [Spec.Op.targets] at h, fun i h => by simp [Spec.Op.targets] at h, fun _ => ⟨rfl, rfl⟩,
      fun _ => ⟨rfl, rfl⟩⟩
  | advance ms =>
    exact ⟨fun i j h => by simp [Spec.Op.targets] at h, fun i h => by simp [Spec.Op.targets] at h, fun _ => ⟨rfl, rfl⟩,
      fun _ => ⟨rfl, rfl⟩⟩

/-- frame for registrations: registering / deregistering one application changes no other application's
registration and nothing in the other registry -/
theorem frame_registrations (P : Spec.Params) (t : Spec.St) (app a : Nat) (perms : List Nat) (ha : a ≠ app) :
    (Spec.step P t (.regProvider app perms)).1.prov a = t.prov a ∧ (Spec.step P t (.regProvider app perms)).1.cons = t.cons ∧
    (Spec.step P t (.deregProvider app)).1.prov a = t.prov a ∧ (Spec.step P t (.deregProvider app)).1.cons = t.cons ∧
    (Spec.step P t (.regConsumer app perms)).1.cons a = t.cons a ∧ (Spec.step P t (.regConsumer app perms)).1.prov = t.prov ∧
    (Spec.step P t (.deregConsumer app)).1.cons a = t.cons a ∧ (Spec.step P t (.deregConsumer app)).1.prov = t.prov := by
  simp only [Spec.step]
  refine ⟨?_, ?_, ?_, ?_, ?_, ?_, ?_, ?_⟩ <;> split <;> simp [Spec.setAt, ha]



/-! ## 3. The clauses carried over to the implementation model

`s` ranges over the states of the implementation model (`Store.lean`: row list, id counter, registry lists) reachable
by ANY history from ANY start clocks under ANY variant `cfg`.  The statements speak about the implementation's own
`step` / `run`, its answers, its rows (`lookup`), its registries and its identifier counter `db.next`: the quantities
the harness compares with the real facility after every operation (answer line + `state` line). -/

/-- **identifiers are never reused (implementation)**: along every history, for every variant, the identifiers the
implementation hands out are strictly increasing -/
theorem impl_ids_never_reused (cfg : Cfg) (u m : Int) (ops : List Op) :
    (handedOut (answers cfg u m ops)).Pairwise (· < ·) := by
  rw [ldm_refines_map]
  exact ids_never_reused _ _ _

/-- … and they come from the counter `db.next`, which no operation - in particular no maintenance pass, even one that
empties the store - ever decreases or resets -/
theorem impl_id_allocator (cfg : Cfg) (s : St) (op : Op) :
    s.db.next ≤ (step cfg s op).1.db.next ∧
    (∀ app ts loc obj v (n : Int), op = .add app ts loc obj v → (step cfg s op).2 = .code n → 0 ≤ n →
        n = s.db.next ∧ (step cfg s op).1.db.next = s.db.next + 1) ∧
    (op = .maintain → (step cfg s op).1.db.next = s.db.next) := by
  refine ⟨?_, ?_, ?_⟩
  · cases op <;> simp only [step] <;> (repeat' split) <;> (try simp only []) <;> omega
  · intro app ts loc obj v n hop ho hn
    subst hop
    cases hp : s.providers.contains app with
    | false =>
      simp only [step, hp, Bool.not_false, if_true] at ho
      injection ho with ho; omega
    | true =>
      by_cases hg : s.monoMs - s.lastGc ≥ trashIntervalMs
      · simp only [step, hp, hg, Bool.not_true, Bool.false_eq_true, if_false, if_true] at ho ⊢
        injection ho with ho; exact ⟨ho.symm, trivial⟩
      · simp only [step, hp, hg, Bool.not_true, Bool.false_eq_true, if_false] at ho ⊢
        injection ho with ho; exact ⟨ho.symm, trivial⟩
  · intro hop; subst hop; rfl

/-- **added is returned until deleted or expired; a successful update replaces only the content (implementation,
end to end)**: after ANY history `pre`, an add answered with identifier `i` at a location the variant's area rule
keeps, followed by ANY history `mid`; if following the implementation's ANSWERS to `mid` (`Spec.follow`: successful
deletes of `i` remove, successful updates of `i` replace the content, everything else - refused updates / deletes of
`i` included - is ignored) leaves `r'`, and the validity has not lapsed at the time of the request, then every
unfiltered, unordered request for its type that is answered at all contains `r'`, and `r'` carries the application
id, timestamp, location and validity of the add. -/
theorem impl_added_is_returned (cfg : Cfg) (u m : Int) (pre mid : List Op)
    (app : Nat) (ts : Int) (loc : Loc) (obj : JVal) (v : Int) (i : Nat) (q : Request) :
    let r : Record := { appId := app, timestamp := ts, loc := loc, obj := obj, validity := v }
    let s0 := (run cfg (St.init u m) pre).1
    let s1 := (step cfg s0 (.add app ts loc obj v)).1
    let s2 := (run cfg s1 mid).1
    (step cfg s0 (.add app ts loc obj v)).2 = .code i →
    areaDeletes cfg.areaFixed cfg.area loc = false →
    expired (nowIts s2.utcMs) r = false →
    ∀ r', Spec.follow i (some r) (mid.map toSpec) (List.zipWith absOut mid (run cfg s1 mid).2) = some r' →
    q.filter = none → q.order = none → typeSelected q.types r' = true →
    ∀ rs, (step cfg s2 (.request q)).2 = .req (.ok rs) →
      r' ∈ rs ∧ r'.appId = app ∧ r'.timestamp = ts ∧ r'.loc = loc ∧ r'.validity = v := by
  intro r s0 s1 s2 hid hk hne r' hfo hf ho hty rs hans
  obtain ⟨hr0, _⟩ := run_refines cfg pre _ _ (rel_init u m)
  generalize ht0 : (Spec.run (specOf cfg) (Spec.St.init u m) (pre.map toSpec)).1 = t0 at hr0
  obtain ⟨hr1, ho1⟩ := step_refines cfg s0 t0 (.add app ts loc obj v) hr0
  rw [hid] at ho1
  simp only [absOut, toSpec] at ho1
  have hi0 : (0 : Int) ≤ (i : Int) := Int.natCast_nonneg i
  rw [if_neg (by omega)] at ho1
  simp only [Int.toNat_natCast] at ho1
  obtain ⟨hin, hnext1⟩ := id_out _ t0 _ i ho1.symm
  obtain ⟨hr2, ho2⟩ := run_refines cfg mid s1 _ hr1
  -- the object is stored by the add
  have hutc01 : t0.utcMs ≤ s2.utcMs := by
    have a := spec_step_utc_mono (specOf cfg) t0 (toSpec (.add app ts loc obj v))
    have b := spec_run_utc_mono (specOf cfg) (mid.map toSpec) (Spec.step (specOf cfg) t0 (toSpec (.add app ts loc obj v))).1
    rw [← hr2.utc]
    exact Int.le_trans a b
  have hne2 : Spec.lapsed (Spec.nowIts s2.utcMs) r = false := by rw [agree_lapsed, agree_nowIts]; exact hne
  have hne0 : Spec.lapsed (Spec.nowIts t0.utcMs) r = false := by
    cases hx : Spec.lapsed (Spec.nowIts t0.utcMs) r with
    | false => rfl
    | true => rw [lapsed_mono _ _ r (spec_nowIts_mono _ _ hutc01) hx] at hne2; cases hne2
  have hprov : t0.prov app = true := by
    cases hp : t0.prov app with
    | true => rfl
    | false => simp [Spec.step, hp] at ho1
  have hst := add_stores (specOf cfg) t0 app ts loc obj v hprov
  simp only [toSpec] at hst hr1 hr2 ho2 hnext1
  have hstored : (Spec.step (specOf cfg) t0 (.add app ts loc obj v)).1.objs i = some r := by
    rw [hin]
    rcases hst.2.2 with h | h | h
    · exact h
    · rw [hne0] at h; cases h
    · simp only [specOf] at h; rw [hk] at h; cases h
  -- follow it through `mid`
  have hlt1 : i < (Spec.step (specOf cfg) t0 (.add app ts loc obj v)).1.next := by rw [hnext1]; omega
  have hfol := run_follows (specOf cfg) (mid.map toSpec) (Spec.step (specOf cfg) t0 (.add app ts loc obj v)).1 i r
    hstored hlt1 (by simp only [specOf]; exact hk) (by rw [hr2.utc]; exact hne2)
  rw [← ho2, hfo] at hfol
  -- the request
  obtain ⟨_, ho3⟩ := step_refines cfg s2 _ (.request q) hr2
  rw [hans] at ho3
  simp only [absOut, toSpec] at ho3
  have hmem := (follow_keeps_meta i _ _ r r' hfo)
  refine ⟨?_, hmem.1, hmem.2.1, hmem.2.2.1, hmem.2.2.2⟩
  simp only [Spec.step, Spec.answer, hf, ho] at ho3
  split at ho3
  · cases ho3
  · injection ho3 with ho3; injection ho3 with ho3
    rw [ho3]
    simp only [List.mem_filter, agree_wanted, hty, and_true]
    exact (mem_listing _ r').mpr ⟨i, Nat.lt_of_lt_of_le hlt1 (spec_run_next_mono _ _ _), hfol⟩

/-- `impl_added_is_returned` stated on the list of answers of ONE history `pre ++ add :: (mid ++ [request])` -/
theorem impl_added_is_returned_answers (cfg : Cfg) (u m : Int) (pre mid : List Op)
    (app : Nat) (ts : Int) (loc : Loc) (obj : JVal) (v : Int) (i : Nat) (q : Request)
    (aspre asmid : List Spec.Out) (rs : List Record)
    (hlp : aspre.length = pre.length) (hlm : asmid.length = mid.length)
    (hA : answers cfg u m (pre ++ .add app ts loc obj v :: (mid ++ [.request q]))
            = aspre ++ .id i :: (asmid ++ [.req (.ok rs)]))
    (hk : areaDeletes cfg.areaFixed cfg.area loc = false)
    (hne : expired (nowIts (run cfg (St.init u m) (pre ++ .add app ts loc obj v :: mid)).1.utcMs)
            { appId := app, timestamp := ts, loc := loc, obj := obj, validity := v } = false)
    (r' : Record)
    (hfo : Spec.follow i (some { appId := app, timestamp := ts, loc := loc, obj := obj, validity := v })
            (mid.map toSpec) asmid = some r')
    (hf : q.filter = none) (ho : q.order = none) (hty : typeSelected q.types r' = true) :
    r' ∈ rs ∧ r'.appId = app ∧ r'.timestamp = ts ∧ r'.loc = loc ∧ r'.validity = v := by
  -- split the run
  have e1 : pre ++ Op.add app ts loc obj v :: (mid ++ [Op.request q])
      = pre ++ ([Op.add app ts loc obj v] ++ (mid ++ [Op.request q])) := by simp
  unfold answers at hA
  rw [e1, run_append, run_append, run_append] at hA
  simp only at hA
  rw [List.zipWith_append (by rw [run_length])] at hA
  obtain ⟨_, hA2⟩ := List.append_inj hA (by simp [run_length, hlp])
  rw [List.zipWith_append (by rw [run_length])] at hA2
  simp only [run, List.zipWith_cons_cons, List.zipWith_nil_right, List.singleton_append, List.cons.injEq] at hA2
  obtain ⟨hid, hA3⟩ := hA2
  rw [List.zipWith_append (by rw [run_length])] at hA3
  obtain ⟨hmid, hreq⟩ := List.append_inj hA3 (by simp [run_length, hlm])
  simp only [List.zipWith_cons_cons, List.zipWith_nil_right, List.cons.injEq, and_true] at hreq
  have hid' := absOut_add_id _ _ _ _ _ _ _ hid
  have hreq' := absOut_request_ok _ _ _ hreq
  have e2 : pre ++ Op.add app ts loc obj v :: mid = pre ++ ([Op.add app ts loc obj v] ++ mid) := by simp
  rw [e2, run_append, run_append] at hne
  simp only [run] at hne
  exact impl_added_is_returned cfg u m pre mid app ts loc obj v i q hid' hk hne r' (by rw [hmid]; exact hfo) hf ho hty rs hreq'

/-- **nothing else is returned (implementation)**: every record in an answer to an unfiltered, unordered request is
of a requested type and stored in the rows under some identifier already handed out -/
theorem impl_returned_is_stored (cfg : Cfg) (s : St) (hs : Reach cfg s) (q : Request) (hf : q.filter = none)
    (ho : q.order = none) (rs : List Record) (h : (step cfg s (.request q)).2 = .req (.ok rs)) (r : Record) (hr : r ∈ rs) :
    typeSelected q.types r = true ∧ ∃ i, i < s.db.next ∧ lookup i s.db.rows = some r := by
  obtain ⟨t, hrel, _⟩ := reach_rel cfg s hs
  obtain ⟨_, ho3⟩ := step_refines cfg s t (.request q) hrel
  rw [h] at ho3
  simp only [absOut, toSpec] at ho3
  obtain ⟨h1, i, h2, h3⟩ := returned_is_stored (specOf cfg) t q hf ho rs ho3.symm r hr
  exact ⟨by rw [← agree_wanted]; exact h1, i, by rw [← hrel.next]; exact h2, by rw [← hrel.objs]; exact h3⟩

/-- **deleted is never returned (implementation)**: after a delete answered SUCCEED the rows hold nothing under that
identifier, whatever history follows -/
theorem impl_deleted_never_returned (cfg : Cfg) (s : St) (hs : Reach cfg s) (app id : Nat)
    (h : (step cfg s (.delete app id)).2 = .code 0) (post : List Op) :
    lookup id (run cfg (step cfg s (.delete app id)).1 post).1.db.rows = none := by
  obtain ⟨t, hrel, hinv⟩ := reach_rel cfg s hs
  obtain ⟨hr1, ho1⟩ := step_refines cfg s t (.delete app id) hrel
  rw [h] at ho1
  simp only [absOut, toSpec, if_true] at ho1 hr1
  obtain ⟨hr2, _⟩ := run_refines cfg post _ _ hr1
  rw [← hr2.objs]
  exact deleted_never_returned (specOf cfg) t hinv app id ho1.symm _

/-- **expired is never returned after maintenance has run past its expiry (implementation)**: after an explicit
maintenance pass, and after the reactive pass inside an add, no row is expired (validity 0 included) nor inside the
region the variant's area rule discards; and a row that was expired at the pass is gone for every later history -/
theorem impl_expired_never_returned_after_gc (cfg : Cfg) (s : St) (hs : Reach cfg s) :
    (∀ i r, lookup i (step cfg s .maintain).1.db.rows = some r →
        expired (nowIts s.utcMs) r = false ∧ areaDeletes cfg.areaFixed cfg.area r.loc = false) ∧
    (∀ i r, lookup i s.db.rows = some r → expired (nowIts s.utcMs) r = true →
        ∀ post, lookup i (run cfg (step cfg s .maintain).1 post).1.db.rows = none) ∧
    (∀ app ts loc obj v, s.providers.contains app = true → s.monoMs - s.lastGc ≥ trashIntervalMs →
        ∀ i r, lookup i (step cfg s (.add app ts loc obj v)).1.db.rows = some r →
          expired (nowIts s.utcMs) r = false ∧ areaDeletes cfg.areaFixed cfg.area r.loc = false) := by
  obtain ⟨t, hrel, hinv⟩ := reach_rel cfg s hs
  refine ⟨?_, ?_, ?_⟩
  · intro i r h
    obtain ⟨hr1, _⟩ := step_refines cfg s t .maintain hrel
    rw [← hr1.objs] at h
    have := (expired_never_returned_after_gc (specOf cfg) t hinv).1 i r h
    rw [agree_lapsed, agree_nowIts, hrel.utc] at this
    exact this
  · intro i r hi he post
    obtain ⟨hr1, _⟩ := step_refines cfg s t .maintain hrel
    obtain ⟨hr2, _⟩ := run_refines cfg post _ _ hr1
    rw [← hr2.objs]
    apply (expired_never_returned_after_gc (specOf cfg) t hinv).2 i r (by rw [hrel.objs]; exact hi)
    rw [agree_lapsed, agree_nowIts, hrel.utc]; exact he
  · intro app ts loc obj v hp hg i r h
    obtain ⟨hr1, _⟩ := step_refines cfg s t (.add app ts loc obj v) hrel
    rw [← hr1.objs] at h
    have := expired_never_returned_after_reactive_gc (specOf cfg) t app ts loc obj v (by rw [hrel.prov]; exact hp)
      (by simp only [specOf, hrel.mono, hrel.gc, decide_eq_true_eq]; exact hg) i r h
    rw [agree_lapsed, agree_nowIts, hrel.utc] at this
    exact this

/-- **unregistered requests are refused without effect (implementation)**: ANY state; adds and requests for every
variant, updates / deletes for the gated variant (the code as it is: C12-KF2, `gating_witness`) -/
theorem impl_unregistered_refused_without_effect (cfg : Cfg) (s : St) (app : Nat) :
    (s.providers.contains app = false →
      (∀ ts loc obj v, step cfg s (.add app ts loc obj v) = (s, .code (-1))) ∧
      (cfg.gated = true → (∀ id obj, step cfg s (.update app id obj) = (s, .code 1)) ∧
                          (∀ id, step cfg s (.delete app id) = (s, .code 1)))) ∧
    (s.consumers.contains app = false → ∀ q : Request, q.app = app → step cfg s (.request q) = (s, .req (.refused 1))) := by
  constructor
  · intro hp
    refine ⟨?_, fun hg => ⟨?_, ?_⟩⟩
    · intros; simp only [step, hp, Bool.not_false, if_true]
    · intros; simp only [step, hp, hg, Bool.not_false, Bool.and_self, if_true]
    · intros; simp only [step, hp, hg, Bool.not_false, Bool.and_self, if_true]
  · intro hc q hq
    subst hq
    simp only [step, if4Request, hc, requestRefusal, Bool.not_false, if_true]

/-- **frame (implementation)**: an update or delete aimed at one object changes no other row; and NO operation other
than a (de)registration changes either registry (ANY state - in particular no delete of an object whose identifier
happens to equal a registered ITS-AID), while a (de)registration changes no row, not the counter, nothing in the other
registry and no other application's entry -/
theorem impl_frame (cfg : Cfg) (s : St) (hs : Reach cfg s) (op : Op) :
    (∀ i j, (toSpec op).targets i = true → j ≠ i → lookup j (step cfg s op).1.db.rows = lookup j s.db.rows) ∧
    ((match op with | .regProvider .. => False | .deregProvider .. => False | .regConsumer .. => False
                    | .deregConsumer .. => False | _ => True) →
        (step cfg s op).1.providers = s.providers ∧ (step cfg s op).1.consumers = s.consumers) ∧
    ((match op with | .regProvider .. => True | .deregProvider .. => True | .regConsumer .. => True
                    | .deregConsumer .. => True | .request _ => True | .advance _ => True | _ => False) →
        (step cfg s op).1.db = s.db) := by
  obtain ⟨t, hrel, _⟩ := reach_rel cfg s hs
  refine ⟨?_, ?_, ?_⟩
  · intro i j hi hj
    obtain ⟨hr1, _⟩ := step_refines cfg s t op hrel
    rw [← hr1.objs, ← hrel.objs]
    exact (frame (specOf cfg) t (toSpec op)).1 i j hi hj
  · intro h
    cases op <;> simp only [step] at h ⊢ <;> (try exact h.elim) <;> (repeat' split) <;>
      (first | exact ⟨rfl, rfl⟩ | trivial | simp)
  · intro h
    cases op <;> simp only [step] at h ⊢ <;> (try exact h.elim) <;> (repeat' split) <;> (first | rfl | trivial | simp)

theorem impl_frame_registrations (cfg : Cfg) (s : St) (app a : Nat) (perms : List Nat) (ha : a ≠ app) :
    (step cfg s (.regProvider app perms)).1.providers.contains a = s.providers.contains a ∧
    (step cfg s (.regProvider app perms)).1.consumers = s.consumers ∧
    (step cfg s (.deregProvider app)).1.providers.contains a = s.providers.contains a ∧
    (step cfg s (.deregProvider app)).1.consumers = s.consumers ∧
    (step cfg s (.regConsumer app perms)).1.consumers.contains a = s.consumers.contains a ∧
    (step cfg s (.regConsumer app perms)).1.providers = s.providers ∧
    (step cfg s (.deregConsumer app)).1.consumers.contains a = s.consumers.contains a ∧
    (step cfg s (.deregConsumer app)).1.providers = s.providers := by
  simp only [step]
  refine ⟨?_, ?_, ?_, ?_, ?_, ?_, ?_, ?_⟩ <;> split <;>
    (first | rfl | (rw [contains_setAdd]; simp [ha]) | (rw [contains_setDiscard]; simp [ha]))

/-! ### non-vacuity: the hypotheses of the implications above are satisfiable by the code as it is, with an object
INSIDE the relevance distance of the area of maintenance -/

def outCode : Out → Option Int
  | .code n => some n
  | _ => none
def outListed : Out → Option (List Record)
  | .req (.ok rs) => some rs
  | _ => none

def denmObj : JVal := .dict (.cons "denm" (.dict .nil) .nil)
def hPre : List Op := [.regProvider 2 [2], .regProvider 16 [16], .regConsumer 2 [2, 16], .add 16 627084805000 farAway camObj 0]
def hMid : List Op :=
  [.update 2 1 camObj2, .update 2 1 denmObj, .delete 2 0, .delete 2 7, .advance 3000, .maintain,
   .add 2 627084808000 atLdm camObj 5]

/-- a history of the code as it is: an object added INSIDE the relevance distance (kept by `asIs`), updated, a refused update of it
(type mismatch), other objects deleted / expired (validity 0) / area-collected (C12-KF1), a maintenance pass: the request
returns it with the updated content -/
example :
    let s0 := (run cfgAsIs (St.init 1700000000000 1000000) hPre).1
    let s1 := (step cfgAsIs s0 (.add 2 627084805000 nearKept camObj 1000)).1
    let s2 := (run cfgAsIs s1 hMid).1
    outCode (step cfgAsIs s0 (.add 2 627084805000 nearKept camObj 1000)).2 = some 1
    ∧ areaDeletes cfgAsIs.areaFixed cfgAsIs.area nearKept = false
    ∧ expired (nowIts s2.utcMs) (camRec nearKept) = false
    ∧ Spec.follow 1 (some (camRec nearKept)) (hMid.map toSpec) (List.zipWith absOut hMid (run cfgAsIs s1 hMid).2)
        = some { camRec nearKept with obj := camObj2 }
    ∧ outListed (step cfgAsIs s2 (.request (unfiltered 2 [2]))).2 = some [{ camRec nearKept with obj := camObj2 }] := by
  decide

/-- non-vacuity on the reference side, parameters `intended`: objects inside the area, expiry of a validity-0 object,
an unrelated delete, a maintenance pass -/
example : (refAnswers (intended cfgAsIs.area) 1700000000000 1000000
    [.regProvider 2 [2], .regConsumer 2 [2], .add 2 627084805000 atLdm camObj 1000, .add 2 627084805000 nearKept camObj 0,
     .add 2 627084805000 farAway camObj 1000, .delete 2 7, .advance 2000, .maintain, .request (unfiltered 2 [2])]).getLast?.bind listed
      = some [camRec atLdm] := by
  decide

/-! ### Round 5: identifiers are independent whatever the provider re-uses

The models are value-semantic: a provider that sends the same request object again, or builds several requests around
one dictionary, performs - in the model - adds / updates with EQUAL content.  Equal content creates no link between
identifiers: `impl_frame` (any reachable state, any two identifiers) and `impl_added_is_returned` (any history in
between, equal adds and updates of other identifiers included) already say so; the corollary below states it in
the form the aliasing histories of the harness exercise, and `containers_are_unshared` ties the abstraction "every
identifier owns its record" to the two places of the source that could break it. -/

/-- **no operation on one object changes another, even one with equal content (implementation)**: in every reachable
state, for identifiers `j ≠ i` - in particular two identifiers holding EQUAL records, as after the same request was
added twice - an update (any content, any outcome) or a delete aimed at `i` leaves what is stored under `j` exactly
as it was; after a successful update of `i` the two differ exactly in the content. -/
theorem impl_equal_objects_independent (cfg : Cfg) (s : St) (hs : Reach cfg s) (i j : Nat) (hij : j ≠ i)
    (app : Nat) (obj : JVal) :
    lookup j (step cfg s (.update app i obj)).1.db.rows = lookup j s.db.rows ∧
    lookup j (step cfg s (.delete app i)).1.db.rows = lookup j s.db.rows :=
  ⟨(impl_frame cfg s hs (.update app i obj)).1 i j (by simp [toSpec, Spec.Op.targets]) hij,
   (impl_frame cfg s hs (.delete app i)).1 i j (by simp [toSpec, Spec.Op.targets]) hij⟩

/-- non-vacuity / the aliasing history of the harness in the model: the same add three times (identifiers 0, 1, 2
with equal records), update of 0, delete of 0, update of 2: the answers list 1 with the content it was added with
throughout -/
example :
    let ops : List Op := [.regProvider 2 [2], .regConsumer 2 [2], .add 2 627084805000 farAway camObj 1000,
      .add 2 627084805000 farAway camObj 1000, .add 2 627084805000 farAway camObj 1000,
      .update 2 0 camObj2, .request (unfiltered 2 [2]), .delete 2 0, .request (unfiltered 2 [2]),
      .update 2 2 camObj2, .maintain, .request (unfiltered 2 [2])]
    (answers cfgAsIs 1700000000000 1000000 ops).filterMap listed =
      [[{ camRec farAway with obj := camObj2 }, camRec farAway, camRec farAway],
       [camRec farAway, camRec farAway],
       [camRec farAway, { camRec farAway with obj := camObj2 }]] := by
  decide

/-- **regenerated structural obligation** (`harness/gen_ldm_alias.py`, an `ast` pass over the repository on every
run): the value semantics of `Store.lean` / `Spec.lean` (every identifier owns its record) is faithful to a store of
Python dictionaries only while no two identifiers can share one mutable container.  That rests on two facts of the
source: `AddDataProviderReq.to_dict` hands out a dictionary built by that very call and stores nothing outside its
own locals (no cache on the request, on the class or in a global), so every accepted add inserts a container nobody
else holds; and `LDMMaintenance.update_provider_data` writes into no container it fetched from the database but
passes a copy built in the call to `data_containers.update` (copy-on-write).  A change of either site re-opens this
obligation. -/
theorem containers_are_unshared :
    Generated.LdmAlias.toDictOutsideWrites = 0 ∧ Generated.LdmAlias.toDictReflective = 0 ∧
    Generated.LdmAlias.toDictDecorators = 0 ∧ Generated.LdmAlias.toDictReturnsFresh = true ∧
    1 ≤ Generated.LdmAlias.updateStoreCalls ∧ Generated.LdmAlias.updateWritesIntoFetched = 0 ∧
    Generated.LdmAlias.updatePassesFresh = true := by
  decide

end Props.C12

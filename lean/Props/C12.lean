/-
C12 — LDM behaves as a store of objects with registration gating and expiry.
Property theorems only.  Implementation model: FlexModel/Ldm/Store.lean (the repaired code, with the two known
findings as variants `areaFixed`, `gated`); reference map: FlexModel/Ldm/Spec.lean; lemmas: StoreLemmas.lean.

Shape: (1) refinement — for every history the answers of the implementation are the answers of the reference map;
(2) the clauses of the property, proved of the reference map for every history (they carry over to the
implementation's answers through (1)); (3) `_partial` / `_witness` for the two known findings.
-/
import FlexModel.Ldm.StoreLemmas

namespace Props.C12
open FlexModel.Ldm Generated.Ldm

/-- answers of the implementation to a history, read in the reference vocabulary -/
def answers (cfg : Cfg) (u m : Int) (ops : List Op) : List Spec.Out :=
  List.zipWith Spec.absOut ops (run cfg (St.init u m) ops).2

/-- answers of the reference map -/
def refAnswers (u m : Int) (ops : List Op) : List Spec.Out := (Spec.run (Spec.St.init u m) ops).2

/-! ## 1. Refinement -/

/-- For every history (any length, any ids, any clock advances) that stays inside `histSafe`, the implementation
answers exactly like the reference map. `histSafe` only constrains what the two known findings are about. -/
theorem ldm_refines_map (cfg : Cfg) (u m : Int) (ops : List Op) (hs : histSafe cfg (St.init u m) ops = true) :
    answers cfg u m ops = refAnswers u m ops :=
  (run_refines cfg ops _ _ (rel_init cfg u m) hs).2

/-- all `add` operations of a history place the object where the (repaired) area collection keeps it -/
def addsKept (cfg : Cfg) (ops : List Op) : Prop :=
  ∀ op ∈ ops, match op with
    | .add _ _ loc _ _ => areaDeletes cfg.areaFixed cfg.area loc = false
    | _ => True

theorem histSafe_of_gated (cfg : Cfg) (hg : cfg.gated = true) (ops : List Op) :
    ∀ s : St, addsKept cfg ops → histSafe cfg s ops = true := by
  induction ops with
  | nil => intro s _; rfl
  | cons op ops ih =>
    intro s h
    simp only [histSafe, Bool.and_eq_true]
    refine ⟨?_, ih _ (fun o ho => h o (List.mem_cons_of_mem _ ho))⟩
    have h0 := h op (by simp)
    cases op <;> simp_all [opSafe]

/-- Full strength, for the repaired variant (registration checked on update/delete, area test the right way
round): every history whose objects lie inside the area of maintenance. -/
theorem ldm_refines_map_repaired (area : Area) (u m : Int) (ops : List Op)
    (h : addsKept { area := area, areaFixed := true, gated := true } ops) :
    answers { area := area, areaFixed := true, gated := true } u m ops = refAnswers u m ops :=
  ldm_refines_map _ u m ops (histSafe_of_gated _ rfl ops _ h)

/-- The code as it is (`areaFixed = false`, `gated = false`): the property outside the two known regions —
no object is added inside the region the inverted area test deletes (C12-KF1), and update/delete are issued by
applications that are registered providers at that moment (C12-KF2).  `histSafe` is exactly that condition. -/
theorem ldm_refines_map_partial (area : Area) (u m : Int) (ops : List Op)
    (hs : histSafe { area := area, areaFixed := false, gated := false } (St.init u m) ops = true) :
    answers { area := area, areaFixed := false, gated := false } u m ops = refAnswers u m ops :=
  ldm_refines_map _ u m ops hs

/-! ### witnesses of the two known findings -/

def cfgAsIs : Cfg := { area := { lat := 415000000, lon := 21000000, alt := 0, relDist := 4 }, areaFixed := false, gated := false }
def camObj : JVal := .dict (.cons "cam" (.dict (.cons "generationDeltaTime" (.int 1) .nil)) .nil)
def atLdm : Loc := { lat := 415000000, lon := 21000000, majC := 0, minC := 0, majO := 0, alt := 0, altC := 0,
                     radius := 0, relDist := 4, relDir := 0 }
def farAway : Loc := { atLdm with lat := 416000000 }
def unfiltered (app : Nat) (types : List Nat) : Request :=
  { app := app, types := types, prio := none, orderBad := false, order := none, filterBad := false, filter := none }
def listed : Spec.Out → Option (List Record)
  | .req (.ok rs) => some rs
  | _ => none
def camRec (l : Loc) : Record := { appId := 2, timestamp := 627084805000, loc := l, obj := camObj, validity := 1000 }

def areaWitness : List Op :=
  [.regProvider 2 [2], .regConsumer 2 [2], .add 2 627084805000 atLdm camObj 1000, .maintain, .request (unfiltered 2 [2])]

/-- C12-KF1: an object added at the LDM's own position is gone after one maintenance run (code as is) … -/
theorem area_witness :
    (answers cfgAsIs 1700000000000 1000000 areaWitness).getLast?.bind listed = some []
    ∧ (refAnswers 1700000000000 1000000 areaWitness).getLast?.bind listed = some [camRec atLdm] := by
  decide

/-- … while the repaired area test keeps it -/
theorem area_witness_repaired :
    (answers { cfgAsIs with areaFixed := true } 1700000000000 1000000 areaWitness).getLast?.bind listed = some [camRec atLdm] := by
  decide

def gatingWitness : List Op :=
  [.regProvider 2 [2], .regConsumer 2 [2], .add 2 627084805000 farAway camObj 1000, .deregProvider 2, .delete 2 0,
   .request (unfiltered 2 [2])]

/-- C12-KF2: a delete issued by an application that is no longer a registered provider is carried out (code as is) -/
theorem gating_witness :
    (answers cfgAsIs 1700000000000 1000000 gatingWitness).getLast?.bind listed = some []
    ∧ (refAnswers 1700000000000 1000000 gatingWitness).getLast?.bind listed = some [camRec farAway]
    ∧ (answers { cfgAsIs with gated := true } 1700000000000 1000000 gatingWitness).getLast?.bind listed = some [camRec farAway] := by
  decide

/-- non-vacuity of the refinement hypothesis: a history with add, update, delete, maintenance and requests
inside `histSafe` for the code as it is -/
example : histSafe cfgAsIs (St.init 1700000000000 1000000)
    [.regProvider 2 [2], .regConsumer 2 [2], .add 2 627084805000 farAway camObj 1000, .update 2 0 camObj,
     .advance 2000, .maintain, .request (unfiltered 2 [2]), .delete 2 0] = true := by decide

/-! ## 2. The clauses of the property, for every history of the reference map

`t` ranges over arbitrary reference states satisfying the invariant `Spec.Inv` (nothing stored at identifiers not
yet handed out), which holds initially and after every history (`inv_reachable`).  Through `ldm_refines_map` the
answers below are the answers of the implementation. -/

theorem inv_reachable (u m : Int) (ops : List Op) : Spec.Inv (Spec.run (Spec.St.init u m) ops).1 := by
  suffices h : ∀ t : Spec.St, Spec.Inv t → Spec.Inv (Spec.run t ops).1 from h _ (spec_inv_init u m)
  induction ops with
  | nil => intro t h; exact h
  | cons op ops ih => intro t h; exact ih _ (spec_inv_step t op h)

/-- an unfiltered, unordered, valid request of a registered consumer is answered with exactly the stored objects of
the requested types, in identifier order -/
theorem request_lists_stored (t : Spec.St) (q : Request) (hc : t.cons q.app = true)
    (hq : requestRefusal true q = none) (hf : q.filter = none) (ho : q.order = none) :
    (Spec.step t (.request q)).2 = .req (.ok (typeSelect q.types (Spec.listing t))) := by
  simp only [Spec.step, hc, hq, serviceQuery, dictSearch, hf, ho]
  rfl

/-- an accepted add hands out the next identifier and stores the object as given (unless the reactive maintenance
run of that very call already finds its validity lapsed) -/
theorem add_stores (t : Spec.St) (app : Nat) (ts : Int) (loc : Loc) (obj : JVal) (validity : Int)
    (hp : t.prov app = true) :
    let r : Record := { appId := app, timestamp := ts, loc := loc, obj := obj, validity := validity }
    let t' := (Spec.step t (.add app ts loc obj validity)).1
    (Spec.step t (.add app ts loc obj validity)).2 = .id t.next ∧ t'.next = t.next + 1 ∧
      (t'.objs t.next = some r ∨ expired (nowIts t.utcMs) r = true) := by
  simp only [Spec.step, hp, Bool.not_true, Bool.false_eq_true, if_false]
  split
  · refine ⟨rfl, rfl, ?_⟩
    simp only [Spec.collect, Spec.setAt, if_true]
    by_cases e : expired (nowIts t.utcMs) { appId := app, timestamp := ts, loc := loc, obj := obj, validity := validity } = true
    · exact Or.inr e
    · left; simp [e]
  · exact ⟨rfl, rfl, Or.inl (by simp [Spec.setAt])⟩

/-- **added is returned until deleted or expired**: a stored object is returned, exactly as stored (application id,
timestamp, location, content, validity), by every later unfiltered request of a registered consumer for its type,
whatever happens in between (any number of operations on other objects, registrations, maintenance runs, clock
advances), as long as no update/delete is aimed at it and its validity has not lapsed at the time of the request. -/
theorem added_is_returned_until_deleted_or_expired (t : Spec.St) (i : Nat) (r : Record)
    (hi : t.objs i = some r) (hlt : i < t.next) (ops : List Op) (hnt : ∀ op ∈ ops, op.targets i = false)
    (q : Request) (hq : requestRefusal true q = none) (hf : q.filter = none) (ho : q.order = none)
    (hty : typeSelected q.types r = true) (hc : (Spec.run t ops).1.cons q.app = true)
    (hne : expired (nowIts (Spec.run t ops).1.utcMs) r = false) :
    ∃ rs, (Spec.step (Spec.run t ops).1 (.request q)).2 = .req (.ok rs) ∧ r ∈ rs := by
  refine ⟨_, request_lists_stored _ q hc hq hf ho, ?_⟩
  simp only [typeSelect, List.mem_filter, hty, and_true]
  exact (mem_listing _ r).mpr ⟨i, Nat.lt_of_lt_of_le hlt (by
    clear hi hnt hne hc
    induction ops generalizing t with
    | nil => exact Nat.le_refl _
    | cons op ops ih => exact Nat.le_trans (spec_step_next_mono t op) (ih _ (Nat.lt_of_lt_of_le hlt (spec_step_next_mono t op)))),
    run_keeps ops t i r hi hlt hnt hne⟩

/-- nothing else is returned: every object in an unfiltered answer is stored under some identifier and of a
requested type -/
theorem returned_is_stored (t : Spec.St) (q : Request) (hc : t.cons q.app = true)
    (hq : requestRefusal true q = none) (hf : q.filter = none) (ho : q.order = none) (rs : List Record)
    (h : (Spec.step t (.request q)).2 = .req (.ok rs)) (r : Record) (hr : r ∈ rs) :
    typeSelected q.types r = true ∧ ∃ i, i < t.next ∧ t.objs i = some r := by
  rw [request_lists_stored t q hc hq hf ho] at h
  injection h with h; injection h with h; subst h
  simp only [typeSelect, List.mem_filter] at hr
  exact ⟨hr.2, (mem_listing t r).mp hr.1⟩

/-- **a successful update replaces only the content**: application id, timestamp, location and validity of the
object stay, every other object, both registries and the identifier counter are unchanged -/
theorem update_replaces_only_content (t : Spec.St) (app id : Nat) (obj : JVal)
    (h : (Spec.step t (.update app id obj)).2 = .done) :
    ∃ r, t.objs id = some r ∧ (Spec.step t (.update app id obj)).1.objs id = some { r with obj := obj } ∧
      (∀ j, j ≠ id → (Spec.step t (.update app id obj)).1.objs j = t.objs j) ∧
      (Spec.step t (.update app id obj)).1.prov = t.prov ∧ (Spec.step t (.update app id obj)).1.cons = t.cons ∧
      (Spec.step t (.update app id obj)).1.next = t.next := by
  cases hp : t.prov app with
  | false => simp [Spec.step, hp] at h
  | true =>
    cases hr : t.objs id with
    | none => simp [Spec.step, hp, hr] at h
    | some r =>
      by_cases hty : objTypeName r.obj = objTypeName obj
      · refine ⟨r, rfl, ?_⟩
        simp only [Spec.step, hp, hr, hty, Spec.setAt, Bool.not_true, Bool.false_eq_true, if_false, if_true]
        exact ⟨trivial, fun j hj => by simp [hj], trivial, trivial, trivial⟩
      · simp [Spec.step, hp, hr, hty] at h

/-- **deleted is never returned**: after a successful delete the identifier holds nothing, whatever follows;
by `returned_is_stored` no answer can contain it -/
theorem deleted_never_returned (t : Spec.St) (hinv : Spec.Inv t) (app id : Nat)
    (h : (Spec.step t (.delete app id)).2 = .done) (ops : List Op) :
    (Spec.run (Spec.step t (.delete app id)).1 ops).1.objs id = none := by
  have hlt : id < t.next := by
    apply Classical.byContradiction
    intro hge
    have hn := hinv id (by omega)
    simp only [Spec.step, hn] at h
    split at h <;> cases h
  apply none_stays ops
  · cases hp : t.prov app with
    | false => simp [Spec.step, hp] at h
    | true =>
      cases hr : t.objs id with
      | none => simp [Spec.step, hp, hr]
      | some r => simp [Spec.step, hp, hr, Spec.setAt]
  · exact Nat.lt_of_lt_of_le hlt (spec_step_next_mono t _)

/-- **expired is never returned after maintenance has run past its expiry**: a maintenance run leaves no object
whose validity has lapsed, and an object it removed stays away -/
theorem expired_never_returned_after_gc (t : Spec.St) (hinv : Spec.Inv t) :
    (∀ i r, (Spec.step t .maintain).1.objs i = some r → expired (nowIts t.utcMs) r = false) ∧
    (∀ i r, t.objs i = some r → expired (nowIts t.utcMs) r = true →
        ∀ ops, (Spec.run (Spec.step t .maintain).1 ops).1.objs i = none) := by
  constructor
  · intro i r h
    simp only [Spec.step, Spec.collect] at h
    split at h
    · next r' _ =>
      split at h
      · cases h
      · injection h with h; subst h; simp_all
    · cases h
  · intro i r hi he ops
    have hlt : i < t.next := by
      apply Classical.byContradiction
      intro hge
      rw [hinv i (by omega)] at hi
      cases hi
    apply none_stays ops _ i _ (Nat.lt_of_lt_of_le hlt (spec_step_next_mono t _))
    simp only [Spec.step, Spec.collect, hi, he, if_true]

/-- **unregistered requests are refused without effect** -/
theorem unregistered_refused_without_effect (t : Spec.St) (app : Nat) :
    (t.prov app = false →
      (∀ ts loc obj v, Spec.step t (.add app ts loc obj v) = (t, .refused)) ∧
      (∀ id obj, Spec.step t (.update app id obj) = (t, .refused)) ∧
      (∀ id, Spec.step t (.delete app id) = (t, .refused))) ∧
    (t.cons app = false → ∀ q : Request, q.app = app → Spec.step t (.request q) = (t, .req (.refused 1))) := by
  constructor
  · intro hp
    refine ⟨?_, ?_, ?_⟩ <;> intros <;> simp [Spec.step, hp]
  · intro hc q hq
    subst hq
    simp [Spec.step, hc, requestRefusal]

/-- identifiers handed out by the accepted adds of a history -/
def handedOut : List Spec.Out → List Nat
  | [] => []
  | .id n :: t => n :: handedOut t
  | _ :: t => handedOut t

theorem handedOut_ge (ops : List Op) : ∀ (t : Spec.St), ∀ n ∈ handedOut (Spec.run t ops).2, t.next ≤ n := by
  induction ops with
  | nil => intro t n h; simp [Spec.run, handedOut] at h
  | cons op ops ih =>
    intro t n h
    simp only [Spec.run] at h
    have hmono := spec_step_next_mono t op
    have hrest : ∀ k ∈ handedOut (Spec.run (Spec.step t op).1 ops).2, t.next ≤ k :=
      fun k hk => Nat.le_trans hmono (ih _ k hk)
    cases hop : (Spec.step t op).2 with
    | id k =>
      rw [hop] at h
      simp only [handedOut, List.mem_cons] at h
      rcases h with h | h
      · subst h
        have := (id_out t op n hop).1
        omega
      · exact hrest n h
    | _ => rw [hop] at h; exact hrest n h

/-- **identifiers are never reused**: the identifiers handed out along any history are strictly increasing -/
theorem ids_never_reused (ops : List Op) : ∀ t : Spec.St, (handedOut (Spec.run t ops).2).Pairwise (· < ·) := by
  induction ops with
  | nil => intro t; simp [Spec.run, handedOut]
  | cons op ops ih =>
    intro t
    simp only [Spec.run]
    cases hop : (Spec.step t op).2 with
    | id k =>
      simp only [handedOut, List.pairwise_cons]
      refine ⟨?_, ih _⟩
      intro n hn
      have hge := handedOut_ge ops _ n hn
      have := id_out t op k hop
      omega
    | _ => simp only [handedOut]; exact ih _

/-- **frame**: an update or delete aimed at one object changes no other object, no registration and not the
identifier counter; registrations, requests and clock advances change no object at all -/
theorem frame (t : Spec.St) (op : Op) :
    (∀ i j, op.targets i = true → j ≠ i → (Spec.step t op).1.objs j = t.objs j) ∧
    (∀ i, op.targets i = true → (Spec.step t op).1.prov = t.prov ∧ (Spec.step t op).1.cons = t.cons ∧
        (Spec.step t op).1.next = t.next) ∧
    ((match op with | .add .. => False | .update .. => False | .delete .. => False | .maintain => False | _ => True) →
        (Spec.step t op).1.objs = t.objs ∧ (Spec.step t op).1.next = t.next) := by
  cases op with
  | update app id obj =>
    refine ⟨?_, ?_, fun h => h.elim⟩
    · intro i j hi hj
      simp only [Op.targets, beq_iff_eq] at hi; subst hi
      simp only [Spec.step]; repeat' split
      all_goals (first | rfl | simp [Spec.setAt, hj])
    · intro i _
      simp only [Spec.step]; repeat' split
      all_goals exact ⟨rfl, rfl, rfl⟩
  | delete app id =>
    refine ⟨?_, ?_, fun h => h.elim⟩
    · intro i j hi hj
      simp only [Op.targets, beq_iff_eq] at hi; subst hi
      simp only [Spec.step]; repeat' split
      all_goals (first | rfl | simp [Spec.setAt, hj])
    · intro i _
      simp only [Spec.step]; repeat' split
      all_goals exact ⟨rfl, rfl, rfl⟩
  | add app ts loc obj validity => exact ⟨fun i j h => by simp [Op.targets] at h, fun i h => by simp [Op.targets] at h, fun h => h.elim⟩
  | maintain => exact ⟨fun i j h => by simp [Op.targets] at h, fun i h => by simp [Op.targets] at h, fun h => h.elim⟩
  | regProvider app perms =>
    refine ⟨fun i j h => by simp [Op.targets] at h, fun i h => by simp [Op.targets] at h, fun _ => ?_⟩
    simp only [Spec.step]; split <;> exact ⟨rfl, rfl⟩
  | deregProvider app =>
    refine ⟨fun i j h => by simp [Op.targets] at h, fun i h => by simp [Op.targets] at h, fun _ => ?_⟩
    simp only [Spec.step]; split <;> exact ⟨rfl, rfl⟩
  | regConsumer app perms =>
    refine ⟨fun i j h => by simp [Op.targets] at h, fun i h => by simp [Op.targets] at h, fun _ => ?_⟩
    simp only [Spec.step]; split <;> exact ⟨rfl, rfl⟩
  | deregConsumer app =>
    refine ⟨fun i j h => by simp [Op.targets] at h, fun i h => by simp [Op.targets] at h, fun _ => ?_⟩
    simp only [Spec.step]; split <;> exact ⟨rfl, rfl⟩
  | request q => exact ⟨fun i j h => by simp [Op.targets] at h, fun i h => by simp [Op.targets] at h, fun _ => ⟨rfl, rfl⟩⟩
  | advance ms => exact ⟨fun i j h => by simp [Op.targets] at h, fun i h => by simp [Op.targets] at h, fun _ => ⟨rfl, rfl⟩⟩

/-- frame for registrations: registering / deregistering one application changes no other application's
registration and nothing in the other registry -/
theorem frame_registrations (t : Spec.St) (app a : Nat) (perms : List Nat) (ha : a ≠ app) :
    (Spec.step t (.regProvider app perms)).1.prov a = t.prov a ∧ (Spec.step t (.regProvider app perms)).1.cons = t.cons ∧
    (Spec.step t (.deregProvider app)).1.prov a = t.prov a ∧ (Spec.step t (.deregProvider app)).1.cons = t.cons ∧
    (Spec.step t (.regConsumer app perms)).1.cons a = t.cons a ∧ (Spec.step t (.regConsumer app perms)).1.prov = t.prov ∧
    (Spec.step t (.deregConsumer app)).1.cons a = t.cons a ∧ (Spec.step t (.deregConsumer app)).1.prov = t.prov := by
  simp only [Spec.step]
  refine ⟨?_, ?_, ?_, ?_, ?_, ?_, ?_, ?_⟩ <;> split <;> simp [Spec.setAt, ha]

/-- non-vacuity: a concrete history in which an object is added, survives an unrelated delete and a maintenance
run, and is returned -/
example : (refAnswers 1700000000000 1000000
    [.regProvider 2 [2], .regConsumer 2 [2], .add 2 627084805000 farAway camObj 1000, .add 2 627084805000 atLdm camObj 0,
     .delete 2 1, .advance 2000, .maintain, .request (unfiltered 2 [2])]).getLast?.bind listed = some [camRec farAway] := by
  decide

end Props.C12

import FlexModel.Net.NetDriver
def main : IO UInt32 := FlexModel.Proto.runDomain FlexModel.Net.netDomain

import FlexModel.Fac.MappingDriver
def main : IO UInt32 := FlexModel.Proto.runDomain FlexModel.Fac.Mapping.mapDomain

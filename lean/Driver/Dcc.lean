import FlexModel.Dcc.DccDriver
def main : IO UInt32 := FlexModel.Proto.runDomain FlexModel.Dcc.dccDomain

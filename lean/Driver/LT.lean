import FlexModel.Geo.LTDriver
def main : IO UInt32 := FlexModel.Proto.runDomain FlexModel.Geo.ltDomain

import FlexModel.Fac.VamTMDriver
def main : IO UInt32 := FlexModel.Proto.runDomain FlexModel.Fac.Vam.vamDomain

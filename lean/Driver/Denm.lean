import FlexModel.Fac.DenmDriver
def main : IO UInt32 := FlexModel.Proto.runDomain FlexModel.Fac.Denm.denmDomain

import FlexModel.Conc.RouterConcDriver
def main : IO UInt32 := FlexModel.Proto.runDomain FlexModel.Conc.Router.routerConcDomain

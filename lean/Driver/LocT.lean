import FlexModel.Geo.LocTDriver
def main : IO UInt32 := FlexModel.Proto.runDomain FlexModel.Geo.loctDomain

import FlexModel.Geo.RouterDriver
def main : IO UInt32 := FlexModel.Proto.runDomain FlexModel.Geo.routerDomain

import FlexModel.Fac.CamTMDriver
def main : IO UInt32 := FlexModel.Proto.runDomain FlexModel.Fac.Cam.camDomain

import FlexModel.Geo.RecvDriver
def main : IO UInt32 := FlexModel.Proto.runDomain FlexModel.Geo.Recv.recvDomain

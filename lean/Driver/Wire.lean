import FlexModel.Wire.Driver
def main : IO UInt32 := FlexModel.Proto.runDomain FlexModel.Wire.wireDomain

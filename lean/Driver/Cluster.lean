import FlexModel.Vru.ClusterDriver
def main : IO UInt32 := FlexModel.Proto.runDomain FlexModel.Vru.clusterDomain

import FlexModel.Ldm.LdmDriver
def main : IO UInt32 := FlexModel.Proto.runDomain FlexModel.Ldm.ldmDomain

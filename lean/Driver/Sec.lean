import FlexModel.Sec.SecDriver
def main : IO UInt32 := FlexModel.Proto.runDomain FlexModel.Sec.secDomain

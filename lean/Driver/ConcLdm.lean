import FlexModel.Conc.LdmConcDriver
def main : IO UInt32 := FlexModel.Proto.runDomain FlexModel.Conc.Ldm.ldmConcDomain

import FlexModel.Geo.AreaDriver
def main : IO UInt32 := FlexModel.Proto.runDomain FlexModel.Geo.Area.areaDomain

"""Facts of the security area regenerated from the source on every run (C09, C03, C05) -> lean/Generated/Sec.lean

* ReportVerify enum values (the model's `Report.code` must agree: theorem `Props.C03.report_codes_agree`)
* the CAM certificate-inclusion threshold: the literal in `current_time - last… > <c>` of set_up_signer, and its
  comparison operator (model: `now - lastFull > 1000` ms)
* the Duration -> microseconds table used by the validity guard of VerifyService (when present)
* the ITS-AID literals sign_request dispatches on (36 -> NotImplementedError, 37 -> sign_denm) and the DENM psid of verify
"""
from __future__ import annotations

import ast

import gen_lean
from gen_lean import register, write_if_changed, src


def _set_up_signer_threshold():
    tree = ast.parse(src("security/sign_service.py"))
    for fn in ast.walk(tree):
        if isinstance(fn, ast.FunctionDef) and fn.name == "set_up_signer":
            for n in ast.walk(fn):
                if isinstance(n, ast.Compare) and isinstance(n.left, ast.BinOp) and isinstance(n.left.op, ast.Sub) \
                        and isinstance(n.comparators[0], ast.Constant):
                    op = {ast.Gt: "gt", ast.GtE: "ge", ast.Lt: "lt", ast.LtE: "le"}.get(type(n.ops[0]), "other")
                    return n.comparators[0].value, op
    raise ValueError("set_up_signer: comparison `a - b > c` not found")


def _sign_request_dispatch():
    tree = ast.parse(src("security/sign_service.py"))
    out = []
    for fn in ast.walk(tree):
        if isinstance(fn, ast.FunctionDef) and fn.name == "sign_request":
            for n in ast.walk(fn):
                if isinstance(n, ast.Compare) and isinstance(n.comparators[0], ast.Constant) and isinstance(n.ops[0], ast.Eq):
                    out.append(int(n.comparators[0].value))
    return out


@register(props=["C09", "C03", "C05"])
def gen_sec():
    from flexstack.security.sn_sap import ReportVerify
    import flexstack.security.verify_service as vs
    body = "namespace Generated.Sec\n"
    body += "def reportCodes : List (String × Nat) := [" + ", ".join(f'("{r.name}", {r.value})' for r in ReportVerify) + "]\n"
    thr, op = _set_up_signer_threshold()
    body += f"def camCertIntervalMs : Nat := {int(round(float(thr) * 1000))}\n"
    body += f'def camCertIntervalOp : String := "{op}"\n'
    body += "def signRequestDispatch : List Nat := " + gen_lean.lean_nat_list(_sign_request_dispatch()) + "\n"
    table = getattr(vs, "_DURATION_MICROSECONDS", None)
    if table is not None:
        body += "def durationUs : List (String × Nat) := [" + ", ".join(f'("{k}", {v})' for k, v in table.items()) + "]\n"
    else:
        body += "def durationUs : List (String × Nat) := []\n"
    body += "end Generated.Sec\n"
    write_if_changed("Sec.lean", body)


# ------------------------------------------------------------------------------------------------ shared-state writes
#
# The Lean model of `VerifyService.verify` is a pure function of (station state, message): `Station.verifyMsg`.
# That is only faithful to the source if one call leaves nothing behind that another (possibly overlapping) call
# reads, other than the state the model carries in `Station` (the four library dictionaries and the P2PCD
# bookkeeping of the sign service).  The pass below lists, for every function the verification path can reach,
# every store to state that outlives the call; `Props.C03.reentrancy_matches_source` compares the list with the
# writes the model accounts for (`FlexModel.Sec.modelledWrites`) by `decide`.
#
# Nothing is imported or executed.  The analysis is syntactic and deliberately over-approximating where that is
# cheap (calls are resolved by method NAME over all analysed classes), and it is NOT complete: a store through an
# object reached in a way the pass does not follow (a local bound to a call result, `getattr` with a computed name,
# state kept inside asn1tools / ecdsa objects) is not seen -- the concurrency correspondence of harness/props/c03.py
# is the second line.

WRITE_FILES = ["security/verify_service.py", "security/certificate_library.py", "security/certificate.py",
               "security/sign_service.py", "security/ecdsa_backend.py"]
WRITE_ROOT = ("VerifyService", "verify")
MUTATORS = {"append", "extend", "insert", "pop", "popitem", "remove", "clear", "update", "setdefault", "add", "discard",
            "sort", "reverse", "appendleft", "popleft", "extendleft", "rotate", "difference_update",
            "intersection_update", "symmetric_difference_update", "__setitem__", "__delitem__", "__setattr__",
            "__delattr__", "__iadd__", "__ior__"}
SETATTR_FUNCS = {"setattr", "delattr"}


def _chain(node):
    """(root Name id, dotted attribute path, went-through-subscript/call?) of an expression like `a.b[c].d`, else None"""
    path = []
    while True:
        if isinstance(node, ast.Attribute):
            path.append(node.attr)
            node = node.value
        elif isinstance(node, ast.Subscript):
            path.append("[]")
            node = node.value
        elif isinstance(node, ast.Name):
            return node.id, tuple(reversed(path))
        elif isinstance(node, ast.Call) and isinstance(node.func, ast.Name) and node.func.id == "vars" \
                and len(node.args) == 1 and isinstance(node.args[0], ast.Name):
            path.append("__dict__")
            return node.args[0].id, tuple(reversed(path))
        else:
            return None


def _dotted(path):
    return ".".join(p for p in path if p != "[]") or "<self>"


class _FnWrites:
    """stores of ONE function that outlive the call: (kind, target) pairs

    kinds: set / aug / del (attribute of self, directly or through an alias / a chain `self.a.b`), setitem / delitem
    (subscript of such an attribute), mut:<method> (mutating container method on it), setattr (setattr/delattr/
    __setattr__ with self as object), ext-set / ext-del (attribute store on another object: parameter, local bound to
    something shared), global / global-setitem / global-mut:<m> (module state)"""

    def __init__(self, fn, is_method):
        self.fn = fn
        self.selfname = fn.args.args[0].arg if (is_method and fn.args.args) else None
        self.out = set()
        self.calls = set()
        self.alias = {}
        if self.selfname:
            self.alias[self.selfname] = ()
        params = {a.arg for a in fn.args.args + fn.args.kwonlyargs + fn.args.posonlyargs}
        if fn.args.vararg:
            params.add(fn.args.vararg.arg)
        if fn.args.kwarg:
            params.add(fn.args.kwarg.arg)
        self.locals = set(params)
        self.globals = set()
        for n in ast.walk(fn):
            if isinstance(n, ast.Name) and isinstance(n.ctx, (ast.Store, ast.Del)):
                self.locals.add(n.id)
            elif isinstance(n, (ast.Global, ast.Nonlocal)):
                self.globals |= set(n.names)
            elif isinstance(n, (ast.Import, ast.ImportFrom)):
                self.locals |= {(a.asname or a.name).split(".")[0] for a in n.names}
            elif isinstance(n, ast.ExceptHandler) and n.name:
                self.locals.add(n.name)
        self.locals -= self.globals
        # aliases of self / of attributes of self (fixpoint over simple `x = <chain rooted in an alias>` bindings)
        changed = True
        while changed:
            changed = False
            for n in ast.walk(fn):
                pairs = []
                if isinstance(n, ast.Assign):
                    pairs = [(t, n.value) for t in n.targets]
                elif isinstance(n, (ast.AnnAssign, ast.NamedExpr)) and n.value is not None:
                    pairs = [(n.target, n.value)]
                elif isinstance(n, ast.withitem) and n.optional_vars is not None:
                    pairs = [(n.optional_vars, n.context_expr)]
                for t, v in pairs:
                    # `a = b = self.x`: every Name target is an alias; the value may itself be a (walrus) assignment
                    while isinstance(v, ast.NamedExpr):
                        v = v.value
                    if isinstance(t, ast.Name):
                        c = _chain(v)
                        if c and c[0] in self.alias and t.id not in self.alias:
                            self.alias[t.id] = self.alias[c[0]] + c[1]
                            changed = True
        for n in ast.walk(fn):
            self._visit(n)

    # -- classification of one store target
    def _store(self, target, kind):
        if isinstance(target, (ast.Tuple, ast.List)):
            for e in target.elts:
                self._store(e, kind)
            return
        if isinstance(target, ast.Starred):
            self._store(target.value, kind)
            return
        if isinstance(target, ast.Name):
            if target.id in self.globals:
                self.out.add(("global", target.id))
            return
        c = _chain(target)
        if c is None:
            # store into the result of an arbitrary expression, e.g. `f().x = 1`: cannot be attributed
            self.out.add(("opaque-" + kind, ast.dump(target)[:40]))
            return
        root, path = c
        item = path[-1] == "[]"
        if root in self.alias:
            full = self.alias[root] + path
            owner = [p for p in full if p != "[]"]
            if not owner:
                # `alias[...] = v` where alias IS self: item store on the object itself
                self.out.add((("setitem" if kind != "del" else "delitem"), "<self>"))
                return
            k = {"set": "setitem", "aug": "setitem", "del": "delitem"}[kind] if item else kind
            self.out.add((k, _dotted(full)))
        elif root not in self.locals:
            k = {"set": "global-setitem", "aug": "global-setitem", "del": "global-delitem"}[kind] if item else "global-" + kind
            self.out.add((k, _dotted((root,) + path)))
        elif not item:
            # attribute of a parameter / local object (may be a shared object handed in or looked up)
            self.out.add(("ext-" + kind, path[-1]))

    def _visit(self, n):
        if isinstance(n, ast.Assign):
            for t in n.targets:
                self._store(t, "set")
        elif isinstance(n, ast.AnnAssign):
            if n.value is not None:
                self._store(n.target, "set")
        elif isinstance(n, ast.AugAssign):
            self._store(n.target, "aug")
        elif isinstance(n, ast.NamedExpr):
            self._store(n.target, "set")
        elif isinstance(n, ast.Delete):
            for t in n.targets:
                self._store(t, "del")
        elif isinstance(n, (ast.For, ast.AsyncFor, ast.comprehension)):
            self._store(n.target, "set")
        elif isinstance(n, ast.withitem):
            if n.optional_vars is not None:
                self._store(n.optional_vars, "set")
        elif isinstance(n, ast.Call):
            f = n.func
            if isinstance(f, ast.Name):
                self.calls.add(f.id)
                if f.id in SETATTR_FUNCS and n.args:
                    c = _chain(n.args[0])
                    if c and c[0] in self.alias:
                        name = n.args[1].value if len(n.args) > 1 and isinstance(n.args[1], ast.Constant) else "<computed>"
                        self.out.add(("setattr", _dotted(self.alias[c[0]] + c[1] + (str(name),))))
                    elif c and c[0] not in self.locals:
                        self.out.add(("global-setattr", _dotted((c[0],) + c[1])))
                    else:
                        self.out.add(("ext-setattr", "<object>"))
            elif isinstance(f, ast.Attribute):
                self.calls.add(f.attr)
                if f.attr in MUTATORS:
                    c = _chain(f.value)
                    if c and c[0] in self.alias:
                        full = self.alias[c[0]] + c[1]
                        if [p for p in full if p != "[]"] or f.attr.startswith("__"):
                            self.out.add(("mut:" + f.attr, _dotted(full)))
                    elif c and c[0] not in self.locals:
                        self.out.add(("global-mut:" + f.attr, _dotted((c[0],) + c[1])))
                    elif f.attr in ("__setattr__", "__delattr__") and n.args:
                        # object.__setattr__(self, "x", v)
                        a = _chain(n.args[0])
                        if a and a[0] in self.alias:
                            self.out.add(("setattr", _dotted(self.alias[a[0]] + a[1])))


def analyse_writes():
    """{(class, function): (sorted writes, called names)} for every function of WRITE_FILES, and the part reachable
    from VerifyService.verify (calls resolved by name over all analysed functions; `__init__` excluded: it writes to
    the fresh object only)"""
    fns = {}
    for path in WRITE_FILES:
        tree = ast.parse(src(path))
        for node in tree.body:
            if isinstance(node, ast.ClassDef):
                for m in node.body:
                    if isinstance(m, (ast.FunctionDef, ast.AsyncFunctionDef)):
                        static = any(isinstance(d, ast.Name) and d.id == "staticmethod" for d in m.decorator_list)
                        w = _FnWrites(m, not static)
                        fns[(node.name, m.name)] = (sorted(w.out), w.calls)
            elif isinstance(node, (ast.FunctionDef, ast.AsyncFunctionDef)):
                w = _FnWrites(node, False)
                fns[("<module>", node.name)] = (sorted(w.out), w.calls)
    by_name = {}
    for (cls, name) in fns:
        by_name.setdefault(name, []).append((cls, name))
    if WRITE_ROOT not in fns:
        raise ValueError("VerifyService.verify not found")
    seen, todo = set(), [WRITE_ROOT]
    while todo:
        k = todo.pop()
        if k in seen or k[1] == "__init__":
            continue
        seen.add(k)
        for called in fns[k][1]:
            todo += by_name.get(called, [])
    return fns, sorted(seen)


def _lean_str(s):
    return '"' + s.replace("\\", "\\\\").replace('"', '\\"') + '"'


@register(props=["C03", "C09"])
def gen_sec_writes():
    fns, reach = analyse_writes()
    rows = [(cls, fn, kind, tgt) for (cls, fn) in reach for (kind, tgt) in fns[(cls, fn)][0]]
    body = "namespace Generated.SecWrites\n"
    body += ("/-- every store that outlives the call, in the functions reachable from `VerifyService.verify`\n"
             "    (class, function, kind, target); sorted, duplicates removed -/\n")
    body += "def verifyPathWrites : List (String × String × String × String) := [\n  " + ",\n  ".join(
        "(" + ", ".join(_lean_str(x) for x in r) + ")" for r in rows) + "]\n"
    own = [(fn, kind, tgt) for (cls, fn, kind, tgt) in rows if cls in ("VerifyService", "<module>")]
    body += ("/-- … the part inside verify_service.py itself (VerifyService methods and module functions) -/\n")
    body += "def verifyServiceWrites : List (String × String × String) := [" + ", ".join(
        "(" + ", ".join(_lean_str(x) for x in r) + ")" for r in own) + "]\n"
    body += "/-- number of functions the pass reached (informative; not part of an obligation) -/\n"
    body += f"def reachedFunctions : Nat := {len(reach)}\n"
    body += "end Generated.SecWrites\n"
    write_if_changed("SecWrites.lean", body)


# ------------------------------------------------------------------------------------------------ receive-path structure
#
# Structural facts of the receive path that the model takes for granted (round 4):
#  * the router's gate (`process_basic_header` / `process_security_header`) decides on the packet, the MIB and the presence
#    of a verify service ONLY: the model's `gate cfg en hv S p` has no router state.  `gateStateReads` lists every
#    attribute chain rooted in `self` that is read inside a condition of the two functions (locals are not state: a
#    renamed local does not change the list); `rxWrites` every store of the two functions that outlives the call and
#    whether the same target is re-assigned in a `finally` clause of that function (a receive-context attribute that is
#    set on the way in must be reset on EVERY way out, exceptions included).
#  * `VerifyService` consults the certificate library through `libraryUses` only (model: `find st.ats`, `verifySeq1`;
#    in particular never `own_certificates`), and every `return SNVERIFYConfirm(report=ReportVerify.SUCCESS …)` is
#    lexically inside an `if` whose test depends on the result of `verify_with_pk` (`successSites`).

RX_FUNCS = ("process_basic_header", "process_security_header")


def _self_chains(node, selfname):
    """dotted attribute chains rooted in `self` read anywhere inside `node` (maximal chains only)"""
    out = set()
    inner = set()
    for n in ast.walk(node):
        if isinstance(n, ast.Attribute):
            c = _chain(n)
            if c and c[0] == selfname and c[1]:
                out.add(".".join(p for p in c[1] if p != "[]"))
                if isinstance(n.value, ast.Attribute):
                    ci = _chain(n.value)
                    if ci and ci[0] == selfname and ci[1]:
                        inner.add(".".join(p for p in ci[1] if p != "[]"))
    return out - inner


def analyse_rx():
    tree = ast.parse(src("geonet/router.py"))
    reads, writes = set(), []
    for cls in tree.body:
        if not (isinstance(cls, ast.ClassDef) and cls.name == "Router"):
            continue
        for fn in cls.body:
            if not (isinstance(fn, ast.FunctionDef) and fn.name in RX_FUNCS):
                continue
            selfname = fn.args.args[0].arg
            for n in ast.walk(fn):
                tests = []
                if isinstance(n, (ast.If, ast.IfExp, ast.While)):
                    tests.append(n.test)
                elif isinstance(n, ast.Assert):
                    tests.append(n.test)
                elif isinstance(n, ast.comprehension):
                    tests += n.ifs
                elif isinstance(n, ast.match_case) and n.guard is not None:
                    tests.append(n.guard)
                for t in tests:
                    reads |= _self_chains(t, selfname)
            w = _FnWrites(fn, True)
            finals = set()          # targets (dotted, rooted in self) assigned inside a `finally` body of this function
            for n in ast.walk(fn):
                if isinstance(n, ast.Try):
                    for st in n.finalbody:
                        for m in ast.walk(st):
                            tgs = m.targets if isinstance(m, (ast.Assign, ast.Delete)) else \
                                [m.target] if isinstance(m, (ast.AugAssign, ast.AnnAssign)) else []
                            for t in tgs:
                                c = _chain(t)
                                if c and c[0] == selfname and c[1]:
                                    finals.add(_dotted(c[1]))
            for kind, tgt in sorted(w.out):
                writes.append((fn.name, kind, tgt, tgt in finals))
    if not writes and not reads:
        raise ValueError("Router.process_basic_header / process_security_header not found")
    return sorted(reads), writes


def analyse_verify_shape():
    tree = ast.parse(src("security/verify_service.py"))
    uses, sites, psid_shape = set(), [], []
    for cls in tree.body:
        if not (isinstance(cls, ast.ClassDef) and cls.name == "VerifyService"):
            continue
        for fn in cls.body:
            if not isinstance(fn, ast.FunctionDef) or fn.name == "__init__":
                continue
            selfname = fn.args.args[0].arg
            lib_alias = set()
            for n in ast.walk(fn):
                if isinstance(n, ast.Assign) and isinstance(n.value, ast.Attribute):
                    c = _chain(n.value)
                    if c and c[0] == selfname and c[1] == ("certificate_library",):
                        lib_alias |= {t.id for t in n.targets if isinstance(t, ast.Name)}
            for n in ast.walk(fn):
                if isinstance(n, ast.Attribute):
                    c = _chain(n)
                    if c and c[0] == selfname and len(c[1]) >= 2 and c[1][0] == "certificate_library":
                        uses.add(c[1][1])
                    elif c and c[0] in lib_alias and c[1]:
                        uses.add(c[1][0])
                if isinstance(n, ast.Call) and isinstance(n.func, ast.Name) and n.func.id in ("getattr", "hasattr") \
                        and len(n.args) >= 2:
                    c = _chain(n.args[0])
                    if c and ((c[0] == selfname and c[1] == ("certificate_library",)) or (c[0] in lib_alias and not c[1])):
                        uses.add(n.args[1].value if isinstance(n.args[1], ast.Constant) else "<computed>")
            # names bound to the result of verify_with_pk (any receiver)
            sig_names = set()
            for n in ast.walk(fn):
                if isinstance(n, (ast.Assign, ast.AnnAssign, ast.NamedExpr)):
                    v = n.value
                    if v is not None and any(isinstance(k, ast.Call) and isinstance(k.func, ast.Attribute)
                                             and k.func.attr == "verify_with_pk" for k in ast.walk(v)):
                        tg = n.targets if isinstance(n, ast.Assign) else [n.target]
                        sig_names |= {t.id for t in tg if isinstance(t, ast.Name)}

            def depends_on_signature(test):
                for k in ast.walk(test):
                    if isinstance(k, ast.Name) and k.id in sig_names:
                        return True
                    if isinstance(k, ast.Call) and isinstance(k.func, ast.Attribute) and k.func.attr == "verify_with_pk":
                        return True
                return False

            def is_success_return(st):
                if not isinstance(st, ast.Return) or st.value is None:
                    return False
                for k in ast.walk(st.value):
                    if isinstance(k, ast.keyword) and k.arg == "report" and isinstance(k.value, ast.Attribute) \
                            and k.value.attr == "SUCCESS":
                        return True
                return False

            def walk(stmts, guarded):
                for st in stmts:
                    if is_success_return(st):
                        sites.append(guarded)
                    if isinstance(st, ast.If):
                        walk(st.body, guarded or depends_on_signature(st.test))
                        walk(st.orelse, guarded)
                    elif isinstance(st, (ast.For, ast.While, ast.With)):
                        walk(st.body, guarded)
                        walk(getattr(st, "orelse", []), guarded)
                    elif isinstance(st, ast.Try):
                        for blk in (st.body, st.orelse, st.finalbody):
                            walk(blk, guarded)
                        for h in st.handlers:
                            walk(h.body, guarded)
                    elif isinstance(st, ast.Match):
                        for cs in st.cases:
                            walk(cs.body, guarded)
            walk(fn.body, False)
    # shape of the ITS-AID guard, wherever in verify_service.py it lives (method or helper function):
    # `<psid name> not in [<entry>["psid"] for <entry> in <…permissions…>]` -- the ITS-AID compared with the PROJECTION
    # of the PsidSsp entries (an entry may carry an ssp component next to the psid)
    for n in ast.walk(tree):
        if isinstance(n, ast.Compare) and len(n.ops) == 1 and isinstance(n.ops[0], (ast.NotIn, ast.In)):
            cmp_ = n.comparators[0]
            names = {k.id for k in ast.walk(cmp_) if isinstance(k, ast.Name)}
            if not any("perm" in x.lower() for x in names):
                continue
            proj = isinstance(cmp_, (ast.ListComp, ast.SetComp, ast.GeneratorExp)) and isinstance(cmp_.elt, ast.Subscript) \
                and isinstance(cmp_.elt.slice, ast.Constant) and cmp_.elt.slice.value == "psid"
            left_scalar = isinstance(n.left, ast.Name)
            # (polarity -- `in` / `not in` -- is a matter of how the branch is written: not part of the fact)
            psid_shape.append("psid-vs-projection" if proj and left_scalar else "other")
    return sorted(uses), sites, sorted(psid_shape)


def analyse_learn_sites():
    """`CertificateLibrary.verify_sequence_of_certificates`: one entry per `return <name>` whose name is bound in the
    function to a certificate object built from the message (`Certificate.from_dict(...)`): is the statement immediately
    before it, in the same block, `self.add_authorization_ticket(<that name>)`?  (Lookups of already known tickets -
    `return self.known…[…]` -, the recursive call and `return None` are not entries.)  The model's `verifySeq1` returns the
    store WITH the ticket for every verify service, with or without a sign service wired in."""
    tree = ast.parse(src("security/certificate_library.py"))
    sites = []
    for cls in tree.body:
        if not (isinstance(cls, ast.ClassDef) and cls.name == "CertificateLibrary"):
            continue
        for fn in cls.body:
            if not (isinstance(fn, ast.FunctionDef) and fn.name == "verify_sequence_of_certificates"):
                continue
            selfname = fn.args.args[0].arg
            built = set()
            for n in ast.walk(fn):
                if isinstance(n, ast.Assign) and isinstance(n.value, ast.Call) and isinstance(n.value.func, ast.Attribute) \
                        and n.value.func.attr == "from_dict":
                    built |= {t.id for t in n.targets if isinstance(t, ast.Name)}

            def stores(st, name):
                if not (isinstance(st, ast.Expr) and isinstance(st.value, ast.Call)):
                    return False
                f = st.value.func
                return (isinstance(f, ast.Attribute) and f.attr == "add_authorization_ticket" and isinstance(f.value, ast.Name)
                        and f.value.id == selfname and len(st.value.args) == 1 and isinstance(st.value.args[0], ast.Name)
                        and st.value.args[0].id == name)
            for parent in ast.walk(fn):
                for field in ("body", "orelse", "finalbody"):
                    block = getattr(parent, field, None)
                    if not isinstance(block, list):
                        continue
                    for i, st in enumerate(block):
                        if isinstance(st, ast.Return) and isinstance(st.value, ast.Name) and st.value.id in built:
                            sites.append(i > 0 and stores(block[i - 1], st.value.id))
    return sites


def analyse_p2pcd_bookkeeping():
    """`SignService` (sign_service.py), the shape of the peer-to-peer certificate request bookkeeping the model takes as
    given: (1) one entry per statement `self.<list>.remove(<x>)`: is it the body of `if <x> in self.<list>:` (then
    `remove` never raises and is the model's total `List.erase`)?  (2) one entry per assignment to
    `…["inlineP2pcdRequest"]`: the source text of the assigned value (the model's `inlineField` is the WHOLE list
    `self.unknown_ats`: no slice, no filter, no bound on the number of entries)."""
    tree = ast.parse(src("security/sign_service.py"))
    guards, sources = [], []
    for cls in tree.body:
        if not (isinstance(cls, ast.ClassDef) and cls.name == "SignService"):
            continue
        for parent in ast.walk(cls):
            for field in ("body", "orelse", "finalbody"):
                block = getattr(parent, field, None)
                if not isinstance(block, list):
                    continue
                for st in block:
                    if isinstance(st, ast.Expr) and isinstance(st.value, ast.Call) and isinstance(st.value.func, ast.Attribute) \
                            and st.value.func.attr == "remove" and len(st.value.args) == 1:
                        lst, x = ast.unparse(st.value.func.value), ast.unparse(st.value.args[0])
                        ok = False
                        if isinstance(parent, ast.If) and field == "body" and isinstance(parent.test, ast.Compare) \
                                and len(parent.test.ops) == 1 and isinstance(parent.test.ops[0], ast.In):
                            ok = (ast.unparse(parent.test.left) == x and ast.unparse(parent.test.comparators[0]) == lst)
                        guards.append(ok)
                    if isinstance(st, ast.Assign):
                        for t in st.targets:
                            if isinstance(t, ast.Subscript) and isinstance(t.slice, ast.Constant) \
                                    and t.slice.value == "inlineP2pcdRequest":
                                sources.append(ast.unparse(st.value))
    return guards, sources


@register(props=["C05"])
def gen_router_rx_for_c05():
    """`Props.C05.source_operations_assemble_their_own_pdu` is discharged over `Generated/RouterRx.lean` (who calls
    `_forward_pdu`), regenerated by C06's ast pass (harness/gen_router.py): run it for C05 too, so that a source operation
    routed through the forwarders' helper re-opens C05's obligation."""
    import gen_router
    gen_router.gen_router_rx()


@register(props=["C03", "C05"])
def gen_sec_rx():
    reads, writes = analyse_rx()
    uses, sites, psid_shape = analyse_verify_shape()
    body = "namespace Generated.SecRx\n"
    body += ("/-- attribute chains rooted in `self` read inside a condition of Router.process_basic_header /\n"
             "    process_security_header (the router state the gate decides on) -/\n")
    body += "def gateStateReads : List String := [" + ", ".join(_lean_str(x) for x in reads) + "]\n"
    body += ("/-- stores of the two functions that outlive the call: (function, kind, target, re-assigned in a `finally`) -/\n")
    body += "def rxWrites : List (String × String × String × Bool) := [" + ", ".join(
        "(" + ", ".join([_lean_str(f), _lean_str(k), _lean_str(t), "true" if r else "false"]) + ")" for f, k, t, r in writes) + "]\n"
    body += "/-- attributes / methods of the certificate library VerifyService touches (outside __init__) -/\n"
    body += "def libraryUses : List String := [" + ", ".join(_lean_str(x) for x in uses) + "]\n"
    body += ("/-- one entry per `return SNVERIFYConfirm(report=ReportVerify.SUCCESS …)` of VerifyService: is it inside an `if`\n"
             "    whose test depends on the result of `verify_with_pk`? -/\n")
    body += "def successSites : List Bool := [" + ", ".join("true" if g else "false" for g in sites) + "]\n"
    body += "/-- shape of the membership tests against the ticket's appPermissions in VerifyService -/\n"
    body += "def psidGuardShape : List String := [" + ", ".join(_lean_str(x) for x in psid_shape) + "]\n"
    body += ("/-- one entry per `return <certificate object built from the message>` of\n"
             "    CertificateLibrary.verify_sequence_of_certificates: immediately preceded by `self.add_authorization_ticket(<it>)`? -/\n")
    body += "def learnSites : List Bool := [" + ", ".join("true" if g else "false" for g in analyse_learn_sites()) + "]\n"
    guards, sources = analyse_p2pcd_bookkeeping()
    body += ("/-- one entry per `self.<list>.remove(<x>)` of SignService: is it the body of `if <x> in self.<list>:`? -/\n")
    body += "def removeGuards : List Bool := [" + ", ".join("true" if g else "false" for g in guards) + "]\n"
    body += "/-- source text of every value assigned to `…[\"inlineP2pcdRequest\"]` in SignService -/\n"
    body += "def inlineRequestSource : List String := [" + ", ".join(_lean_str(x) for x in sources) + "]\n"
    body += "end Generated.SecRx\n"
    write_if_changed("SecRx.lean", body)

"""Facts of the security area regenerated from the source on every run (C09, C03, C05) -> lean/Generated/Sec.lean

* ReportVerify enum values (the model's `Report.code` must agree: theorem `Props.C03.report_codes_agree`)
* the CAM certificate-inclusion threshold: the literal in `current_time - last… > <c>` of set_up_signer, and its
  comparison operator (model: `now - lastFull > 1000` ms)
* the Duration -> microseconds table used by the validity guard of VerifyService (when present)
* the ITS-AID literals sign_request dispatches on (36 -> NotImplementedError, 37 -> sign_denm) and the DENM psid of verify
"""
from __future__ import annotations

import ast

import gen_lean
from gen_lean import register, write_if_changed, src


def _set_up_signer_threshold():
    tree = ast.parse(src("security/sign_service.py"))
    for fn in ast.walk(tree):
        if isinstance(fn, ast.FunctionDef) and fn.name == "set_up_signer":
            for n in ast.walk(fn):
                if isinstance(n, ast.Compare) and isinstance(n.left, ast.BinOp) and isinstance(n.left.op, ast.Sub) \
                        and isinstance(n.comparators[0], ast.Constant):
                    op = {ast.Gt: "gt", ast.GtE: "ge", ast.Lt: "lt", ast.LtE: "le"}.get(type(n.ops[0]), "other")
                    return n.comparators[0].value, op
    raise ValueError("set_up_signer: comparison `a - b > c` not found")


def _sign_request_dispatch():
    tree = ast.parse(src("security/sign_service.py"))
    out = []
    for fn in ast.walk(tree):
        if isinstance(fn, ast.FunctionDef) and fn.name == "sign_request":
            for n in ast.walk(fn):
                if isinstance(n, ast.Compare) and isinstance(n.comparators[0], ast.Constant) and isinstance(n.ops[0], ast.Eq):
                    out.append(int(n.comparators[0].value))
    return out


@register(props=["C09", "C03", "C05"])
def gen_sec():
    from flexstack.security.sn_sap import ReportVerify
    import flexstack.security.verify_service as vs
    body = "namespace Generated.Sec\n"
    body += "def reportCodes : List (String × Nat) := [" + ", ".join(f'("{r.name}", {r.value})' for r in ReportVerify) + "]\n"
    thr, op = _set_up_signer_threshold()
    body += f"def camCertIntervalMs : Nat := {int(round(float(thr) * 1000))}\n"
    body += f'def camCertIntervalOp : String := "{op}"\n'
    body += "def signRequestDispatch : List Nat := " + gen_lean.lean_nat_list(_sign_request_dispatch()) + "\n"
    table = getattr(vs, "_DURATION_MICROSECONDS", None)
    if table is not None:
        body += "def durationUs : List (String × Nat) := [" + ", ".join(f'("{k}", {v})' for k, v in table.items()) + "]\n"
    else:
        body += "def durationUs : List (String × Nat) := []\n"
    body += "end Generated.Sec\n"
    write_if_changed("Sec.lean", body)

#!/venv/bin/python
"""Run the registered quick checks against the seeded breaking changes in /verif/seeded/<id>/.

usage: seedtest.py [<seed-id> ...]      (default: all)
For each seed: `git -C /repo apply patch.diff`, run the property's quick check, `git -C /repo checkout -- .`.
Prints one line per seed: CAUGHT (exit 1 + VIOLATION line) / MISSED (exit 0) / ERROR (exit 2).
Never commits anything to /repo; refuses to run when /repo has local modifications.
"""
import json
import os
import subprocess
import sys
import time

VERIF = os.path.dirname(os.path.dirname(os.path.abspath(__file__)))
REPO = "/repo"


def sh(cmd, **kw):
    return subprocess.run(cmd, shell=True, capture_output=True, text=True, **kw)


def main():
    global REPO
    args = sys.argv[1:]
    scratch = None
    if "--inplace" in args:
        args.remove("--inplace")
        if sh(f"git -C {REPO} status --porcelain --untracked-files=no").stdout.strip():
            print("refusing: /repo has local modifications")
            return 2
    else:
        # default: a scratch worktree of /repo's HEAD (other processes may be using /repo itself); the checks are
        # pointed at it with FLEXSTACK_REPO.  `--inplace` applies to /repo as the brief describes.
        import tempfile
        scratch = tempfile.mkdtemp(prefix="seedwt_", dir="/tmp")
        os.rmdir(scratch)
        assert sh(f"git -C /repo worktree add -q --detach {scratch} HEAD").returncode == 0
        REPO = scratch
    try:
        return run(args)
    finally:
        if scratch:
            sh(f"git -C /repo worktree remove --force {scratch}")
            sh("git -C /repo worktree prune")


def run(args):
    seeds = [a for a in args] or sorted(d for d in os.listdir(os.path.join(VERIF, "seeded")) if os.path.isdir(os.path.join(VERIF, "seeded", d)))
    results = {}
    for sid in seeds:
        d = os.path.join(VERIF, "seeded", sid)
        meta = json.load(open(os.path.join(d, "meta.json")))
        props = meta.get("checked_by") or [meta["property"]]
        patch = os.path.join(d, "patch.diff")
        r = sh(f"git -C {REPO} apply {patch}")
        if r.returncode != 0:
            print(f"{sid}: patch does not apply: {r.stderr.strip()[:200]}")
            results[sid] = "NOAPPLY"
            continue
        try:
            for prop in props:
                t0 = time.time()
                r = sh(f"/venv/bin/python harness/vcheck.py {prop} --tier quick", cwd=VERIF,
                       env=dict(os.environ, VERIF_SEED=os.environ.get("VERIF_SEED", "1"), FLEXSTACK_REPO=REPO))
                viol = [l for l in r.stdout.split("\n") if l.startswith("VIOLATION")]
                verdict = "CAUGHT" if (r.returncode == 1 and viol) else ("MISSED" if r.returncode == 0 else f"ERROR rc={r.returncode}")
                nf = " (no-failing-input-found)" if viol and all("no-failing-input-found" in v for v in viol) else ""
                print(f"{sid}: {prop} {verdict}{nf} in {time.time() - t0:.0f}s :: {(viol or [''])[0][:160]}", flush=True)
                results[f"{sid}/{prop}"] = verdict + nf
        finally:
            sh(f"git -C {REPO} checkout -- .")
    allp = os.path.join(VERIF, "seeded", "RESULTS_ALL.json")
    merged = json.load(open(allp)) if os.path.exists(allp) else {}
    merged.update(results)
    json.dump(merged, open(allp, "w"), indent=1, sort_keys=True)
    return 0


if __name__ == "__main__":
    sys.exit(main())

"""Helpers to drive the real FlexStack code in-process: virtual clock, capturing link layer, router factory.
No repo hooks: everything is monkeypatching from outside (DESIGN §7)."""
from __future__ import annotations

import contextlib
import io
import os
import sys

import common  # noqa: F401  (puts /repo/src on sys.path)

from flexstack.geonet.gn_address import GNAddress, M, ST, MID
from flexstack.geonet.mib import MIB
from flexstack.geonet.router import Router
from flexstack.linklayer.link_layer import LinkLayer
from flexstack.utils.time_service import TimeService


class VClock:
    """virtual clock in integer milliseconds (UTC); installed as TimeService.time"""

    def __init__(self, ms=1_700_000_000_000):
        self.ms = ms
        self._orig = None

    def time(self):
        return self.ms / 1000.0

    def advance(self, ms):
        self.ms += ms

    def install(self):
        self._orig = TimeService.__dict__["time"]
        clock = self
        TimeService.time = staticmethod(lambda: clock.ms / 1000.0)
        return self

    def uninstall(self):
        if self._orig is not None:
            TimeService.time = self._orig
            self._orig = None

    def __enter__(self):
        return self.install()

    def __exit__(self, *a):
        self.uninstall()


class CaptureLL(LinkLayer):
    def __init__(self):
        super().__init__(lambda b: None)
        self.sent = []

    def send(self, packet: bytes) -> None:
        self.sent.append(bytes(packet))

    def take(self):
        s, self.sent = self.sent, []
        return s


def gn_addr(i: int, st=ST.PASSENGER_CAR, m=M.GN_UNICAST) -> GNAddress:
    return GNAddress(m=m, st=st, mid=MID(bytes([0x02, 0, 0, 0, (i >> 8) & 0xFF, i & 0xFF])))


def make_router(addr_i=1, **mibkw):
    """Router with a capturing link layer and an indication recorder.  Returns (router, ll, indications)"""
    mib = MIB(itsGnLocalGnAddr=gn_addr(addr_i), **mibkw)
    r = Router(mib)
    ll = CaptureLL()
    r.link_layer = ll
    inds = []
    r.register_indication_callback(inds.append)
    return r, ll, inds


@contextlib.contextmanager
def quiet():
    """the router print()s on every discard; keep check output readable"""
    import logging
    old = sys.stdout
    sys.stdout = io.StringIO()
    prev = logging.root.manager.disable
    logging.disable(logging.CRITICAL)
    try:
        yield
    finally:
        sys.stdout = old
        logging.disable(prev)

"""A deliberately small Python-AST → Lean 4 translator for integer functions (DESIGN §3.C).

Subset: a function whose body is made of assignments to local names, `if/elif/else`, `for` over a *literal*
tuple of tuples (unrolled), and `return` of an expression/tuple/constructor call; expressions over ints:
+ - * // % << >> & | (with literal right operand for shifts), comparisons, and/or/not, `min`/`max`/`int`,
enum members (`LTbase.X` → its integer value), `self.attr` (→ parameter `attr`), `self.attr.value`,
`(2**32)/2`-style constant expressions that evaluate to an integer.

The output is a total Lean definition over `Int` using `let` chains (one fresh name per assignment; an `if`
statement becomes one conditional `let` per variable assigned in it).  Floor division/modulo by a positive
literal are `/` and `%` on `Int` (Euclidean = floor for a positive divisor; the translator refuses any other
divisor).  Anything outside the subset raises `Unsupported` — the caller logs `extract-skipped` and the
property falls back on correspondence alone (never a violation by itself).
"""
from __future__ import annotations

import ast
import inspect
import textwrap


class Unsupported(Exception):
    pass


class Tr:
    def __init__(self, enums, ret_fields=None):
        self.enums = enums            # {"LTbase": {"FIFTY_MILLISECONDS": 0, ...}}
        self.ret_fields = ret_fields  # for `return Cls(a=.., b=..)`: ordered keyword names to emit as a tuple
        self.lets = []
        self.counter = {}

    # ------------------------------------------------------------------ expressions
    def const_eval(self, node):
        try:
            v = eval(compile(ast.Expression(node), "<c>", "eval"), {"__builtins__": {}}, {})
        except Exception:
            return None
        if isinstance(v, bool):
            return None
        if isinstance(v, int):
            return v
        if isinstance(v, float) and v == int(v):
            return int(v)
        return None

    def expr(self, n, env):
        c = self.const_eval(n) if not isinstance(n, ast.Name) else None
        if c is not None:
            return f"({c} : Int)"
        if isinstance(n, ast.Constant):
            if isinstance(n.value, bool):
                return "True" if n.value else "False"
            raise Unsupported(f"constant {n.value!r}")
        if isinstance(n, ast.Name):
            if n.id in env:
                return env[n.id]
            raise Unsupported(f"unknown name {n.id}")
        if isinstance(n, ast.Attribute):
            # self.x / self.x.value / other.x / Enum.MEMBER / Enum.MEMBER.value
            if isinstance(n.value, ast.Name) and n.value.id in ("self", "__o", "other"):
                key = ("o_" if n.value.id != "self" else "") + n.attr
                if key in env:
                    return env[key]
                raise Unsupported(f"unknown attribute {n.value.id}.{n.attr}")
            if n.attr == "value":
                return self.expr(n.value, env)
            if isinstance(n.value, ast.Name) and n.value.id in self.enums:
                return f"({self.enums[n.value.id][n.attr]} : Int)"
            raise Unsupported(ast.dump(n))
        if isinstance(n, ast.BinOp):
            a, b = self.expr(n.left, env), self.expr(n.right, env)
            op = type(n.op)
            if op in (ast.Add, ast.Sub, ast.Mult):
                return f"({a} {'+' if op is ast.Add else '-' if op is ast.Sub else '*'} {b})"
            rc = self.const_eval(n.right)
            if rc is None:
                import re as _re
                m = _re.fullmatch(r"\((\d+) : Int\)", b)   # a name bound to a literal (unrolled loop variable)
                if m:
                    rc = int(m.group(1))
            if op in (ast.FloorDiv, ast.Mod):
                if rc is None or rc <= 0:
                    raise Unsupported("// or % by a non-literal / non-positive divisor")
                return f"({a} {'/' if op is ast.FloorDiv else '%'} {b})"
            if op in (ast.LShift, ast.RShift):
                if rc is None or rc < 0:
                    raise Unsupported("shift by non-literal")
                return f"({a} * {2 ** rc})" if op is ast.LShift else f"({a} / {2 ** rc})"
            if op is ast.BitAnd and rc is not None and rc >= 0 and (rc + 1) & rc == 0:
                return f"({a} % {rc + 1})"
            raise Unsupported(f"operator {op.__name__}")
        if isinstance(n, ast.Compare) and len(n.ops) == 1:
            a, b = self.expr(n.left, env), self.expr(n.comparators[0], env)
            sym = {ast.Lt: "<", ast.LtE: "≤", ast.Gt: ">", ast.GtE: "≥", ast.Eq: "=", ast.NotEq: "≠"}.get(type(n.ops[0]))
            if sym is None:
                raise Unsupported("comparison")
            return f"({a} {sym} {b})"
        if isinstance(n, ast.BoolOp):
            parts = [self.expr(v, env) for v in n.values]
            return "(" + (" ∧ " if isinstance(n.op, ast.And) else " ∨ ").join(parts) + ")"
        if isinstance(n, ast.UnaryOp) and isinstance(n.op, ast.Not):
            return f"(¬ {self.expr(n.operand, env)})"
        if isinstance(n, ast.UnaryOp) and isinstance(n.op, ast.USub):
            return f"(- {self.expr(n.operand, env)})"
        if isinstance(n, ast.IfExp):
            return f"(if {self.expr(n.test, env)} then {self.expr(n.body, env)} else {self.expr(n.orelse, env)})"
        if isinstance(n, ast.Call) and isinstance(n.func, ast.Name):
            f = n.func.id
            args = [self.expr(a, env) for a in n.args]
            if f in ("min", "max") and len(args) == 2:
                return f"({f} {args[0]} {args[1]})"
            if f == "int" and len(args) == 1:
                return args[0]
            if f == "isinstance":
                return "True"
            if self.ret_fields and n.keywords:
                kw = {k.arg: self.expr(k.value, env) for k in n.keywords}
                return "(" + ", ".join(kw[k] for k in self.ret_fields) + ")"
            raise Unsupported(f"call {f}")
        if isinstance(n, ast.Tuple):
            return "(" + ", ".join(self.expr(e, env) for e in n.elts) + ")"
        raise Unsupported(ast.dump(n)[:80])

    # ------------------------------------------------------------------ statements
    def fresh(self, name):
        k = self.counter.get(name, 0) + 1
        self.counter[name] = k
        return f"{name}_{k}"

    def assign(self, name, rhs, env):
        v = self.fresh(name)
        self.lets.append(f"let {v} := {rhs}")
        env[name] = v

    def block(self, stmts, env):
        """returns the Lean expression of a `return` reached unconditionally at the end of the block, or None"""
        for i, s in enumerate(stmts):
            if isinstance(s, ast.Expr) and isinstance(s.value, ast.Constant):
                continue  # docstring
            if isinstance(s, ast.Assign) and len(s.targets) == 1 and isinstance(s.targets[0], ast.Name):
                self.assign(s.targets[0].id, self.expr(s.value, env), env)
            elif isinstance(s, ast.AugAssign) and isinstance(s.target, ast.Name):
                self.assign(s.target.id, self.expr(ast.BinOp(ast.Name(s.target.id, ast.Load()), s.op, s.value), env), env)
            elif isinstance(s, ast.Return):
                return self.expr(s.value, env)
            elif isinstance(s, ast.If):
                cond = self.expr(s.test, env)
                e1, e2 = dict(env), dict(env)
                t1, t2 = Tr(self.enums, self.ret_fields), Tr(self.enums, self.ret_fields)
                t1.counter = t2.counter = self.counter
                r1 = t1.block(s.body, e1)
                r2 = t2.block(s.orelse, e2) if s.orelse else None
                if r1 is not None or r2 is not None:
                    # early return(s): the rest of the block is the else-continuation
                    rest = stmts[i + 1:]
                    if r1 is None:
                        r1 = t1.block(rest, e1)
                    if r2 is None:
                        r2 = t2.block(rest, e2)
                    if r1 is None or r2 is None:
                        raise Unsupported("branch without return")
                    return f"(if {cond} then ({self.wrap(t1.lets, r1)}) else ({self.wrap(t2.lets, r2)}))"
                changed = sorted(k for k in set(e1) | set(e2) if e1.get(k) != env.get(k) or e2.get(k) != env.get(k))
                changed = [k for k in changed if k in e1 and k in e2]   # others are branch-local
                if len(changed) == 1:
                    k = changed[0]
                    self.assign(k, f"(if {cond} then ({self.wrap(t1.lets, e1[k])}) else ({self.wrap(t2.lets, e2[k])}))", env)
                elif changed:
                    tup1 = "(" + ", ".join(e1[k] for k in changed) + ")"
                    tup2 = "(" + ", ".join(e2[k] for k in changed) + ")"
                    t = self.fresh("t")
                    self.lets.append(f"let {t} := (if {cond} then ({self.wrap(t1.lets, tup1)}) else ({self.wrap(t2.lets, tup2)}))")
                    for idx, k in enumerate(changed):
                        proj = t + ".2" * idx + (".1" if idx < len(changed) - 1 else "")
                        self.assign(k, proj, env)
            elif isinstance(s, ast.For) and isinstance(s.iter, ast.Tuple):
                for item in s.iter.elts:
                    if isinstance(s.target, ast.Tuple) and isinstance(item, ast.Tuple):
                        for t, v in zip(s.target.elts, item.elts):
                            env[t.id] = self.expr(v, env)
                    elif isinstance(s.target, ast.Name):
                        env[s.target.id] = self.expr(item, env)
                    else:
                        raise Unsupported("for target")
                    if self.block(s.body, env) is not None:
                        raise Unsupported("return inside for")
            elif isinstance(s, ast.Pass):
                continue
            else:
                raise Unsupported(type(s).__name__)
        return None

    @staticmethod
    def wrap(lets, result):
        return "; ".join(lets + [result]) if lets else result


def translate(func, lean_name, params, enums=None, ret_fields=None, ty="Int"):
    """func: Python function object; params: ordered {lean parameter name: python spelling} where the python
    spelling is a local/argument name or `self.attr` (given as 'attr').  Returns Lean source of the definition."""
    src = textwrap.dedent(inspect.getsource(func))
    tree = ast.parse(src).body[0]
    tr = Tr(enums or {}, ret_fields)
    env = {p: p for p in params}
    result = tr.block(tree.body, env)
    if result is None:
        raise Unsupported("no return")
    args = " ".join(f"({p} : {ty})" for p in params)
    body = "\n  ".join(tr.lets + [result])
    text = f"def {lean_name} {args} :=\n  {body}\n"
    if ty == "Nat":
        # every value is known to be non-negative (caller's assertion, e.g. header fields): same text over Nat.
        # Truncated subtraction would differ from Python, so `-` is refused in this mode.
        if " - " in text or "(- " in text:
            raise Unsupported("subtraction in Nat mode")
        text = text.replace(" : Int)", " : Nat)")
    return text

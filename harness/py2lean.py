"""A deliberately small, typed Python-AST -> Lean 4 translator for integer / bit-level / octet-string functions
(DESIGN section 3.C).  Anything outside the subset raises `Unsupported`: the caller logs `extract-skipped` and the
property falls back on correspondence alone (never a violation by itself).

VALUES AND THEIR LEAN REPRESENTATION (one representation each, shared with the hand models' primitives)
  Nat    a Python int the *caller asserts* non-negative (parameter types are part of the job description and are
         exactly the quantifier domain of the bridge lemma) or that is non-negative by construction
         (literal >= 0, `int.from_bytes`, `x & mask`, `x % k` with k > 0, `len`, Nat op Nat for + * // % << >> & | ^).
  Int    any other Python int (every subtraction, unary minus, negative literals, signed `from_bytes`).
         Nat is coerced to Int where the two meet; Int is never narrowed to Nat except by `& (2^k-1)` / `% k`.
  Bool   Python bool.  In arithmetic it is `b2n b` (0/1); `bool(x)` of an int is `x != 0`; truthiness of an int in a
         condition is `x ≠ 0`.  `and`/`or`/`not` are accepted on Bool-typed operands only (otherwise Python returns
         an operand, not a bool).  Comparisons are emitted as decidable `Prop`s inside `if` and as `decide p` as values.
  enum   a member of a Python `Enum` with int values = its value (Nat).  `E.M` -> literal, `x.value` -> x,
         `E(v)` -> `enumOf [codes regenerated from the enum] v : Except Err Nat` (ValueError on an unknown code; never
         totalised).  `==` between enum values is accepted only for the same enum class (Python compares identity).
  Bytes  `bytes` = `FlexModel.Wire.Bytes` = `List Nat` (octets; well-formedness `∀ b ∈ l, b < 256` is a hypothesis of
         a bridge lemma where needed).  `a + b` -> `++`, `len` -> `.length`, `b[i:j]` (literal bounds 0<=i<=j) ->
         `slice b i j`, `b[i:]` -> `b.drop i`, `b[k]` (literal k) -> `b.getD k 0` ONLY when the translator has
         established `k < len(b)` (see "length facts"), `int.from_bytes(b, "big"[, signed=True])` ->
         `fromBytesBE` / `fromBytesSigned`, `x.to_bytes(n, "big"[, signed=True])` -> `toBytes? n x` /
         `intToBytes? n x` / `intToBytesSigned? n x : Except Err Bytes` (OverflowError kept), bytes literals.
  record a (data)class instance = the tuple of its leaf fields, flattened in declared order (nested records are
         flattened in place).  As a parameter (`self`, `other`) it is one Lean parameter per leaf
         (`lt_multiplier`); as a result it is a right-nested Lean tuple.  `self.f`, `C(f=..)`, `cls(f=..)` are
         resolved symbolically; omitted constructor arguments take the dataclass defaults when these are plain
         ints/bools/enum members/default-constructed records; a `__post_init__` is inlined (it must vanish by
         constant folding, e.g. `len(mid) != 6` on a slice of known length, or translate to a supported `raise`).
         The declared field list is checked against `dataclasses.fields` at generation time.
  errors `raise DecodeError/ValueError/OverflowError(..)` -> `Except.error Err.decode/.value/.overflow`; any other
         exception class is refused.  A function containing a raising construct is emitted in the `Except Err`
         monad (`do`-notation); raising sub-expressions are bound (`let t ← ..`) in Python's evaluation order
         (left to right, arguments before the call) and are refused in lazily evaluated positions (branches of a
         conditional expression, right operands of and/or).

STATEMENTS  assignment to a local name (one fresh Lean name per assignment), augmented assignment, `if/elif/else`
  (one conditional `let` per variable assigned in it; a branch that returns/raises makes the rest of the block the
  other branch), `for` over a literal tuple (unrolled), `return`, `raise`, `pass`, docstrings,
  `with self.<..lock>:` (transparent: sequential semantics only), `self.attr = e` (functional update of the
  symbolic record).  Conditions that fold to a constant (`isinstance(other, SameClass)`, `len(x) != 6` with a
  known length) select the live branch at translation time.

EXPRESSIONS  + - * on ints; `// %` by a positive literal (Int: Lean `/ %` are Euclidean = floor for a positive
  divisor); `<< >>` by a non-negative literal (Nat: `<<< >>>`; Int: `* 2^k`, `/ 2^k` = arithmetic shift);
  `& | ^` on Nat (`&&& ||| ^^^`); `x & (2^k-1)` on an Int -> `(x % 2^k).toNat` (Python's two's-complement
  semantics of `&` with a non-negative mask); comparisons (chains allowed); `min`/`max`/`int`/`bool`/`len`;
  conditional expressions; closed constant expressions are evaluated by Python (`2**16 - 1`, `4 + 3*8`).
  A constant that Python computes as a float (`2**32/2`) is accepted only if it is integral AND only as an operand
  of a comparison (Python compares int with float exactly); any other float arithmetic is refused.
  Module-level int constants are read from the function's globals (re-read on every run).
  CALLS: a function/method of the job list -> a call of the extracted Lean definition (a skipped callee skips the
  caller); any other module-level function, enum method or method of a known record class is inlined
  (arguments bound first; literal arguments propagate, e.g. `_to_twos_complement(x, 32)`).

LENGTH FACTS  after `if len(x) < N: raise ..` the translator records `len(x) >= N` for the rest of the block;
  slices of such a value with upper bound <= N, `to_bytes(n, ..)` results and literals have exactly known length.
  These facts justify `b[k]` and fold `len(..)` tests.  Nothing else is assumed about lengths.

ASSUMPTIONS (stated in design_notes/EXTRACT.md): `other`/`__o` of a binary operator is an instance of the same
class (`isinstance` folds to True; the foreign-type branch is not translated); `cls` is the class itself;
locks have no sequential effect; parameter types are as declared in the job list.
"""
from __future__ import annotations

import ast
import dataclasses
import enum
import inspect
import re
import textwrap

NAT, INT, BOOL, BYTES = "Nat", "Int", "Bool", "Bytes"


class Unsupported(Exception):
    pass


class NeedMonad(Exception):
    pass


def is_enum(t):
    return isinstance(t, tuple) and t[0] == "enum"


def is_rec(t):
    return isinstance(t, tuple) and t[0] == "rec"


def E(name):
    return ("enum", name)


def R(name):
    return ("rec", name)


class Val:
    """a scalar / bytes value: Lean text + type (+ what is known at translation time)"""

    def __init__(self, text, ty, const=None, fconst=False, prop=False, blen=None, minlen=0):
        self.text, self.ty, self.const, self.fconst, self.prop = text, ty, const, fconst, prop
        self.blen = blen                      # exact length (bytes)
        self.minlen = blen if blen is not None else minlen

    def with_minlen(self, n):
        return Val(self.text, self.ty, self.const, self.fconst, self.prop, self.blen, max(self.minlen, n))


class RecVal:
    def __init__(self, cls, fields, src=None):
        self.cls, self.fields = cls, fields   # fields: ordered {name: Val | RecVal | None(=not a parameter)}
        self.src = src                        # Lean identifier bound to the whole tuple (result of a call), if any


class ClsRef:
    def __init__(self, name, py):
        self.name, self.py = name, py


class TupVal:
    def __init__(self, items):
        self.items = items


class Ret:
    """result of a block that returns: either a symbolic value (straight line) or an expression text"""

    def __init__(self, value=None, text=None, tys=None, m=False, throws=False):
        self.value, self.text, self.tys, self.m, self.throws = value, text, tys, m, throws


@dataclasses.dataclass
class FuncInfo:
    func: object
    lean: str
    cls: str | None = None            # record class of self / cls
    kind: str = "method"              # method | classmethod | function
    self_leaves: list | None = None   # leaves of self passed as parameters (None = all)
    other: bool = False               # first argument is an object of the same class (binary operator)
    args: list = dataclasses.field(default_factory=list)   # [(python name, type)]
    ret: object = NAT
    monadic: bool | None = None
    status: str = "pending"
    text: str = ""
    params: list = dataclasses.field(default_factory=list)  # [(lean name, scalar type)] after translation


class World:
    EXC = {"DecodeError": "decode", "ValueError": "value", "OverflowError": "overflow"}

    def __init__(self):
        self.enums = {}      # name -> {member: int}
        self.enum_py = {}
        self.records = {}    # name -> (pycls, [(field, type)])
        self.broken = {}     # record name -> reason
        self.funcs = {}      # (class name | None, python name) -> FuncInfo

    def add_enum(self, e):
        vals = {}
        for m in e:
            if isinstance(m.value, bool) or not isinstance(m.value, int) or m.value < 0:
                raise Unsupported(f"enum {e.__name__} has a non-natural value")
            vals[m.name] = int(m.value)
        self.enums[e.__name__] = vals
        self.enum_py[e.__name__] = e
        return E(e.__name__)

    def add_record(self, pycls, fields, check=True):
        name = pycls.__name__
        self.records[name] = (pycls, list(fields))
        if check:
            if not dataclasses.is_dataclass(pycls):
                self.broken[name] = f"{name} is no longer a dataclass"
            else:
                real = [f.name for f in dataclasses.fields(pycls)]
                if real != [f for f, _ in fields]:
                    self.broken[name] = f"fields of {name} changed: {real}"
        return R(name)

    def add_func(self, fi: FuncInfo):
        self.funcs[(fi.cls, fi.func.__name__)] = fi
        return fi

    # ---- types
    def leaves(self, ty, prefix=""):
        """[(leaf parameter name, scalar type)] of a type, records flattened in declared order"""
        if is_rec(ty):
            if ty[1] in self.broken:
                raise Unsupported(self.broken[ty[1]])
            out = []
            for f, t in self.records[ty[1]][1]:
                out += self.leaves(t, (prefix + "_" if prefix else "") + f)
            return out
        return [(prefix, ty)]

    def lean_ty(self, ty):
        if is_rec(ty):
            return " × ".join(self.lean_scalar(t) for _, t in self.leaves(ty))
        return self.lean_scalar(ty)

    @staticmethod
    def lean_scalar(t):
        return "Nat" if is_enum(t) else {NAT: "Nat", INT: "Int", BOOL: "Bool", BYTES: "Bytes"}[t]


IDENT = re.compile(r"[A-Za-z_][\w']*(\.[12])*\Z")
LEAN_KEYWORDS = {"at", "end", "from", "fun", "open", "in", "do", "then", "else", "if", "let", "have", "show", "by",
                 "with", "match", "where", "def", "theorem", "namespace", "section", "import", "instance", "class",
                 "structure", "inductive", "deriving", "return", "for", "unless", "try", "catch", "finally", "mut",
                 "Type", "Prop", "Sort", "using", "variable", "universe", "abbrev", "macro", "syntax", "local", "set"}


def ident(name):
    return name + "'" if name in LEAN_KEYWORDS else name


def lit(c, ty=None):
    if ty is None:
        ty = NAT if c >= 0 else INT
    return Val(f"({c} : {ty})", ty, const=c)


def numty(t):
    return t in (NAT, INT)


class Tr:
    def __init__(self, world, monadic=False, globs=None):
        self.w = world
        self.monadic = monadic
        self.globs = globs or {}
        self.lets = []            # [(":=" | "←", name, rhs)]
        self.counter = {}
        self.lazy = False
        self.depth = 0
        self.ret_ty = None        # declared result type of the job (None while inlining)

    def child(self):
        t = Tr(self.w, self.monadic, self.globs)
        t.counter, t.lazy, t.depth, t.ret_ty = self.counter, self.lazy, self.depth, self.ret_ty
        return t

    # ------------------------------------------------------------------ helpers
    def fresh(self, name):
        name = ident(name)
        k = self.counter.get(name, 0) + 1
        self.counter[name] = k
        return f"{name}_{k}"

    def effect(self, rhs, hint="tmp"):
        """bind the result of a raising construct (rhs : Except Err T) in evaluation order"""
        if self.lazy:
            raise Unsupported("raising construct in a lazily evaluated position")
        if not self.monadic:
            raise NeedMonad()
        v = self.fresh(hint)
        self.lets.append(("←", v, rhs))
        return v

    @staticmethod
    def render(lets):
        return [f"let {n} {k} {r}" for k, n, r in lets]

    @classmethod
    def wrap(cls, lets, result, m=False):
        if not lets:
            return result
        if m:
            return "do " + "; ".join(cls.render(lets) + [result])
        if any(k == "←" for k, _, _ in lets):
            raise Unsupported("internal: effect in a pure block")
        return "; ".join(cls.render(lets) + [result])

    def const_eval(self, node):
        """closed constant sub-expression (no names) evaluated by Python"""
        for sub in ast.walk(node):
            if isinstance(sub, (ast.Name, ast.Attribute, ast.Call, ast.Subscript)):
                return None
        try:
            v = eval(compile(ast.Expression(node), "<c>", "eval"), {"__builtins__": {}}, {})
        except Exception:
            return None
        if isinstance(v, bool):
            return None
        if isinstance(v, int):
            return lit(v)
        if isinstance(v, float) and v == int(v) and abs(v) < 2 ** 1000:
            x = lit(int(v))
            x.fconst = True
            return x
        return None

    def as_num(self, v, what="operand"):
        if isinstance(v, Val):
            if v.ty in (NAT, INT):
                return v
            if is_enum(v.ty):
                raise Unsupported(f"enum member used as a number ({what})")
            if v.ty == BOOL:
                if v.const is not None:
                    return lit(1 if v.const else 0)
                return Val(f"(b2n {self.to_bool(v)})", NAT)
        raise Unsupported(f"non-numeric {what}")

    @staticmethod
    def as_int(v):
        if v.ty == INT:
            return v
        if v.const is not None:
            return lit(v.const, INT)
        if IDENT.match(v.text):
            return Val(f"({v.text} : Int)", INT)
        return Val(f"(({v.text} : Nat) : Int)", INT)

    def nofloat(self, v):
        if v.fconst:
            raise Unsupported("float constant outside a comparison")
        return v

    @staticmethod
    def to_prop(v):
        if v.ty != BOOL:
            raise Unsupported("internal: to_prop")
        if v.const is not None:
            return "True" if v.const else "False"
        return v.text if v.prop else f"({v.text} = true)"

    @staticmethod
    def to_bool(v):
        if v.const is not None:
            return "true" if v.const else "false"
        return f"(decide {v.text})" if v.prop else v.text

    def to_cond(self, v):
        """Python truthiness of a value used as a condition -> BOOL Val (prop)"""
        if isinstance(v, Val):
            if v.ty == BOOL:
                return v
            if v.ty in (NAT, INT):
                if v.const is not None and not v.fconst:
                    return Val("", BOOL, const=bool(v.const))
                return Val(f"({v.text} ≠ 0)", BOOL, prop=True)
            if v.ty == BYTES:
                return Val(f"({v.text} ≠ [])", BOOL, prop=True)
        raise Unsupported("truthiness of a non-int value")

    def bind(self, name, v):
        """let-bind a scalar value under a fresh name derived from `name`"""
        n = self.fresh(name)
        text = self.to_bool(v) if v.ty == BOOL else v.text
        self.lets.append((":=", n, text))
        return Val(n, v.ty, v.const, v.fconst, False, v.blen, v.minlen)

    # ------------------------------------------------------------------ records
    def rec_from_params(self, ty, prefix, allowed=None, lean_prefix=""):
        pycls, fields = self.w.records[ty[1]]
        if ty[1] in self.w.broken:
            raise Unsupported(self.w.broken[ty[1]])
        out = {}
        for f, t in fields:
            path = (prefix + "_" if prefix else "") + f
            if is_rec(t):
                out[f] = self.rec_from_params(t, path, allowed, lean_prefix)
            elif allowed is not None and path not in allowed:
                out[f] = None
            else:
                out[f] = Val(ident(lean_prefix + path), t)
        return RecVal(ty[1], out)

    def flatten(self, v):
        if isinstance(v, RecVal):
            out = []
            for f, x in v.fields.items():
                if x is None:
                    raise Unsupported(f"attribute {f} of {v.cls} is not a parameter of this function")
                out += self.flatten(x)
            return out
        if isinstance(v, TupVal):
            out = []
            for x in v.items:
                out += self.flatten(x)
            return out
        if isinstance(v, Val):
            return [v]
        raise Unsupported("value cannot be flattened")

    def rec_from_tuple(self, text, ty):
        """symbolic value of type `ty` from a Lean tuple expression bound to the identifier `text`"""
        lv = self.w.leaves(ty)
        n = len(lv)
        it = iter(range(n))

        def proj(i):
            if n == 1:
                return text
            return text + ".2" * i + (".1" if i < n - 1 else "")

        def build(t):
            if is_rec(t):
                return RecVal(t[1], {f: build(ft) for f, ft in self.w.records[t[1]][1]})
            i = next(it)
            return Val(proj(i), t, blen=None)
        v = build(ty)
        if isinstance(v, RecVal):
            v.src = text
        return v

    def coerce(self, v, ty, what):
        """value `v` used where declared type `ty` is expected"""
        if is_rec(ty):
            if isinstance(v, RecVal) and v.cls == ty[1]:
                return v
            raise Unsupported(f"{what}: expected a {ty[1]}")
        if not isinstance(v, Val):
            raise Unsupported(f"{what}: expected a scalar")
        if v.fconst:
            raise Unsupported("float constant outside a comparison")
        if v.ty == ty:
            return v
        if is_enum(ty) and (is_enum(v.ty) or v.ty == NAT):
            return Val(v.text, ty, v.const)
        if ty == NAT and is_enum(v.ty):
            return Val(v.text, NAT, v.const)
        if ty == INT and (v.ty == NAT or is_enum(v.ty)):
            return self.as_int(Val(v.text, NAT, v.const))
        if ty == NAT and v.ty == BOOL:
            return self.as_num(v)
        if ty == BOOL and v.ty == BOOL:
            return v
        raise Unsupported(f"{what}: a value of type {v.ty} where {ty} is declared")

    def construct(self, cref, args, kwargs):
        name = cref.name
        if name in self.w.broken:
            raise Unsupported(self.w.broken[name])
        pycls, fields = self.w.records[name]
        given = {}
        for (f, _), a in zip(fields, args):
            given[f] = a
        if len(args) > len(fields):
            raise Unsupported("too many constructor arguments")
        for k, v in kwargs.items():
            if k in given or k not in dict(fields):
                raise Unsupported(f"constructor argument {k}")
            given[k] = v
        out = {}
        for f, t in fields:
            if f in given:
                out[f] = self.coerce(given[f], t, f"{name}.{f}")
            else:
                out[f] = self.default(pycls, f, t)
        rv = RecVal(name, out)
        post = pycls.__dict__.get("__post_init__")
        if post is not None:
            r = self.inline(post, [rv], {})
            if r is not None:
                raise Unsupported("__post_init__ returns")
        return rv

    def default(self, pycls, f, t):
        if not dataclasses.is_dataclass(pycls):
            raise Unsupported(f"no default for {pycls.__name__}.{f}")
        fld = {x.name: x for x in dataclasses.fields(pycls)}[f]
        if fld.default is not dataclasses.MISSING:
            d = fld.default
        elif fld.default_factory is not dataclasses.MISSING:
            d = fld.default_factory()
        else:
            raise Unsupported(f"missing constructor argument {f}")
        return self.py_value(d, t, f"default of {pycls.__name__}.{f}")

    def py_value(self, d, t, what):
        """a concrete Python value (dataclass default) as a symbolic value of type t"""
        if is_rec(t):
            pycls, fields = self.w.records[t[1]]
            if type(d) is not pycls:
                raise Unsupported(what)
            return RecVal(t[1], {f: self.py_value(getattr(d, f), ft, what) for f, ft in fields})
        if is_enum(t):
            if isinstance(d, enum.Enum) and type(d).__name__ in self.w.enums:
                # a field declared with one enum may hold members of a sibling enum: only the value matters
                return Val(f"({int(d.value)} : Nat)", t, const=int(d.value))
            raise Unsupported(what)
        if t == BOOL and isinstance(d, bool):
            return Val("true" if d else "false", BOOL, const=d)
        if t in (NAT, INT) and isinstance(d, int) and not isinstance(d, bool):
            if t == NAT and d < 0:
                raise Unsupported(what)
            return lit(d, t)
        if t == BYTES and isinstance(d, (bytes, bytearray)):
            return Val("[" + ", ".join(str(b) for b in d) + "]", BYTES, blen=len(d))
        raise Unsupported(what)

    # ------------------------------------------------------------------ calls
    def call_registered(self, fi, recv, other, args):
        if not fi.status.startswith("extracted"):
            raise Unsupported(f"callee {fi.lean} not extracted ({fi.status})")
        parts = []
        if fi.kind == "method":
            for (pname, pty), v in zip(self.w.leaves(R(fi.cls)), self.flatten(recv)):
                if fi.self_leaves is None or pname in fi.self_leaves:
                    parts.append(self.coerce(v, pty, pname))
        if fi.other:
            if not (isinstance(other, RecVal) and other.cls == fi.cls):
                raise Unsupported("operator argument of another class")
            for (pname, pty), v in zip(self.w.leaves(R(fi.cls)), self.flatten(other)):
                if fi.self_leaves is None or pname in fi.self_leaves:
                    parts.append(self.coerce(v, pty, pname))
        if len(args) != len(fi.args):
            raise Unsupported(f"call of {fi.lean} with {len(args)} arguments")
        for (aname, aty), v in zip(fi.args, args):
            if is_rec(aty):
                parts += [self.coerce(x, t, aname) for (n, t), x in zip(self.w.leaves(aty), self.flatten(self.coerce(v, aty, aname)))]
            else:
                parts.append(self.coerce(v, aty, aname))
        text = "(" + " ".join([fi.lean] + [self.to_bool(p) if p.ty == BOOL else p.text for p in parts]) + ")"
        if fi.monadic:
            t = self.effect(text, "r")
        else:
            t = self.fresh("r")
            self.lets.append((":=", t, text))
        if is_rec(fi.ret):
            return self.rec_from_tuple(t, fi.ret)
        return Val(t, fi.ret, blen=getattr(fi, "ret_blen", None))

    def inline(self, pyfunc, pos, kw):
        """translate the body of `pyfunc` in place with its parameters bound to the given values; returns the
        symbolic result (None if the function does not return a value)"""
        if self.depth > 6:
            raise Unsupported("call depth")
        if isinstance(pyfunc, (classmethod, staticmethod)):
            pyfunc = pyfunc.__func__
        try:
            node = ast.parse(textwrap.dedent(inspect.getsource(pyfunc))).body[0]
        except (OSError, TypeError):
            raise Unsupported(f"no source for {getattr(pyfunc, '__name__', pyfunc)}")
        check_decorators(node)
        a = node.args
        if a.vararg or a.kwarg or a.kwonlyargs or a.posonlyargs:
            raise Unsupported("signature")
        names = [x.arg for x in a.args]
        env = {}
        if len(pos) > len(names):
            raise Unsupported("too many arguments")
        for n, v in zip(names, pos):
            env[n] = v
        for k, v in kw.items():
            if k in env or k not in names:
                raise Unsupported(f"argument {k}")
            env[k] = v
        ndef = len(a.defaults)
        for i, n in enumerate(names):
            if n not in env:
                j = i - (len(names) - ndef)
                if j < 0:
                    raise Unsupported(f"missing argument {n}")
                env[n] = self.ev(a.defaults[j], {})
        saved = (self.globs, self.ret_ty, self.depth)
        self.globs, self.ret_ty, self.depth = getattr(pyfunc, "__globals__", self.globs), None, self.depth + 1
        try:
            r = self.block(node.body, env)
        finally:
            self.globs, self.ret_ty, self.depth = saved
        if r is None:
            return None
        if r.value is not None:
            return r.value
        if r.throws and r.tys is None:
            raise Unsupported("inlined function always raises")
        # an if-expression with returns in its branches: bind it
        if r.m:
            t = self.effect("(" + r.text + ")", "r")
        else:
            t = self.fresh("r")
            self.lets.append((":=", t, "(" + r.text + ")"))
        return self.value_from_flat(t, r.tys)

    def value_from_flat(self, t, tys):
        if isinstance(tys, tuple) and tys and tys[0] == "rec":
            return self.rec_from_tuple(t, tys)
        if isinstance(tys, list):
            if len(tys) == 1:
                return Val(t, tys[0])
            n = len(tys)
            return TupVal([Val(t + ".2" * i + (".1" if i < n - 1 else ""), ty) for i, ty in enumerate(tys)])
        return Val(t, tys)

    # ------------------------------------------------------------------ expressions
    def resolve_global(self, name):
        if name not in self.globs:
            import builtins
            if hasattr(builtins, name):
                return getattr(builtins, name)
            raise Unsupported(f"unknown name {name}")
        return self.globs[name]

    def class_ref(self, obj):
        if isinstance(obj, type):
            if issubclass(obj, enum.Enum):
                if obj.__name__ not in self.w.enums:
                    self.w.add_enum(obj)
                return ClsRef(obj.__name__, obj)
            if obj.__name__ in self.w.records and self.w.records[obj.__name__][0] is obj:
                return ClsRef(obj.__name__, obj)
        return None

    def ev(self, n, env):
        c = self.const_eval(n)
        if c is not None:
            return c
        if isinstance(n, ast.Constant):
            if isinstance(n.value, bool):
                return Val("", BOOL, const=n.value)
            if isinstance(n.value, bytes):
                return Val("[" + ", ".join(str(b) for b in n.value) + "]", BYTES, blen=len(n.value))
            raise Unsupported(f"constant {n.value!r}")
        if isinstance(n, ast.Name):
            if n.id in env:
                return env[n.id]
            g = self.resolve_global(n.id)
            if isinstance(g, bool):
                return Val("", BOOL, const=g)
            if isinstance(g, int):
                return lit(g)
            cr = self.class_ref(g)
            if cr is not None:
                return cr
            raise Unsupported(f"global {n.id} is not an int constant / known class")
        if isinstance(n, ast.Attribute):
            base = self.ev(n.value, env)
            if isinstance(base, RecVal):
                if n.attr not in base.fields:
                    raise Unsupported(f"unknown attribute {base.cls}.{n.attr}")
                v = base.fields[n.attr]
                if v is None:
                    raise Unsupported(f"attribute {n.attr} of {base.cls} is not a parameter of this function")
                return v
            if isinstance(base, ClsRef) and base.name in self.w.enums:
                if n.attr not in self.w.enums[base.name]:
                    raise Unsupported(f"{base.name}.{n.attr}")
                c = self.w.enums[base.name][n.attr]
                return Val(f"({c} : Nat)", E(base.name), const=c)
            if isinstance(base, Val) and is_enum(base.ty) and n.attr == "value":
                return Val(base.text, NAT, base.const)
            raise Unsupported(f"attribute .{n.attr}")
        if isinstance(n, ast.BinOp):
            return self.binop(type(n.op), self.ev(n.left, env), self.ev(n.right, env))
        if isinstance(n, ast.Compare):
            vals = [self.ev(n.left, env)] + [self.ev(c, env) for c in n.comparators]
            props = [self.compare(type(op), a, b) for op, a, b in zip(n.ops, vals, vals[1:])]
            return self.conj(props, True)
        if isinstance(n, ast.BoolOp):
            first = self.ev(n.values[0], env)
            rest = [self.lazy_ev(v, env) for v in n.values[1:]]
            vals = [first] + rest
            for v in vals:
                if not (isinstance(v, Val) and v.ty == BOOL):
                    raise Unsupported("and/or on non-bool operands")
            return self.conj(vals, isinstance(n.op, ast.And))
        if isinstance(n, ast.UnaryOp):
            v = self.ev(n.operand, env)
            if isinstance(n.op, ast.Not):
                c = self.to_cond(v)
                if c.const is not None:
                    return Val("", BOOL, const=not c.const)
                return Val(f"(¬ {self.to_prop(c)})", BOOL, prop=True)
            if isinstance(n.op, ast.USub):
                v = self.nofloat(self.as_num(v))
                if v.const is not None:
                    return lit(-v.const)
                return Val(f"(- {self.as_int(v).text})", INT)
            raise Unsupported("unary operator")
        if isinstance(n, ast.IfExp):
            c = self.to_cond(self.ev(n.test, env))
            if c.const is not None:
                return self.ev(n.body if c.const else n.orelse, env)
            t1, t2 = self.child(), self.child()
            t1.lazy = t2.lazy = True
            a, b = t1.ev(n.body, env), t2.ev(n.orelse, env)
            a, b = self.unify(a, b)
            ta = a.text if a.ty != BOOL else self.to_bool(a)
            tb = b.text if b.ty != BOOL else self.to_bool(b)
            return Val(f"(if {self.to_prop(c)} then ({self.wrap(t1.lets, ta)}) else ({self.wrap(t2.lets, tb)}))", a.ty)
        if isinstance(n, ast.Call):
            return self.call(n, env)
        if isinstance(n, ast.Subscript):
            return self.subscript(n, env)
        if isinstance(n, ast.Tuple):
            return TupVal([self.ev(e, env) for e in n.elts])
        raise Unsupported(ast.dump(n)[:80])

    def lazy_ev(self, n, env):
        t = self.child()
        t.lazy = True
        v = t.ev(n, env)
        if t.lets:
            if not isinstance(v, Val):
                raise Unsupported("lazy operand")
            text = self.to_prop(v) if v.ty == BOOL else v.text
            return Val("(" + self.wrap(t.lets, text) + ")", v.ty, v.const, prop=(v.ty == BOOL))
        return v

    def unify(self, a, b):
        if not (isinstance(a, Val) and isinstance(b, Val)):
            raise Unsupported("conditional expression over non-scalar values")
        self.nofloat(a), self.nofloat(b)
        if a.ty == b.ty:
            if a.ty == BYTES:
                bl = a.blen if a.blen == b.blen else None
                return (Val(a.text, BYTES, blen=bl, minlen=min(a.minlen, b.minlen)),
                        Val(b.text, BYTES, blen=bl, minlen=min(a.minlen, b.minlen)))
            return a, b
        if numty(a.ty) and numty(b.ty):
            return self.as_int(a), self.as_int(b)
        if (is_enum(a.ty) or a.ty == NAT) and (is_enum(b.ty) or b.ty == NAT):
            return Val(a.text, NAT), Val(b.text, NAT)
        raise Unsupported(f"branches of different types {a.ty} / {b.ty}")

    def conj(self, vals, is_and):
        parts = []
        for v in vals:
            if v.const is not None:
                if v.const == is_and:
                    continue           # neutral element
                return Val("", BOOL, const=not is_and)
            parts.append(self.to_prop(v))
        if not parts:
            return Val("", BOOL, const=is_and)
        if len(parts) == 1:
            return Val(parts[0], BOOL, prop=True)
        return Val("(" + (" ∧ " if is_and else " ∨ ").join(parts) + ")", BOOL, prop=True)

    def compare(self, op, a, b):
        sym = {ast.Lt: "<", ast.LtE: "≤", ast.Gt: ">", ast.GtE: "≥", ast.Eq: "=", ast.NotEq: "≠"}.get(op)
        if sym is None:
            raise Unsupported("comparison operator")
        if not (isinstance(a, Val) and isinstance(b, Val)):
            raise Unsupported("comparison of non-scalar values")
        if is_enum(a.ty) or is_enum(b.ty):
            if a.ty != b.ty or sym not in ("=", "≠"):
                raise Unsupported("comparison of an enum member with a value of another type")
            a, b = Val(a.text, NAT, a.const), Val(b.text, NAT, b.const)
        if a.ty == BYTES or b.ty == BYTES:
            if a.ty != b.ty or sym not in ("=", "≠"):
                raise Unsupported("bytes comparison")
            return Val(f"({a.text} {sym} {b.text})", BOOL, prop=True)
        if a.ty == BOOL and b.ty == BOOL and sym in ("=", "≠"):
            if a.const is not None and b.const is not None:
                return Val("", BOOL, const=(a.const == b.const) == (sym == "="))
            return Val(f"({self.to_bool(a)} {sym} {self.to_bool(b)})", BOOL, prop=True)
        a, b = self.as_num(a, "comparison"), self.as_num(b, "comparison")
        if a.const is not None and b.const is not None:
            r = {"<": a.const < b.const, "≤": a.const <= b.const, ">": a.const > b.const, "≥": a.const >= b.const,
                 "=": a.const == b.const, "≠": a.const != b.const}[sym]
            return Val("", BOOL, const=r)
        if a.ty != b.ty:
            a, b = self.as_int(a), self.as_int(b)
        return Val(f"({a.text} {sym} {b.text})", BOOL, prop=True)

    PYOPS = {ast.Add: lambda a, b: a + b, ast.Sub: lambda a, b: a - b, ast.Mult: lambda a, b: a * b,
             ast.FloorDiv: lambda a, b: a // b, ast.Mod: lambda a, b: a % b, ast.LShift: lambda a, b: a << b,
             ast.RShift: lambda a, b: a >> b, ast.BitAnd: lambda a, b: a & b, ast.BitOr: lambda a, b: a | b,
             ast.BitXor: lambda a, b: a ^ b, ast.Pow: lambda a, b: a ** b}

    def binop(self, op, a, b):
        if isinstance(a, Val) and isinstance(b, Val) and a.ty == BYTES and b.ty == BYTES and op is ast.Add:
            bl = a.blen + b.blen if a.blen is not None and b.blen is not None else None
            return Val(f"({a.text} ++ {b.text})", BYTES, blen=bl, minlen=a.minlen + b.minlen)
        a, b = self.as_num(a), self.as_num(b)
        if op is ast.Div and a.const is not None and b.const is not None and b.const != 0:
            q = a.const / b.const
            if q == int(q):
                v = lit(int(q))
                v.fconst = True
                return v
            raise Unsupported("non-integral float constant")
        self.nofloat(a), self.nofloat(b)
        if op not in self.PYOPS:
            raise Unsupported(f"operator {op.__name__}")
        if a.const is not None and b.const is not None:
            if op in (ast.FloorDiv, ast.Mod) and b.const <= 0 or op in (ast.LShift, ast.RShift, ast.Pow) and not 0 <= b.const <= 4096:
                raise Unsupported("constant operation out of range")
            return lit(self.PYOPS[op](a.const, b.const))
        both_nat = a.ty == NAT and b.ty == NAT
        if op in (ast.Add, ast.Mult):
            s = "+" if op is ast.Add else "*"
            if both_nat:
                return Val(f"({a.text} {s} {b.text})", NAT)
            return Val(f"({self.as_int(a).text} {s} {self.as_int(b).text})", INT)
        if op is ast.Sub:
            return Val(f"({self.as_int(a).text} - {self.as_int(b).text})", INT)
        if op in (ast.FloorDiv, ast.Mod):
            if b.const is None or b.const <= 0:
                raise Unsupported("// or % by a non-literal / non-positive divisor")
            if a.ty == NAT:
                return Val(f"({a.text} {'/' if op is ast.FloorDiv else '%'} {b.text})", NAT)
            if op is ast.FloorDiv:
                return Val(f"({a.text} / ({b.const} : Int))", INT)
            return Val(f"(({a.text} % ({b.const} : Int)).toNat)", NAT)
        if op in (ast.LShift, ast.RShift):
            if b.const is None or b.const < 0:
                raise Unsupported("shift by a non-literal amount")
            if a.ty == NAT:
                return Val(f"({a.text} {'<<<' if op is ast.LShift else '>>>'} {b.const})", NAT)
            return Val(f"({a.text} {'*' if op is ast.LShift else '/'} ({2 ** b.const} : Int))", INT)
        if op in (ast.BitAnd, ast.BitOr, ast.BitXor):
            if both_nat:
                s = {ast.BitAnd: "&&&", ast.BitOr: "|||", ast.BitXor: "^^^"}[op]
                return Val(f"({a.text} {s} {b.text})", NAT)
            if op is ast.BitAnd:
                for x, m in ((a, b), (b, a)):
                    if m.const is not None and m.const >= 0 and (m.const + 1) & m.const == 0 and x.ty == INT:
                        return Val(f"(({x.text} % ({m.const + 1} : Int)).toNat)", NAT)
            raise Unsupported("bitwise operator on a possibly negative int")
        raise Unsupported(f"operator {op.__name__} on non-constants")

    def subscript(self, n, env):
        v = self.ev(n.value, env)
        if not (isinstance(v, Val) and v.ty == BYTES):
            raise Unsupported("subscript of a non-bytes value")
        s = n.slice
        if isinstance(s, ast.Slice):
            if s.step is not None:
                raise Unsupported("slice step")
            lo = 0 if s.lower is None else self.nat_const(s.lower, env, "slice bound")
            if s.upper is None:
                bl = max(0, v.blen - lo) if v.blen is not None else None
                return Val(f"({v.text}.drop {lo})", BYTES, blen=bl, minlen=max(0, v.minlen - lo))
            hi = self.nat_const(s.upper, env, "slice bound")
            if hi < lo:
                raise Unsupported("slice bounds")
            if v.blen is not None:
                bl = max(0, min(hi, v.blen) - min(lo, v.blen))
                return Val(f"(slice {v.text} {lo} {hi})", BYTES, blen=bl)
            if v.minlen >= hi:
                return Val(f"(slice {v.text} {lo} {hi})", BYTES, blen=hi - lo)
            return Val(f"(slice {v.text} {lo} {hi})", BYTES, minlen=max(0, min(hi, v.minlen) - lo))
        k = self.nat_const(s, env, "index")
        if v.minlen <= k:
            raise Unsupported(f"index {k} not established to be within the length of the bytes value")
        return Val(f"({v.text}.getD {k} 0)", NAT)

    def nat_const(self, node, env, what):
        v = self.ev(node, env)
        if not (isinstance(v, Val) and v.ty == NAT and v.const is not None and not v.fconst):
            raise Unsupported(f"{what} is not a non-negative literal")
        return v.const

    def big_endian(self, pos, kw, env):
        bo = pos[0] if pos else kw.pop("byteorder", None)
        if not (isinstance(bo, ast.Constant) and bo.value == "big"):
            raise Unsupported("byte order is not the literal 'big'")
        signed = False
        if "signed" in kw:
            s = kw.pop("signed")
            if not (isinstance(s, ast.Constant) and isinstance(s.value, bool)):
                raise Unsupported("signed=")
            signed = s.value
        if kw or len(pos) > 1:
            raise Unsupported("to_bytes/from_bytes arguments")
        return signed

    def call(self, n, env):
        f = n.func
        kwn = {k.arg: k.value for k in n.keywords}
        if None in kwn or any(isinstance(a, ast.Starred) for a in n.args):
            raise Unsupported("*args/**kwargs")
        # ---- int.from_bytes / x.to_bytes
        if isinstance(f, ast.Attribute) and f.attr == "from_bytes" and isinstance(f.value, ast.Name) and f.value.id == "int" \
                and "int" not in env:
            if not n.args:
                raise Unsupported("from_bytes arguments")
            b = self.ev(n.args[0], env)
            signed = self.big_endian(n.args[1:], dict(kwn), env)
            if not (isinstance(b, Val) and b.ty == BYTES):
                raise Unsupported("from_bytes of a non-bytes value")
            if signed:
                return Val(f"(fromBytesSigned {b.text})", INT)
            return Val(f"(fromBytesBE {b.text})", NAT)
        if isinstance(f, ast.Attribute) and f.attr == "to_bytes":
            x = self.ev(f.value, env)
            if not (isinstance(x, Val) and x.ty in (NAT, INT)):
                raise Unsupported("to_bytes of a non-int value")
            self.nofloat(x)
            if not n.args and "length" not in kwn:
                raise Unsupported("to_bytes arguments")
            kw = dict(kwn)
            ln = self.nat_const(n.args[0] if n.args else kw.pop("length"), env, "to_bytes length")
            signed = self.big_endian(n.args[1:], kw, env)
            if signed:
                t = self.effect(f"(intToBytesSigned? {ln} {self.as_int(x).text})", "b")
            elif x.ty == NAT:
                t = self.effect(f"(toBytes? {ln} {x.text})", "b")
            else:
                t = self.effect(f"(intToBytes? {ln} {x.text})", "b")
            return Val(t, BYTES, blen=ln)
        # ---- builtins and constructors by name
        if isinstance(f, ast.Name) and f.id not in env:
            g = self.resolve_global(f.id)
            if g in (min, max) and len(n.args) == 2 and not kwn:
                a, b = (self.nofloat(self.as_num(self.ev(x, env))) for x in n.args)
                if a.const is not None and b.const is not None:
                    return lit(g(a.const, b.const))
                if a.ty != b.ty:
                    a, b = self.as_int(a), self.as_int(b)
                return Val(f"({f.id} {a.text} {b.text})", a.ty)
            if g is int and len(n.args) == 1 and not kwn:
                return self.nofloat(self.as_num(self.ev(n.args[0], env), "int()"))
            if g is bool and len(n.args) == 1 and not kwn:
                v = self.ev(n.args[0], env)
                if isinstance(v, Val) and v.ty == BOOL:
                    return v
                v = self.nofloat(self.as_num(v, "bool()"))
                if v.const is not None:
                    return Val("", BOOL, const=bool(v.const))
                return Val(f"({v.text} != 0)", BOOL)
            if g is len and len(n.args) == 1 and not kwn:
                v = self.ev(n.args[0], env)
                if not (isinstance(v, Val) and v.ty == BYTES):
                    raise Unsupported("len of a non-bytes value")
                if v.blen is not None:
                    return lit(v.blen)
                return Val(f"{v.text}.length" if IDENT.match(v.text) else f"({v.text}).length", NAT)
            if g is isinstance and len(n.args) == 2 and not kwn:
                v = self.ev(n.args[0], env)
                c = self.ev(n.args[1], env)
                if isinstance(v, RecVal) and isinstance(c, ClsRef) and c.name in self.w.records:
                    return Val("", BOOL, const=issubclass(self.w.records[v.cls][0], c.py))
                raise Unsupported("isinstance")
            cr = self.class_ref(g)
            if cr is not None:
                return self.call_class(cr, n, env)
            if inspect.isfunction(g):
                pos = [self.ev(a, env) for a in n.args]
                kw = {k: self.ev(v, env) for k, v in kwn.items()}
                key = (None, g.__name__)
                if key in self.w.funcs and self.w.funcs[key].func is g:
                    if kw:
                        raise Unsupported("keyword arguments to an extracted function")
                    return self.call_registered(self.w.funcs[key], None, None, pos)
                r = self.inline(g, pos, kw)
                if r is None:
                    raise Unsupported(f"{g.__name__} returns nothing")
                return r
            raise Unsupported(f"call {f.id}")
        # ---- methods
        if isinstance(f, ast.Attribute):
            recv = self.ev(f.value, env)
            pos = [self.ev(a, env) for a in n.args]
            kw = {k: self.ev(v, env) for k, v in kwn.items()}
            if isinstance(recv, RecVal):
                key = (recv.cls, f.attr)
                pycls = self.w.records[recv.cls][0]
                raw = inspect.getattr_static(pycls, f.attr, None)
                if raw is None:
                    raise Unsupported(f"{recv.cls}.{f.attr}")
                if key in self.w.funcs:
                    fi = self.w.funcs[key]
                    if kw:
                        raise Unsupported("keyword arguments to an extracted function")
                    if fi.kind == "method":
                        if fi.other:
                            return self.call_registered(fi, recv, pos[0] if pos else None, pos[1:])
                        return self.call_registered(fi, recv, None, pos)
                    return self.call_registered(fi, None, None, pos)
                if isinstance(raw, classmethod):
                    return self.need_value(self.inline(raw, [ClsRef(recv.cls, pycls)] + pos, kw), f.attr)
                if isinstance(raw, staticmethod):
                    return self.need_value(self.inline(raw, pos, kw), f.attr)
                if inspect.isfunction(raw):
                    return self.need_value(self.inline(raw, [recv] + pos, kw), f.attr)
                raise Unsupported(f"{recv.cls}.{f.attr} is not a plain method")
            if isinstance(recv, ClsRef) and recv.name in self.w.records:
                key = (recv.name, f.attr)
                raw = inspect.getattr_static(recv.py, f.attr, None)
                if key in self.w.funcs and self.w.funcs[key].kind != "method":
                    if kw:
                        raise Unsupported("keyword arguments to an extracted function")
                    return self.call_registered(self.w.funcs[key], None, None, pos)
                if isinstance(raw, classmethod):
                    return self.need_value(self.inline(raw, [recv] + pos, kw), f.attr)
                if isinstance(raw, staticmethod):
                    return self.need_value(self.inline(raw, pos, kw), f.attr)
                raise Unsupported(f"{recv.name}.{f.attr}")
            if isinstance(recv, Val) and is_enum(recv.ty):
                raw = inspect.getattr_static(self.w.enum_py[recv.ty[1]], f.attr, None)
                if inspect.isfunction(raw):
                    return self.need_value(self.inline(raw, [recv] + pos, kw), f.attr)
                raise Unsupported(f"enum method {f.attr}")
            raise Unsupported(f"method call .{f.attr}")
        # cls(...) where cls is a bound name
        if isinstance(f, ast.Name) and isinstance(env.get(f.id), ClsRef):
            return self.call_class(env[f.id], n, env)
        raise Unsupported("call")

    @staticmethod
    def need_value(r, what):
        if r is None:
            raise Unsupported(f"{what} returns nothing")
        return r

    def call_class(self, cr, n, env):
        pos = [self.ev(a, env) for a in n.args]
        kw = {k.arg: self.ev(k.value, env) for k in n.keywords}
        if cr.name in self.w.enums:
            if len(pos) != 1 or kw:
                raise Unsupported("enum construction arguments")
            v = pos[0]
            if isinstance(v, Val) and is_enum(v.ty) and v.ty[1] == cr.name:
                return v
            v = self.nofloat(self.as_num(v, "enum code"))
            if isinstance(v, Val) and v.ty == BOOL:
                raise Unsupported("enum construction from a bool")
            codes = sorted(set(self.w.enums[cr.name].values()))
            if v.const is not None:
                if v.const in codes:
                    return Val(f"({v.const} : Nat)", E(cr.name), const=v.const)
                t = self.effect("(Except.error Err.value)", "e")
                return Val(t, E(cr.name))
            if v.ty != NAT:
                raise Unsupported("enum construction from a possibly negative int")
            t = self.effect(f"(enumOf {codes} {v.text})", "e")
            return Val(t, E(cr.name))
        return self.construct(cr, pos, kw)

    # ------------------------------------------------------------------ statements
    def assign(self, name, v, env):
        if isinstance(v, Val):
            self.nofloat(v)
            if v.ty == BOOL and v.const is not None:
                env[name] = v
                return
            env[name] = self.bind(name, v)
        else:
            env[name] = v     # records / classes / tuples stay symbolic

    def ret_of(self, v):
        """a `return <v>`"""
        if self.ret_ty is not None:
            if isinstance(self.ret_ty, list):
                if not (isinstance(v, TupVal) and len(v.items) == len(self.ret_ty)):
                    raise Unsupported("returned tuple does not match the declared result")
                v = TupVal([self.coerce(x, t, "result") for x, t in zip(v.items, self.ret_ty)])
            else:
                v = self.coerce(v, self.ret_ty, "result")
        elif isinstance(v, Val):
            self.nofloat(v)
        return Ret(value=v)

    def tys_of(self, v):
        if isinstance(v, RecVal):
            return R(v.cls)
        if isinstance(v, TupVal):
            return [x.ty for x in self.flatten(v)]
        return v.ty

    def ret_text(self, r, m):
        """(expression text of a Ret, flat type descriptor); m: as a term of the Except monad"""
        if r.value is not None:
            parts = [self.to_bool(x) if x.ty == BOOL else x.text for x in self.flatten(r.value)]
            t = parts[0] if len(parts) == 1 else "(" + ", ".join(parts) + ")"
            if isinstance(r.value, RecVal) and r.value.src is not None:
                t = r.value.src           # the unchanged result of a call: return the tuple itself
            return (f"pure {t}" if m else t), self.tys_of(r.value)
        if m and not r.m:
            return f"pure ({r.text})", r.tys
        if r.m and not m:
            raise Unsupported("internal: monadic result in a pure position")
        return r.text, r.tys

    def same_tys(self, a, b):
        if a is None:
            return b
        if b is None:
            return a
        if a != b:
            raise Unsupported(f"branches return different types ({a} / {b})")
        return a

    def block(self, stmts, env):
        """translates the statements; returns a Ret if the block returns/raises on every path, else None"""
        for i, s in enumerate(stmts):
            if isinstance(s, ast.Expr) and isinstance(s.value, ast.Constant):
                continue  # docstring
            if isinstance(s, ast.Pass):
                continue
            if isinstance(s, ast.Assign) and len(s.targets) == 1 and isinstance(s.targets[0], ast.Name):
                self.assign(s.targets[0].id, self.ev(s.value, env), env)
            elif isinstance(s, ast.AnnAssign) and isinstance(s.target, ast.Name) and s.value is not None:
                self.assign(s.target.id, self.ev(s.value, env), env)
            elif isinstance(s, ast.Assign) and len(s.targets) == 1 and isinstance(s.targets[0], ast.Attribute):
                self.assign_attr(s.targets[0], self.ev(s.value, env), env)
            elif isinstance(s, ast.AugAssign) and isinstance(s.target, ast.Name):
                if s.target.id not in env:
                    raise Unsupported("augmented assignment to an unknown name")
                self.assign(s.target.id, self.binop(type(s.op), env[s.target.id], self.ev(s.value, env)), env)
            elif isinstance(s, ast.Return):
                if s.value is None:
                    raise Unsupported("bare return")
                return self.ret_of(self.ev(s.value, env))
            elif isinstance(s, ast.Raise):
                exc = s.exc.func if isinstance(s.exc, ast.Call) else s.exc
                if not (isinstance(exc, ast.Name) and exc.id in World.EXC) or s.cause is not None:
                    raise Unsupported("raise of an exception class outside {DecodeError, ValueError, OverflowError}")
                if self.lazy:
                    raise Unsupported("raise in a lazily evaluated position")
                if not self.monadic:
                    raise NeedMonad()
                return Ret(text=f"(Except.error Err.{World.EXC[exc.id]})", tys=None, m=True, throws=True)
            elif isinstance(s, ast.With):
                for it in s.items:
                    c = it.context_expr
                    if it.optional_vars is not None or not (isinstance(c, ast.Attribute) and c.attr.endswith("lock")
                                                            and isinstance(c.value, ast.Name) and c.value.id == "self"):
                        raise Unsupported("with-statement other than `with self.<lock>`")
                r = self.block(s.body, env)
                if r is not None:
                    return r
            elif isinstance(s, ast.If):
                r = self.if_stmt(s, stmts[i + 1:], env)
                if r is not None:
                    return r[0]
            elif isinstance(s, ast.For) and isinstance(s.iter, ast.Tuple):
                for item in s.iter.elts:
                    if isinstance(s.target, ast.Tuple) and isinstance(item, ast.Tuple) and len(s.target.elts) == len(item.elts):
                        for t, v in zip(s.target.elts, item.elts):
                            if not isinstance(t, ast.Name):
                                raise Unsupported("for target")
                            env[t.id] = self.ev(v, env)
                    elif isinstance(s.target, ast.Name):
                        env[s.target.id] = self.ev(item, env)
                    else:
                        raise Unsupported("for target")
                    if self.block(s.body, env) is not None:
                        raise Unsupported("return inside for")
                if s.orelse:
                    raise Unsupported("for-else")
            else:
                raise Unsupported(f"statement {type(s).__name__}")
        return None

    def assign_attr(self, target, v, env):
        if not (isinstance(target.value, ast.Name) and isinstance(env.get(target.value.id), RecVal)):
            raise Unsupported("attribute assignment")
        rv = env[target.value.id]
        if target.attr not in rv.fields or rv.fields[target.attr] is None:
            raise Unsupported(f"assignment to unknown attribute {target.attr}")
        fty = dict(self.w.records[rv.cls][1])[target.attr]
        v = self.coerce(v, fty, f"{rv.cls}.{target.attr}")
        if isinstance(v, Val):
            v = self.bind(target.attr, v)
        fields = dict(rv.fields)
        fields[target.attr] = v
        env[target.value.id] = RecVal(rv.cls, fields)

    def length_fact(self, test, env):
        """`len(x) < N` with x a bytes-valued local name: (name, N)"""
        if isinstance(test, ast.Compare) and len(test.ops) == 1 and isinstance(test.ops[0], ast.Lt) \
                and isinstance(test.left, ast.Call) and isinstance(test.left.func, ast.Name) and test.left.func.id == "len" \
                and "len" not in env and len(test.left.args) == 1 and isinstance(test.left.args[0], ast.Name):
            x = env.get(test.left.args[0].id)
            c = self.const_eval(test.comparators[0])
            if isinstance(x, Val) and x.ty == BYTES and c is not None and not c.fconst and c.const >= 0:
                return test.left.args[0].id, c.const
        return None

    def if_stmt(self, s, rest, env):
        """returns None when control continues after the statement (env updated), else (Ret,)"""
        cv = self.to_cond(self.ev(s.test, env))
        if cv.const is not None:
            r = self.block(s.body if cv.const else s.orelse, env)
            return None if r is None else (r,)
        cond = self.to_prop(cv)
        e1, e2 = dict(env), dict(env)
        t1, t2 = self.child(), self.child()
        r1 = t1.block(s.body, e1)
        fact = self.length_fact(s.test, env)
        if fact is not None and r1 is not None:
            e2[fact[0]] = e2[fact[0]].with_minlen(fact[1])     # the body left the function: len(x) >= N from here on
        r2 = t2.block(s.orelse, e2) if s.orelse else None
        if r1 is not None or r2 is not None:
            # early return(s): the rest of the block is the continuation of the branch that did not return
            if r1 is None:
                r1 = t1.block(rest, e1)
            if r2 is None:
                r2 = t2.block(rest, e2)
            if r1 is None or r2 is None:
                raise Unsupported("branch without return")
            m = r1.m or r2.m or any(k == "←" for k, _, _ in t1.lets + t2.lets)
            x1, ty1 = t1.ret_text(r1, m)
            x2, ty2 = t2.ret_text(r2, m)
            tys = self.same_tys(ty1, ty2)
            text = f"(if {cond} then ({self.wrap(t1.lets, x1, m)}) else ({self.wrap(t2.lets, x2, m)}))"
            return (Ret(text=text, tys=tys, m=m, throws=r1.throws and r2.throws),)
        changed = sorted(k for k in set(e1) | set(e2) if e1.get(k) is not env.get(k) or e2.get(k) is not env.get(k))
        changed = [k for k in changed if k in e1 and k in e2]   # others are branch-local
        if not changed:
            if t1.lets or t2.lets:
                eff = any(k == "←" for k, _, _ in t1.lets + t2.lets)
                if eff:   # a raising construct evaluated for its effect only
                    u = self.fresh("u")
                    self.lets.append(("←", u, f"(if {cond} then ({self.wrap(t1.lets, 'pure ()', True)}) else ({self.wrap(t2.lets, 'pure ()', True)}))"))
            return None
        pairs = []
        for k in changed:
            a, b = e1[k], e2[k]
            if not (isinstance(a, Val) and isinstance(b, Val)):
                raise Unsupported(f"non-scalar variable {k} assigned in a branch")
            pairs.append(self.unify(a, b))
        eff = any(k == "←" for k, _, _ in t1.lets + t2.lets)
        if eff and (self.lazy or not self.monadic):
            raise Unsupported("internal: effect")

        def tup(vals):
            parts = [self.to_bool(x) if x.ty == BOOL else x.text for x in vals]
            t = parts[0] if len(parts) == 1 else "(" + ", ".join(parts) + ")"
            return f"pure {t}" if eff else t
        rhs = f"(if {cond} then ({self.wrap(t1.lets, tup([p[0] for p in pairs]), eff)}) else ({self.wrap(t2.lets, tup([p[1] for p in pairs]), eff)}))"
        kind = "←" if eff else ":="
        if len(changed) == 1:
            k = changed[0]
            v = self.fresh(k)
            self.lets.append((kind, v, rhs))
            a, b = pairs[0]
            env[k] = Val(v, a.ty, blen=a.blen if a.ty == BYTES and a.blen == b.blen else None,
                         minlen=min(a.minlen, b.minlen) if a.ty == BYTES else 0)
        else:
            t = self.fresh("t")
            self.lets.append((kind, t, rhs))
            for idx, k in enumerate(changed):
                proj = t + ".2" * idx + (".1" if idx < len(changed) - 1 else "")
                a, b = pairs[idx]
                v = self.fresh(k)
                self.lets.append((":=", v, proj))
                env[k] = Val(v, a.ty, blen=a.blen if a.ty == BYTES and a.blen == b.blen else None,
                             minlen=min(a.minlen, b.minlen) if a.ty == BYTES else 0)
        return None


# ---------------------------------------------------------------------------------------------------------------


def check_decorators(node):
    """only decorators without effect on the call semantics are accepted"""
    if not isinstance(node, ast.FunctionDef):
        raise Unsupported("not a plain function definition")
    for d in node.decorator_list:
        if not (isinstance(d, ast.Name) and d.id in ("classmethod", "staticmethod")):
            raise Unsupported("decorated function")


def translate_job(world: World, fi: FuncInfo) -> str:
    """Lean source of the definition for job `fi`; sets fi.monadic / fi.params; raises Unsupported"""
    for monadic in (False, True):
        try:
            return _translate(world, fi, monadic)
        except NeedMonad:
            if monadic:
                raise Unsupported("internal: NeedMonad in monadic mode")
    raise Unsupported("unreachable")


def _translate(world, fi, monadic):
    func = fi.func
    if isinstance(func, (classmethod, staticmethod)):
        func = func.__func__
    func = getattr(func, "__func__", func)
    try:
        src = textwrap.dedent(inspect.getsource(func))
    except (OSError, TypeError):
        raise Unsupported("no source")
    tree = ast.parse(src).body[0]
    if not isinstance(tree, ast.FunctionDef):
        raise Unsupported("not a function definition")
    check_decorators(tree)
    a = tree.args
    if a.vararg or a.kwarg or a.kwonlyargs or a.posonlyargs or a.defaults:
        raise Unsupported("signature (defaults / varargs)")
    names = [x.arg for x in a.args]
    tr = Tr(world, monadic, func.__globals__)
    tr.ret_ty = fi.ret
    env, params = {}, []
    if fi.kind in ("method", "classmethod"):
        if not names:
            raise Unsupported("signature changed")
        recv, names = names[0], names[1:]
        if fi.kind == "classmethod":
            env[recv] = ClsRef(fi.cls, world.records[fi.cls][0])
            if fi.cls in world.broken:
                raise Unsupported(world.broken[fi.cls])
        else:
            env[recv] = tr.rec_from_params(R(fi.cls), "", fi.self_leaves)
            params += [(ident(n), t) for n, t in world.leaves(R(fi.cls)) if fi.self_leaves is None or n in fi.self_leaves]
    if fi.other:
        if not names:
            raise Unsupported("signature changed")
        env[names[0]] = tr.rec_from_params(R(fi.cls), "", fi.self_leaves, "o_")
        params += [(ident("o_" + n), t) for n, t in world.leaves(R(fi.cls)) if fi.self_leaves is None or n in fi.self_leaves]
        names = names[1:]
    if names != [n for n, _ in fi.args]:
        raise Unsupported(f"signature changed: arguments {names}")
    taken = {p for p, _ in params}
    for n, t in fi.args:
        if is_rec(t):
            env[n] = tr.rec_from_params(t, n)
            params += [(ident(p), pt) for p, pt in world.leaves(t, n)]
        else:
            ln = ident(n if n not in taken else "a_" + n)
            env[n] = Val(ln, t)
            params.append((ln, t))
    r = tr.block(tree.body, env)
    if r is None:
        raise Unsupported("no return")
    text, tys = tr.ret_text(r, monadic)
    if r.throws and tys is None:
        raise Unsupported("function always raises")
    want = [t for _, t in world.leaves(fi.ret)] if is_rec(fi.ret) else fi.ret
    got = [t for _, t in world.leaves(tys)] if is_rec(tys) else tys
    if isinstance(want, list) and len(want) == 1:
        want = want[0]
    if isinstance(got, list) and len(got) == 1:
        got = got[0]
    if want != got:
        raise Unsupported(f"result type {got} differs from the declared {want}")
    if monadic and not (r.m or any(k == "←" for k, _, _ in tr.lets)):
        raise Unsupported("internal: monadic mode without effect")
    fi.monadic = monadic
    fi.params = params
    rt = world.lean_ty(fi.ret) if not isinstance(fi.ret, list) else " × ".join(world.lean_scalar(t) for t in fi.ret)
    args = " ".join(f"({p} : {world.lean_scalar(t)})" for p, t in params)
    head = f"def {fi.lean} {args} : " + (f"Except Err ({rt})" if monadic else rt) + " :=" + (" do" if monadic else "")
    body = "\n  ".join(Tr.render(tr.lets) + [text])
    return f"{head}\n  {body}\n"


# ---- compatibility entry point (C20: LT.set_value_in_millis / get_value_in_millis) -------------------------------

def translate(func, lean_name, params, enums=None, ret_fields=None, ty="Nat"):
    raise Unsupported("py2lean.translate was replaced by translate_job (see gen_extract.py)")

"""C20 — Packet lifetime and hop budget on the wire honour the request.

Theorems: lean/Props/C20.lean: the model lean/FlexModel/Geo/LT.lean meets the Spec lean/FlexModel/Geo/LTSpec.lean
(written from EN 302 636-4-1 9.6.4 / 10.3 and the property text, no model function in it).
Tie: differential correspondence of the model with (a) LT.set_value_in_millis, (b)
BasicHeader.initialize_with_mib_request_and_rhl (float seconds glue included, fractional milliseconds too), (c) packets
emitted by a real Router for every transport type (GUC also through the location service: request buffered, released
by the LS reply), (d) BasicHeader.decode_from_bytes, (e) the remaining lifetime / hop limit in the GN-DATA.indication of
all five indication sites (SHB, TSB, GBC, GAC, GUC) for a sweep of LT octets, (f) the receiver guard, (g) Round 5: packets
originated with itsGnSecurity ENABLED (real SignService from sec_common, MHL read from the signed payload by an independent
parse) for every requested hop limit 0..255, MIB defaults, lifetimes, all transports and security profiles (model op
`orig`), (h) Round 5: two / three originating threads on one station under harness/dsched.py (every function of
basic_header.py pre-empted at bytecode granularity, pre-emption bound 1 exhaustively for the two-request scenarios):
every packet carries the lifetime and hop limits of its OWN request.  Regenerated facts: harness/gen_lt.py.
Oracle: independent transcription of the property text (`oracle_*` below) applied to the REAL outputs.
"""
from __future__ import annotations

import threading

from common import Infra, corpus
import realstack as rs

from flexstack.geonet.basic_header import BasicHeader, LT
from flexstack.geonet.mib import MIB
from flexstack.geonet.service_access_point import (
    GNDataRequest, PacketTransportType, HeaderType, TopoBroadcastHST, GeoBroadcastHST, GeoAnycastHST, Area,
    CommonNH, TrafficClass, HeaderSubType)
from flexstack.geonet.position_vector import LongPositionVector, TST
import flexstack.geonet.router as router_mod

import os as _os
import common as _common


MODULES = ["Props.C20"] + __import__("gen_extract").bridge_modules("C20")   # + bridge lemmas of the functions py2lean could extract
DRIVERS = ["LT"]
# bridge modules that are obligations of a run when py2lean can translate the current source; if one is missing from
# MODULES the run relies on correspondence alone for that family - recorded LOUDLY in the evidence (run(): bridge_report)
EXPECTED_BRIDGES = ["Props.C20Bridge", "Props.C02BridgeBasic"]
TRUSTED = [
    "modelled rather than verified: the float glue int(max_packet_lifetime*1000) (covered by running every integer "
    "millisecond request through the real API); the Router's packet assembly is compared on emitted bytes",
]
ASSUMPTIONS = [
    "requests are given as integer milliseconds ms and passed to the API as ms/1000.0 seconds",
    "known finding C20-KF1: requests >= 1 000 000 ms are written as lifetime 0 (pinned by the repository's unit test); "
    "itsGnMaxPacketLifetime (600 s) is enforced nowhere in /repo, so that band is reachable through GNDataRequest.max_packet_lifetime",
    "interface convention (property text): request.max_hop_limit 0 and 1 mean 'not specified' -> itsGnDefaultHopLimit "
    "(Lean: LTSpec.requestedHops); a multi-hop request can therefore not ask for hop limit 1",
    "secured packets (basic-header NH = 2): the hop guard and the indication are reached only after the verify service (C03/C05); "
    "the ORIGINATION of secured packets is swept (every hop limit, lifetimes, profiles); on the receive side one secured "
    "SHB / GBC / GAC packet each is delivered to a verifying station and its indication judged",
    "originating threads: schedules are explored at the bytecode granularity of geonet/basic_header.py's functions and at "
    "the Router's lock boundaries, pre-emption bound 1 (+ a few PCT samples); state shared through other modules is "
    "covered by the regenerated fact `sharedWrites` for basic_header.py only",
]

UNITS = (50, 1000, 10000, 100000)
REPRESENTABLE = sorted({m * u for u in UNITS for m in range(64)})


def greatest_representable(ms):
    import bisect
    return REPRESENTABLE[bisect.bisect_right(REPRESENTABLE, ms) - 1]


def oracle_lifetime(ms, lt_ms):
    """property text: never exceeds, largest representable not exceeding, non-zero from 50 ms"""
    bad = []
    if lt_ms > ms:
        bad.append("exceeds-request")
    if lt_ms != greatest_representable(ms):
        bad.append("not-largest-representable")
    if ms >= 50 and lt_ms == 0:
        bad.append("zero-for-request>=50ms")
    return bad


def classify_lifetime(ms, bad):
    if ms >= 1_000_000 and set(bad) <= {"not-largest-representable", "zero-for-request>=50ms"}:
        return "C20-KF1"
    return None


def real_set(ms):
    lt = LT().set_value_in_millis(ms)
    return lt.multiplier, lt.base.value, lt.get_value_in_millis(), lt.encode_to_int()


def real_hdr(mib, ms, rhl=1):
    bh = BasicHeader.initialize_with_mib_request_and_rhl(mib, ms / 1000.0, rhl)
    code = bh.encode_to_bytes()[2]
    return bh.lt.multiplier, bh.lt.base.value, bh.lt.get_value_in_millis(), code


def detect_capped():
    return 1 if LT().set_value_in_millis(1_000_000).get_value_in_millis() == 0 else 0


# ------------------------------------------------------------------------------------------------


def lifetime_values(ctx):
    if ctx.thorough:
        ctx.exhaustive = True
        return range(0, 7_000_001)
    vals = set(range(0, 3300))
    for u in UNITS:
        for m in range(0, 66):
            for d in (-2, -1, 0, 1, 2):
                vals.add(max(0, m * u + d))
    for b in (999_998, 999_999, 1_000_000, 1_000_001, 6_300_000, 6_300_001, 6_999_999, 7_000_000, 600_000):
        vals.add(b)
    for _ in range(20000):
        vals.add(ctx.rng.randrange(0, 7_000_001))
    return sorted(vals)


def check_lifetimes(ctx, capped, values):
    mib = MIB()
    lines, reals = [], []
    n = 0
    for ms in values:
        a = real_set(ms)
        b = real_hdr(mib, ms)
        n += 1
        if a != b:
            # float glue changed the outcome: judged by the oracle below on the API result
            ctx.cover("float_glue_differs")
        reals.append((ms, a, b))
        lines.append(f"set {capped} {ms}")
    out = ctx.model("LT", lines) if ctx.model_ok else [None] * len(lines)
    for (ms, a, b), mo in zip(reals, out):
        ctx.evals()
        for tag, r in (("direct", a), ("api", b)):
            bad = oracle_lifetime(ms, r[2])
            if bad:
                ctx.violation(f"lifetime request {ms} ms -> {r[2]} ms on the wire ({','.join(bad)}) via {tag}",
                              {"kind": "lifetime", "ms": ms, "via": tag}, classify_lifetime(ms, bad))
            if r[0] >= 64 or r[1] >= 4 or r[3] != (r[0] << 2 | r[1]):
                ctx.violation(f"lifetime code malformed for {ms} ms: {r}", {"kind": "lifetime", "ms": ms, "via": tag})
        if mo is not None:
            rm = tuple(int(x) for x in mo.split())
            if rm != a:
                ctx.mismatch("lt.set", ms, list(a), list(rm))
            if rm != b:
                ctx.mismatch("lt.api", ms, list(b), list(rm))
        ctx.cover(f"lifetime_base_{a[1]}")
        if a[2] not in (0, ms):
            ctx.cover("lifetime_rounded_down")
        if ms < 100000 or ms % 9973 == 0:
            ctx.nontrivial(("lt", a[0], a[1]))
    ctx.sample("lifetime", {"request_ms": values[len(values) // 3] if len(values) else None,
                            "real": list(reals[len(reals) // 3][1]) if reals else None})


def check_fractional(ctx, capped):
    """requests that are not an integer number of milliseconds (float seconds through the API): the written lifetime must not
    exceed the request and must be the greatest representable value not exceeding it (= not exceeding floor(ms))"""
    import math
    mib = MIB()
    rng = ctx.rng
    reqs = [49.5, 50.5, 99.999, 100.25, 999.5, 1000.5, 3149.9, 3150.1, 62999.5, 63000.5, 629999.5, 630000.75]
    reqs += [rng.randrange(0, 700000) + rng.choice([0.1, 0.25, 0.5, 0.75, 0.9]) for _ in range(ctx.scale(150, 3000))]
    lines, reals = [], []
    for ms in reqs:
        bh = BasicHeader.initialize_with_mib_request_and_rhl(mib, ms / 1000.0, 1)
        r = (bh.lt.multiplier, bh.lt.base.value, bh.lt.get_value_in_millis(), bh.encode_to_bytes()[2])
        ctx.evals()
        bad = []
        if r[2] > ms:
            bad.append("exceeds-request")
        if r[2] != greatest_representable(math.floor(ms)):
            bad.append("not-largest-representable")
        if ms >= 50 and r[2] == 0:
            bad.append("zero-for-request>=50ms")
        if bad:
            ctx.violation(f"lifetime request {ms} ms -> {r[2]} ms on the wire ({','.join(bad)}) via api",
                          {"kind": "lifetime_f", "ms": ms}, classify_lifetime(ms, bad))
        reals.append((ms, r))
        lines.append(f"set {capped} {math.floor(ms)}")
    ctx.cover("lifetime_fractional_ms", len(reqs))
    if ctx.model_ok:
        for (ms, r), mo in zip(reals, ctx.model("LT", lines)):
            if tuple(int(x) for x in mo.split()) != r:
                ctx.mismatch("lt.api.fractional", ms, list(r), mo)


def check_codes(ctx):
    lines, reals = [], []
    for code in range(256):
        bh = BasicHeader.decode_from_bytes(bytes([0x11, 0, code, 7]))
        re_code = bh.encode_to_bytes()[2]
        reals.append((code, (bh.lt.multiplier, bh.lt.base.value, bh.lt.get_value_in_millis(), bh.lt.get_value_in_seconds()), re_code))
        lines.append(f"dec {code}")
    out = ctx.model("LT", lines) if ctx.model_ok else [None] * 256
    for (code, r, re_code), mo in zip(reals, out):
        ctx.evals()
        ctx.nontrivial(("code", code))
        mult, base = code >> 2, code & 3
        want_ms = mult * UNITS[base]
        if r[2] != want_ms or re_code != code:
            ctx.violation(f"lifetime code {code} decodes to {r[2]} ms / re-encodes to {re_code}, sender encoded {want_ms} ms",
                          {"kind": "code", "code": code})
        if r[3] * 1000 > r[2]:
            ctx.violation(f"remaining lifetime {r[3]} s exceeds wire lifetime {r[2]} ms", {"kind": "code", "code": code})
        if mo is not None and tuple(int(x) for x in mo.split()) != r:
            ctx.mismatch("lt.dec", code, list(r), mo)
    ctx.cover("codes_all_256")


class _NoTimer:
    """threading.Timer stand-in for router.Timer: never fires (C20 needs no LS retransmission)"""

    def __init__(self, *a, **k):
        self.daemon = True

    def start(self):
        pass

    def cancel(self):
        pass


# guc_ls = GUC to a destination the location table does not know: LS request, request buffered, LS reply, buffered
# request released from `_ls_packet_buffers` through gn_data_request_guc
TRANSPORTS = ["beacon", "shb", "gbc", "gac", "guc", "guc_ls", "ls_request", "ls_reply"]
MODEL_T = {"guc_ls": "guc"}
REQUEST_BUILT = ("shb", "gbc", "gac", "guc", "guc_ls")     # lifetime / hop limit come from the GN-DATA.request
GUARD_TRANSPORTS = ["beacon", "shb", "tsb", "gbc", "gac", "guc", "ls_request", "ls_reply"]
IND_SITES = ["shb", "tsb", "gbc", "gac", "guc"]            # the five GN-DATA.indication sites of the Router


def emit(transport, req_hl, dflt_hl, req_ms, dflt_life_s, clock):
    """originate one packet of `transport` on a real Router; returns emitted bytes (first packet of that kind)"""
    kw = dict(itsGnDefaultHopLimit=dflt_hl, itsGnDefaultPacketLifetime=dflt_life_s)
    r, ll, inds = rs.make_router(1, **kw)
    now_tst = TST.set_in_normal_timestamp_milliseconds(clock.ms)
    r.ego_position_vector = LongPositionVector(gn_addr=r.mib.itsGnLocalGnAddr, tst=now_tst, latitude=415000000,
                                               longitude=21000000, pai=True)
    life = None if req_ms is None else req_ms / 1000.0
    with rs.quiet():
        if transport == "beacon":
            r.gn_data_request_beacon()
        elif transport == "shb":
            r.gn_data_request(GNDataRequest(upper_protocol_entity=CommonNH.BTP_B, data=b"ab", length=2,
                                            max_hop_limit=req_hl, max_packet_lifetime=life))
        elif transport in ("gbc", "gac"):
            ht, hst = ((HeaderType.GEOBROADCAST, GeoBroadcastHST.GEOBROADCAST_CIRCLE) if transport == "gbc"
                       else (HeaderType.GEOANYCAST, GeoAnycastHST.GEOANYCAST_CIRCLE))
            r.gn_data_request(GNDataRequest(
                upper_protocol_entity=CommonNH.BTP_B, data=b"ab", length=2,
                packet_transport_type=PacketTransportType(header_type=ht, header_subtype=hst),
                area=Area(latitude=415000000, longitude=21000000, a=100, b=100, angle=0),
                max_hop_limit=req_hl, max_packet_lifetime=life))
        elif transport == "guc":
            peer = rs.gn_addr(2)
            pv = LongPositionVector(gn_addr=peer, tst=now_tst, latitude=415001000, longitude=21001000, pai=True)
            r.location_table.new_shb_packet(pv, b"")
            r.gn_data_request(GNDataRequest(
                upper_protocol_entity=CommonNH.BTP_B, data=b"ab", length=2,
                packet_transport_type=PacketTransportType(header_type=HeaderType.GEOUNICAST, header_subtype=HeaderSubType.UNSPECIFIED),
                destination=peer, max_hop_limit=req_hl, max_packet_lifetime=life))
        elif transport == "guc_ls":
            peer = rs.gn_addr(2)
            r.ego_position_vector = LongPositionVector(gn_addr=r.mib.itsGnLocalGnAddr, tst=now_tst, latitude=415000000,
                                                       longitude=21000000, pai=True)
            r.gn_data_request(GNDataRequest(
                upper_protocol_entity=CommonNH.BTP_B, data=b"ab", length=2,
                packet_transport_type=PacketTransportType(header_type=HeaderType.GEOUNICAST, header_subtype=HeaderSubType.UNSPECIFIED),
                destination=peer, max_hop_limit=req_hl, max_packet_lifetime=life))
            first = ll.take()                       # the LS request (judged as `ls_request`); the GUC request waits
            r2, ll2, _ = rs.make_router(2)
            r2.ego_position_vector = LongPositionVector(gn_addr=r2.mib.itsGnLocalGnAddr, tst=now_tst,
                                                        latitude=415001000, longitude=21001000, pai=True)
            if len(first) == 1 and first[0][5] == 0x60:
                r2.gn_data_indicate(first[0])
                for rep in ll2.take():
                    r.gn_data_indicate(rep)     # LS reply: the buffered request goes out as a GUC packet
        elif transport == "tsb":
            # no source operation for TSB multi-hop in the Router (NotImplementedError): receive-side tests build the packet
            # from an SHB packet: HST 1, SN + reserved in front of the SO PV, no media-dependent octets
            r.gn_data_request(GNDataRequest(upper_protocol_entity=CommonNH.BTP_B, data=b"ab", length=2,
                                            max_hop_limit=req_hl, max_packet_lifetime=life))
            shb = ll.take()[0]
            hdr = bytearray(shb[:12])
            hdr[5] = 0x51
            hdr[3] = hdr[10] = max(2, dflt_hl)
            return bytes(hdr) + b"\x00\x07\x00\x00" + shb[12:36] + shb[40:]
        elif transport == "ls_request":
            r.gn_ls_request(rs.gn_addr(3))
        elif transport == "ls_reply":
            r2, ll2, _ = rs.make_router(2)
            r2.ego_position_vector = LongPositionVector(gn_addr=r2.mib.itsGnLocalGnAddr, tst=now_tst,
                                                        latitude=415001000, longitude=21001000, pai=True)
            r2._send_ls_request_packet(r.mib.itsGnLocalGnAddr)
            r.gn_data_indicate(ll2.take()[0])
    sent = ll.take()
    return sent[0] if sent else None


def oracle_hops(transport, req_hl, dflt_hl, rhl, mhl):
    if transport in ("beacon", "shb"):
        return [] if (rhl, mhl) == (1, 1) else ["single-hop-not-1"]
    bad = []
    if rhl != mhl:
        bad.append("rhl!=mhl")
    if transport in ("gbc", "gac", "guc", "guc_ls"):
        # EN 302 636-4-1 10.3.x: MHL = the request's maximum hop limit if specified, else itsGnDefaultHopLimit;
        # interface convention of the property text: "the requested limit when above 1, else the MIB default"
        want = req_hl if req_hl > 1 else dflt_hl
    else:
        want = dflt_hl
    if mhl != want:
        bad.append(f"mhl!={want}")
    return bad


def check_router(ctx, capped, clock):
    cases = []
    if ctx.thorough:
        hls = list(range(256))
        dflts = [0, 1, 2, 10, 255]
    else:
        hls = [0, 1, 2, 3, 9, 10, 11, 127, 128, 254, 255] + [ctx.rng.randrange(256) for _ in range(6)]
        dflts = [0, 1, 10, 255]
    for t in TRANSPORTS:
        for d in dflts:
            for h in (hls if t in REQUEST_BUILT else [1]):
                cases.append((t, h, d, None, 60))
    # lifetimes through the router: requested and MIB default
    life_ms = [0, 49, 50, 99, 100, 499, 500, 700, 999, 1000, 1999, 60000, 600000, 630000, 999999, 1000000, 7000000]
    life_ms += [ctx.rng.randrange(0, 700001) for _ in range(ctx.scale(20, 400))]
    dflt_s = [0, 1, 59, 60, 63, 64, 100, 600, 630, 631, 700, 999, 1000] + ([] if not ctx.thorough else list(range(0, 701)))
    for t in REQUEST_BUILT:
        for ms in life_ms:
            cases.append((t, 5, 10, ms, 60))
    for t in TRANSPORTS:
        for s in dflt_s:
            cases.append((t, 5, 10, None, s))
    hop_lines, life_lines, recs = [], [], []
    for (t, h, d, ms, s) in cases:
        pkt = emit(t, h, d, ms, s, clock)
        ctx.evals()
        if pkt is None:
            ctx.violation(f"{t}: no packet emitted for hop limit {h}, default {d}", {"kind": "router", "case": [t, h, d, ms, s]})
            continue
        bh = BasicHeader.decode_from_bytes(pkt[0:4])
        rhl, mhl = pkt[3], pkt[4 + 6]
        lt_ms = bh.lt.get_value_in_millis()
        recs.append(((t, h, d, ms, s), rhl, mhl, pkt[2], lt_ms))
        hop_lines.append(f"hops {MODEL_T.get(t, t)} {h} {d}")
        want_ms = ms if (ms is not None and t in REQUEST_BUILT) else s * 1000
        life_lines.append(f"set {capped} {want_ms}")
        bad = oracle_hops(t, h, d, rhl, mhl)
        if bad:
            ctx.violation(f"{t}: hop limits on the wire rhl={rhl} mhl={mhl} for request {h}, default {d} ({','.join(bad)})",
                          {"kind": "router", "case": [t, h, d, ms, s]})
        badl = oracle_lifetime(want_ms, lt_ms)
        if badl:
            ctx.violation(f"{t}: lifetime {lt_ms} ms on the wire for {'request' if ms is not None else 'MIB default'} {want_ms} ms ({','.join(badl)})",
                          {"kind": "router", "case": [t, h, d, ms, s]}, classify_lifetime(want_ms, badl))
        ctx.cover(f"router_{t}")
        ctx.nontrivial(("router", t, h > 1, d, ms is None, s if ms is None else ms))
    if ctx.model_ok:
        oh = ctx.model("LT", hop_lines)
        ol = ctx.model("LT", life_lines)
        for (case, rhl, mhl, code, lt_ms), a, b in zip(recs, oh, ol):
            if [int(x) for x in a.split()] != [rhl, mhl]:
                ctx.mismatch("router.hops", list(case), [rhl, mhl], a)
            if int(b.split()[3]) != code:
                ctx.mismatch("router.lifetime", list(case), code, b)
    if recs:
        ctx.sample("router", {"case": list(recs[0][0]), "rhl": recs[0][1], "mhl": recs[0][2], "lt_code": recs[0][3]})


def guard_outcome(pkt, rhl, mhl):
    """feed a frame with patched hop bytes to a fresh receiver; 'processed' = any observable effect
    (indication, location-table entry, transmission)"""
    frame = bytearray(pkt)
    frame[3] = rhl
    frame[10] = mhl
    rx, ll, inds = rs.make_router(9)
    try:
        with rs.quiet():
            rx.gn_data_indicate(bytes(frame))
    except Exception:  # noqa: BLE001  (DecapError is how the code discards)
        pass
    processed = bool(inds) or bool(rx.location_table.loc_t) or bool(ll.sent)
    return processed, inds


def check_guard(ctx, clock):
    """receiver: RHL > MHL must be discarded for EVERY packet type; RHL <= MHL is processed"""
    pairs = [(r, m) for r in (0, 1, 2, 9, 10, 11, 254, 255) for m in (0, 1, 2, 10, 254, 255)]
    if ctx.thorough:
        pairs = [(r, m) for r in range(256) for m in range(0, 256, 5)]
    lines, reals = [], []
    for t in GUARD_TRANSPORTS:
        pkt = emit(t, 5, 10, 3000, 60, clock)
        sub = pairs if t == "shb" or ctx.thorough else pairs[::3]
        for rhl, mhl in sub:
            processed, inds = guard_outcome(pkt, rhl, mhl)
            ctx.evals()
            ctx.nontrivial(("guard", t, rhl, mhl))
            if rhl > mhl and processed:
                ctx.violation(f"receiver processed a {t} packet with rhl {rhl} > mhl {mhl}",
                              {"kind": "guard", "transport": t, "rhl": rhl, "mhl": mhl})
            if rhl <= mhl and not processed:
                ctx.violation(f"receiver ignored a {t} packet with rhl {rhl} <= mhl {mhl}",
                              {"kind": "guard", "transport": t, "rhl": rhl, "mhl": mhl})
            if inds:
                ind = inds[0]
                if ind.remaining_hop_limit != rhl:
                    ctx.violation(f"indication reports hop limit {ind.remaining_hop_limit}, wire {rhl}",
                                  {"kind": "guard", "transport": t, "rhl": rhl, "mhl": mhl})
                if ind.remaining_packet_lifetime * 1000 > (pkt[2] >> 2) * UNITS[pkt[2] & 3]:
                    ctx.violation(f"indication lifetime {ind.remaining_packet_lifetime}s exceeds the wire lifetime",
                                  {"kind": "guard", "transport": t, "rhl": rhl, "mhl": mhl})
            lines.append(f"guard {rhl} {mhl}")
            reals.append(((t, rhl, mhl), "1" if processed else "0"))
        ctx.cover(f"guard_{t}", len(sub))
    if ctx.model_ok:
        for (inp, r), mo in zip(reals, ctx.model("LT", lines)):
            if r != mo:
                ctx.mismatch("guard", list(inp), r, mo)


def make_receiver(clock):
    """receiver that delivers every packet of emit(): address 2 (destination of the GUC packets), inside the 100-unit circle
    of the GBC / GAC packets"""
    rx, ll, inds = rs.make_router(2)
    rx.ego_position_vector = LongPositionVector(gn_addr=rx.mib.itsGnLocalGnAddr,
                                                tst=TST.set_in_normal_timestamp_milliseconds(clock.ms),
                                                latitude=415000010, longitude=21000010, pai=True)
    return rx, ll, inds


def indication_of(pkt, code, clock):
    frame = bytearray(pkt)
    frame[2] = code
    rx, ll, inds = make_receiver(clock)
    with rs.quiet():
        rx.gn_data_indicate(bytes(frame))
    return inds


def ind_codes(ctx):
    if ctx.thorough:
        return list(range(256))
    mults = [0, 1, 2, 19, 20, 21, 39, 40, 41, 59, 60, 61, 63] + [ctx.rng.randrange(64) for _ in range(3)]
    return sorted({m << 2 | b for m in mults for b in range(4)})


def judge_indication(site, code, inds, rhl):
    """property text: the remaining lifetime reported upward never exceeds the lifetime on the wire (octet read by the
    standard's table, independent of the code)"""
    wire_ms = (code >> 2) * UNITS[code & 3]
    if len(inds) != 1:
        return [f"{site}: {len(inds)} indications for a deliverable packet with LT octet {code:#04x}"], None
    ind = inds[0]
    bad = []
    rep = ind.remaining_packet_lifetime
    if rep is None or rep * 1000 > wire_ms:
        bad.append(f"{site}: indication reports remaining lifetime {rep} s, the packet carries {wire_ms} ms (LT octet {code:#04x})")
    if ind.remaining_hop_limit != rhl:
        bad.append(f"{site}: indication reports hop limit {ind.remaining_hop_limit}, wire {rhl}")
    return bad, rep


def check_indication(ctx, clock):
    """all five indication sites x a sweep of LT octets (non-whole-second lifetimes included: a round()/ceil at one call
    site would report more than the packet carries)"""
    codes = ind_codes(ctx)
    lines, reals = [], []
    for site in IND_SITES:
        pkt = emit(site, 5, 10, 3000, 60, clock)
        for code in codes:
            inds = indication_of(pkt, code, clock)
            ctx.evals()
            ctx.nontrivial(("ind", site, code))
            bad, rep = judge_indication(site, code, inds, pkt[3])
            for w in bad:
                ctx.violation(w, {"kind": "ind", "site": site, "code": code})
            if rep is not None:
                canon = str(int(rep)) if float(rep).is_integer() else repr(rep)
                lines.append(f"ind {code}")
                reals.append(((site, code), canon))
        ctx.cover(f"indication_{site}", len(codes))
    if ctx.model_ok:
        for (inp, r), mo in zip(reals, ctx.model("LT", lines)):
            if r != mo:
                ctx.mismatch("indication.lifetime", list(inp), r, mo)


def check_secured_shb(ctx, clock):
    """one security-enabled origination: the basic header (LT, RHL) stays outside the envelope and must honour the request
    exactly as for unsecured packets; MHL is read from the verified plain message at a receiving station"""
    try:
        import sec_common as sc
        from flexstack.security.security_profiles import SecurityProfile
        now = sc.its_now_s(clock.ms)
        live = dict(start=now - 1000, duration=("hours", 100))
        p = sc.PKI()
        root = p.root("root", **live)
        aa = p.issue(root, "aa", issue=[sc.perm_all(1)], **live)
        at = p.issue(aa, app=[36], **live)
        with rs.quiet():
            tx = sc.RouterStation(p.backend, 1, [root], [aa], [], own=[at])
            rx = sc.RouterStation(p.backend, 2, [root], [aa], [], lat=415000100, lon=21000100)
            tx.set_position(clock.ms)
            rx.set_position(clock.ms)
            tx.router.gn_data_request(GNDataRequest(
                upper_protocol_entity=CommonNH.BTP_B, data=b"cam", length=3, max_hop_limit=7, max_packet_lifetime=1.999,
                security_profile=SecurityProfile.COOPERATIVE_AWARENESS_MESSAGE, its_aid=36))
            sent = tx.ll.take()
            out = rx.receive(sent[0]) if len(sent) == 1 else None
    except Exception as e:  # noqa: BLE001  (sec_common belongs to another builder: a changed helper must not fail C20)
        ctx.note(f"secured SHB scenario skipped: {type(e).__name__}: {e}")
        ctx.cover("secured_shb_skipped")
        return
    ctx.evals()
    case = {"kind": "secured_shb"}
    if len(sent) != 1 or sent[0][0] & 15 != 2:
        ctx.note(f"secured SHB scenario: {len(sent)} packets / basic-header NH {sent[0][0] & 15 if sent else '-'}: not a secured packet, skipped")
        ctx.cover("secured_shb_skipped")
        return
    pkt = sent[0]
    lt_ms = (pkt[2] >> 2) * UNITS[pkt[2] & 3]
    bad = oracle_lifetime(1999, lt_ms)
    if bad:
        ctx.violation(f"secured shb: lifetime {lt_ms} ms on the wire for request 1999 ms ({','.join(bad)})", case)
    if pkt[3] != 1:
        ctx.violation(f"secured shb: RHL {pkt[3]} on the wire, single-hop packets carry 1", case)
    gate = out[1] if out else []
    if gate and gate[0][6] != 1:
        ctx.violation(f"secured shb: MHL {gate[0][6]} inside the signed common header, single-hop packets carry 1", case)
    inds = out[2] if out else []
    if inds and (inds[0].remaining_packet_lifetime * 1000 > lt_ms or inds[0].remaining_hop_limit != 1):
        ctx.violation(f"secured shb: indication reports {inds[0].remaining_packet_lifetime} s / hop limit "
                      f"{inds[0].remaining_hop_limit}; wire {lt_ms} ms / 1", case)
    ctx.cover("secured_shb" + ("_verified" if gate else "_unverified"))


# ------------------------------------------------------------------------------------------------
# Round 5: security-ENABLED origination (the basic header stays in the clear, the common header with MHL is inside the
# signed envelope) for every transport, every requested hop limit, MIB defaults and lifetimes

SEC_TRANSPORTS = ["shb", "gbc", "gac", "guc", "beacon", "ls_request"]
SEC_BRANCH = ("shb", "gbc", "gac")                     # source operations with an itsGnSecurity == ENABLED branch
SEC_PROFILES = {"shb": ["cam", "vam", "none"], "gbc": ["denm", "none"], "gac": ["denm", "none"]}
_ENVELOPE = b"C20ENV"


class SecTx:
    """a security-enabled real Router to originate from.  Preferred: sec_common's RouterStation (real SignService, real
    certificates; the envelope is parsed by sec_common.decode_signed, independent of the Router).  If those helpers
    (owned by another builder) fail, a transparent SN-SIGN stand-in (envelope = marker + to-be-signed octets) keeps the
    sweep alive - the Router's header assembly is what C20 judges, not the signature."""

    def __init__(self, clock):
        self.clock = clock
        self.n = 0
        self.real = True
        try:
            self._setup_real(clock)
        except Exception as e:  # noqa: BLE001
            self.real = False
            self.why = f"{type(e).__name__}: {e}"
            self._setup_transparent(clock)

    def _setup_real(self, clock):
        import sec_common as sc
        now = sc.its_now_s(clock.ms)
        live = dict(start=now - 1000, duration=("hours", 100))
        p = sc.PKI()
        root = p.root("root", **live)
        aa = p.issue(root, "aa", issue=[sc.perm_all(1)], **live)
        at = p.issue(aa, app=[36, 37, 638, 99], **live)
        with rs.quiet():
            st = sc.RouterStation(p.backend, 1, [root], [aa], [], own=[at])
            rx = sc.RouterStation(p.backend, 2, [root], [aa], [], lat=415000010, lon=21000010)
            st.set_position(clock.ms)
            rx.set_position(clock.ms)
        self.sc, self.router, self.ll, self.rx = sc, st.router, st.ll, rx

    def _setup_transparent(self, clock):
        from flexstack.geonet.mib import GnSecurity
        from flexstack.security.sign_service import SignService
        from flexstack.security.sn_sap import SNSIGNConfirm

        class Transparent(SignService):
            def __init__(self):  # noqa: super-init-not-called (no backend, no certificates)
                pass

            def _wrap(self, request):
                m = _ENVELOPE + request.tbs_message
                return SNSIGNConfirm(sec_message_length=len(m), sec_message=m)
            sign_request = sign_cam = sign_denm = sign_other = _wrap
        mib = MIB(itsGnLocalGnAddr=rs.gn_addr(1), itsGnSecurity=GnSecurity.ENABLED)
        self.router = router_mod.Router(mib, sign_service=Transparent())
        self.ll = rs.CaptureLL()
        self.router.link_layer = self.ll
        self.router.ego_position_vector = LongPositionVector(
            gn_addr=mib.itsGnLocalGnAddr, tst=TST.set_in_normal_timestamp_milliseconds(clock.ms), latitude=415000000,
            longitude=21000000, pai=True)
        self.rx = None

    def inner(self, pkt):
        """octets behind the basic header as the receiver's common-header processing would see them (None: not parseable)"""
        if pkt[0] & 15 != 2:
            return pkt[4:]
        if self.real:
            dec = self.sc.decode_signed(pkt[4:])
            if dec is None:
                return None
            try:
                return bytes(dec[0]["tbsData"]["payload"]["data"]["content"][1])
            except Exception:  # noqa: BLE001
                return None
        return pkt[4 + len(_ENVELOPE):] if pkt[4:].startswith(_ENVELOPE) else None

    def emit(self, t, prof, h, d, ms, s):
        """originate one packet; returns (frames, exception or None)"""
        import dataclasses
        from flexstack.security.security_profiles import SecurityProfile
        r = self.router
        r.mib = dataclasses.replace(r.mib, itsGnDefaultHopLimit=d, itsGnDefaultPacketLifetime=s)
        life = None if ms is None else ms / 1000.0
        sp, aid = {"cam": (SecurityProfile.COOPERATIVE_AWARENESS_MESSAGE, 36),
                   "vam": (SecurityProfile.VRU_AWARENESS_MESSAGE, 638),
                   "denm": (SecurityProfile.DECENTRALIZED_ENVIRONMENTAL_NOTIFICATION_MESSAGE, 37),
                   "none": (SecurityProfile.NO_SECURITY, 99)}[prof or "none"]
        common_kw = dict(upper_protocol_entity=CommonNH.BTP_B, data=b"ab", length=2, max_hop_limit=h,
                         max_packet_lifetime=life, security_profile=sp, its_aid=aid)
        self.ll.take()
        self.n += 1
        exc = None
        try:
            with rs.quiet():
                if t == "beacon":
                    r.gn_data_request_beacon()
                elif t == "ls_request":
                    r.gn_ls_request(rs.gn_addr(1000 + self.n % 50000))
                elif t == "shb":
                    r.gn_data_request(GNDataRequest(**common_kw))
                elif t in ("gbc", "gac"):
                    ht, hst = ((HeaderType.GEOBROADCAST, GeoBroadcastHST.GEOBROADCAST_CIRCLE) if t == "gbc"
                               else (HeaderType.GEOANYCAST, GeoAnycastHST.GEOANYCAST_CIRCLE))
                    r.gn_data_request(GNDataRequest(
                        packet_transport_type=PacketTransportType(header_type=ht, header_subtype=hst),
                        area=Area(latitude=415000000, longitude=21000000, a=100, b=100, angle=0), **common_kw))
                elif t == "guc":
                    peer = rs.gn_addr(2)
                    if r.location_table.get_entry(peer) is None:
                        pv = LongPositionVector(gn_addr=peer, tst=TST.set_in_normal_timestamp_milliseconds(self.clock.ms),
                                                latitude=415001000, longitude=21001000, pai=True)
                        r.location_table.new_shb_packet(pv, b"")
                    r.gn_data_request(GNDataRequest(
                        packet_transport_type=PacketTransportType(header_type=HeaderType.GEOUNICAST,
                                                                  header_subtype=HeaderSubType.UNSPECIFIED),
                        destination=peer, **common_kw))
                else:
                    raise Infra(f"unknown transport {t}")
        except Infra:
            raise
        except Exception as e:  # noqa: BLE001 - the exception IS the observation
            exc = e
        return self.ll.take(), exc


def judge_secured(tx, case, frames, exc):
    """oracle on ONE security-enabled origination; returns (list of complaints, known-finding id or None, record or None)"""
    t, prof, h, d, ms, s = case
    if exc is not None:
        return [f"secured {t}: origination raised {type(exc).__name__}: {exc}"], None, None
    if not frames:
        return [f"secured {t}: no packet emitted for hop limit {h}, default {d}"], None, None
    pkt = frames[0]
    if len(pkt) < 12:
        return [f"secured {t}: {len(pkt)}-octet packet"], None, None
    nh, code, rhl = pkt[0] & 15, pkt[2], pkt[3]
    inner = tx.inner(pkt)
    lt_ms = (code >> 2) * UNITS[code & 3]
    want_ms = ms if (ms is not None and t in REQUEST_BUILT) else s * 1000
    bad, fid = [], None
    if inner is None or len(inner) < 8:
        bad.append(f"secured {t}: the payload of the emitted secured packet cannot be parsed (MHL unreadable)")
        mhl = None
    else:
        mhl = inner[6]
        hb = oracle_hops(t, h, d, rhl, mhl)
        if hb:
            bad.append(f"secured {t} ({'itsGnSecurity ENABLED, NH=%d' % nh}): hop limits on the wire rhl={rhl} (basic header) "
                       f"mhl={mhl} (common header{' inside the envelope' if nh == 2 else ''}) for request {h}, default {d} ({','.join(hb)})")
    badl = oracle_lifetime(want_ms, lt_ms)
    if badl:
        bad.append(f"secured {t}: lifetime {lt_ms} ms on the wire for {'request' if ms is not None else 'MIB default'} "
                   f"{want_ms} ms ({','.join(badl)})")
        if not [b for b in bad if "hop limits" in b or "parsed" in b]:
            fid = classify_lifetime(want_ms, badl)
    return bad, fid, (nh, code, rhl, mhl)


def secured_cases(ctx):
    cases = []
    full = list(range(256))
    few = [0, 1, 2, 3, 9, 10, 11, 127, 128, 254, 255] + [ctx.rng.randrange(256) for _ in range(4)]
    dflts = [0, 1, 2, 10, 255] if ctx.thorough else [1, 10, 255]
    swept = {"gbc": 10, "gac": 255}        # quick: EVERY requested hop limit 0..255 on one MIB default per transport
    k = 0
    for t in SEC_TRANSPORTS:
        profs = SEC_PROFILES.get(t, [None])
        for d in dflts:
            hs = [1] if t in ("beacon", "ls_request") else (full if (swept.get(t) == d or ctx.thorough) else few)
            for h in hs:
                # every profile for the 'not specified' values and one boundary, round-robin elsewhere
                for pr in (profs if h in (0, 1, 2, 255) else [profs[k % len(profs)]]):
                    cases.append((t, pr, h, d, None, 60))
                k += 1
    life_ms = [0, 49, 50, 99, 100, 499, 500, 700, 999, 1000, 1999, 60000, 600000, 630000, 999999, 1000000, 7000000]
    life_ms += [ctx.rng.randrange(0, 700001) for _ in range(ctx.scale(12, 300))]
    for t in ("shb", "gbc", "gac", "guc"):
        for i, ms in enumerate(life_ms):
            pr = SEC_PROFILES.get(t, [None])
            cases.append((t, pr[i % len(pr)], [0, 1, 5][i % 3], 10, ms, 60))
    for t in SEC_TRANSPORTS:
        for s in [0, 1, 59, 60, 63, 64, 100, 600, 630, 631, 700, 999, 1000]:
            cases.append((t, SEC_PROFILES.get(t, [None])[0], 1, 10, None, s))
    return cases


def check_secured(ctx, capped, clock):
    tx = SecTx(clock)
    if not tx.real:
        msg = f"SECURED-ORIGINATION: sec_common station unavailable ({tx.why}); transparent SN-SIGN stand-in used"
        ctx.note(msg)
        print(msg)
        ctx.cover("secured_transparent_signer")
    lines, recs = [], []
    for case in secured_cases(ctx):
        t, prof, h, d, ms, s = case
        frames, exc = tx.emit(t, prof, h, d, ms, s)
        ctx.evals()
        bad, fid, rec = judge_secured(tx, case, frames, exc)
        for w in bad:
            ctx.violation(w, {"kind": "secured", "case": list(case)}, fid)
        ctx.cover(f"secured_{t}" + (f"_{prof}" if prof else ""))
        ctx.nontrivial(("secured", t, prof, h > 1, d, ms is None, s if ms is None else ms))
        if rec is not None:
            recs.append((case, rec))
            lines.append(f"orig 1 {capped} {MODEL_T.get(t, t)} {h} {d} {'-' if (ms is None or t not in REQUEST_BUILT) else ms} {s}")
    if ctx.model_ok and lines:
        for (case, (nh, code, rhl, mhl)), mo in zip(recs, ctx.model("LT", lines)):
            m = [int(x) for x in mo.split()] if mo and mo[0].isdigit() else None
            if m is None or [nh, code, rhl] != m[0:3] or (mhl is not None and mhl != m[3]):
                ctx.mismatch("router.secured", list(case), [nh, code, rhl, mhl], mo)
    # a receiving station (real VerifyService): what it reports upward never exceeds what is on the wire
    if tx.real and tx.rx is not None:
        for t, prof in (("shb", "cam"), ("gbc", "denm"), ("gac", "denm")):
            frames, exc = tx.emit(t, prof, 7, 10, 1999, 60)
            if exc is not None or len(frames) != 1:
                continue
            try:
                with rs.quiet():
                    out = tx.rx.receive(frames[0])
            except Exception as e:  # noqa: BLE001 - sec_common's receive() belongs to another builder
                ctx.note(f"secured receive skipped: {type(e).__name__}: {e}")
                continue
            ctx.evals()
            lt_ms = (frames[0][2] >> 2) * UNITS[frames[0][2] & 3]
            for ind in out[2]:
                if ind.remaining_packet_lifetime is None or ind.remaining_packet_lifetime * 1000 > lt_ms or \
                        ind.remaining_hop_limit != frames[0][3]:
                    ctx.violation(f"secured {t}: indication reports {ind.remaining_packet_lifetime} s / hop limit "
                                  f"{ind.remaining_hop_limit}; wire {lt_ms} ms / {frames[0][3]}",
                                  {"kind": "secured", "case": [t, prof, 7, 10, 1999, 60], "rx": True})
            ctx.cover(f"secured_rx_{t}_{'delivered' if out[2] else out[0]}")
    if recs:
        ctx.sample("secured", {"case": list(recs[0][0]), "nh_code_rhl_mhl": list(recs[0][1]), "real_signer": tx.real})


# ------------------------------------------------------------------------------------------------
# Round 5: several originating threads on ONE station under harness/dsched.py.  Whatever the interleaving, every packet
# carries the lifetime / hop limits of ITS OWN request (the constructors keep no state between calls).

def thread_scenarios(ctx):
    pool = [50, 1000, 1999, 60000, 600000, 630000]
    out = [
        {"name": "same short lifetime after a long one", "prime": [["gbc", 600000]], "threads": [[["shb", 1000]], [["shb", 1000]]]},
        {"name": "long and short at once", "prime": [["shb", 1000]], "threads": [[["gbc", 600000]], [["shb", 50]]]},
        {"name": "alternating", "prime": [["shb", 60000]], "threads": [[["shb", 1000], ["gbc", 600000]], [["gbc", 600000], ["shb", 1000]]]},
        {"name": "default lifetime beside a request", "prime": [["gbc", 630000]], "threads": [[["beacon", None], ["shb", 1999]], [["shb", 1999]]]},
    ]
    for i in range(ctx.scale(1, 8)):
        r = ctx.rng
        a, b = r.choice(pool), r.choice(pool)
        mk = lambda ms: [r.choice(["shb", "gbc", "gac"]), ms]   # noqa: E731
        out.append({"name": f"random {i}", "prime": [mk(a)],
                    "threads": [[mk(b)] + [mk(r.choice(pool)) for _ in range(r.randrange(2))],
                                [mk(b)] + [mk(r.choice(pool)) for _ in range(r.randrange(2))]] +
                               ([[mk(r.choice([a, b]))]] if r.random() < 0.3 else [])})
    return out


def _bh_codes():
    """code objects of every function of geonet/basic_header.py's classes (pre-empted at every attribute access / call)"""
    import flexstack.geonet.basic_header as bh_mod
    out = []
    for cls in (bh_mod.BasicHeader, bh_mod.LT):
        for f in vars(cls).values():
            f = getattr(f, "__func__", f)
            if hasattr(f, "__code__"):
                out.append(f.__code__)
    return out


def _thread_request(r, t, ms, tag):
    life = None if ms is None else ms / 1000.0
    if t == "beacon":
        r.gn_data_request_beacon()
    elif t == "shb":
        r.gn_data_request(GNDataRequest(upper_protocol_entity=CommonNH.BTP_B, data=tag, length=len(tag),
                                        max_hop_limit=1, max_packet_lifetime=life))
    else:
        ht, hst = ((HeaderType.GEOBROADCAST, GeoBroadcastHST.GEOBROADCAST_CIRCLE) if t == "gbc"
                   else (HeaderType.GEOANYCAST, GeoAnycastHST.GEOANYCAST_CIRCLE))
        r.gn_data_request(GNDataRequest(
            upper_protocol_entity=CommonNH.BTP_B, data=tag, length=len(tag),
            packet_transport_type=PacketTransportType(header_type=ht, header_subtype=hst),
            area=Area(latitude=415000000, longitude=21000000, a=100, b=100, angle=0),
            max_hop_limit=7, max_packet_lifetime=life))


def run_thread_scenario(clock, sc, policy):
    """one execution under a scheduling policy: returns (scheduler, [(tag, transport, ms, frame or None)], problems)"""
    import dsched
    import flexstack.geonet.location_table as loct_mod
    with dsched.patched([router_mod, loct_mod], extra={"Timer": _NoTimer}):
        r, ll, _ = rs.make_router(1)
        r.ego_position_vector = LongPositionVector(gn_addr=r.mib.itsGnLocalGnAddr,
                                                   tst=TST.set_in_normal_timestamp_milliseconds(clock.ms),
                                                   latitude=415000000, longitude=21000000, pai=True)
        reqs = []
        with rs.quiet():
            for i, (t, ms) in enumerate(sc["prime"]):
                tag = b"P%02d." % i
                reqs.append((tag, t, ms))
                _thread_request(r, t, ms, tag)
            s = dsched.DSched(policy, line_files=(), opcode_codes=_bh_codes(), line_points=False, max_steps=40000)
            s.timer_filter = lambda t: False
            for ti, lst in enumerate(sc["threads"]):
                mine = []
                for i, (t, ms) in enumerate(lst):
                    tag = b"T%d%02d." % (ti, i)
                    reqs.append((tag, t, ms))
                    mine.append((t, ms, tag))
                s.spawn((lambda mine=mine: [_thread_request(r, t, ms, tag) for (t, ms, tag) in mine] and None), name=f"T{ti}")
            s.run(timeout=30.0)
        problems = [f"thread {t.name} raised {type(t.exc).__name__}: {t.exc}" for t in s.threads if t.exc is not None]
        if s.deadlock:
            problems.append(f"deadlock {s.deadlock}")
        elif s.abort_reason:
            problems.append(f"run aborted: {s.abort_reason}")
        frames = ll.take()
    out, beacons = [], [f for f in frames if len(f) > 5 and f[5] >> 4 == 1]
    for tag, t, ms in reqs:
        if t == "beacon":
            out.append((tag, t, ms, beacons.pop(0) if beacons else None))
        else:
            hit = [f for f in frames if f.endswith(tag)]
            out.append((tag, t, ms, hit[0] if len(hit) == 1 else None))
    return s, out, problems


def judge_thread_run(sc, out, problems):
    bad = list(problems)
    for tag, t, ms, f in out:
        who = tag.decode()
        if f is None:
            bad.append(f"threads '{sc['name']}': request {who} ({t}, {ms} ms): not exactly one packet on the wire")
            continue
        lt_ms = (f[2] >> 2) * UNITS[f[2] & 3]
        want = 60000 if ms is None else ms
        bl = oracle_lifetime(want, lt_ms)
        bh = oracle_hops(t, 1 if t == "shb" else 7, 10, f[3], f[10])
        if bl:
            bad.append(f"threads '{sc['name']}': request {who} ({t}) asked for {want} ms, its packet carries {lt_ms} ms "
                       f"({','.join(bl)}) - the lifetime of another request")
        if bh:
            bad.append(f"threads '{sc['name']}': request {who} ({t}): hop limits rhl={f[3]} mhl={f[10]} ({','.join(bh)})")
    return bad


def check_threads(ctx, clock, volume=1):
    import dsched
    for sc in thread_scenarios(ctx):
        found = [False]

        def once(prefix, sc=sc):
            if found[0]:
                return []
            s, out, problems = run_thread_scenario(clock, sc, dsched.Replay(prefix))
            ctx.evals()
            ctx.cover("thread_runs")
            ctx.cover("thread_preemptions_%d" % min(dsched.preemptions(s.steps), 3))
            sched = [c[0] for c in s.steps]
            for w in judge_thread_run(sc, out, problems):
                if not found[0]:
                    ctx.violation(w, {"kind": "threads", "scenario": sc, "schedule": sched})
                found[0] = True
            ctx.nontrivial(("threads", sc["name"], tuple(sched)))
            return [] if found[0] else s.steps          # a failing run has no children: stop exploring this scenario
        # pre-emption bound 1 (one thread is interrupted once, the others run to completion in between): exhaustive for
        # the two-request scenarios (~140 schedules each), capped for the longer ones in the quick tier
        cap = ctx.scale(160 if sum(len(t) for t in sc["threads"]) <= 2 else 30, 1200) * volume
        runs, exhausted = dsched.enumerate_schedules(once, 1, cap, order="bfs")
        ctx.cover("thread_scenarios_exhausted" if exhausted else "thread_scenarios_capped")
        if not found[0]:
            for i in range(ctx.scale(2, 40) * volume):
                s, out, problems = run_thread_scenario(clock, sc, dsched.PCT(ctx.rng, depth=2 + i % 2, est_steps=300))
                ctx.evals()
                ctx.cover("thread_runs_pct")
                bad = judge_thread_run(sc, out, problems)
                for w in bad[:1]:
                    ctx.violation(w, {"kind": "threads", "scenario": sc, "schedule": [c[0] for c in s.steps]})
                if bad:
                    break


def bridge_report(ctx):
    """make the loss of a bridge obligation visible: evidence field + note + histogram key (the run then relies on the
    differential correspondence alone for the functions of that family)"""
    active = [m for m in MODULES if m != "Props.C20"]
    dropped = [m for m in EXPECTED_BRIDGES if m not in MODULES]
    ctx.extra["bridge_obligations"] = {"expected": EXPECTED_BRIDGES, "active": active, "dropped": dropped}
    for m in dropped:
        msg = (f"BRIDGE-DROPPED {m}: py2lean could not translate the current source (see `extraction`); the equality "
               f"'extracted function = model' is NOT a proof obligation of this run - correspondence only")
        ctx.note(msg)
        print(msg)
        ctx.cover("bridge_dropped:" + m)
    for m in active:
        ctx.cover("bridge_active:" + m)
    return dropped


def run(ctx):
    ctx.extra["rule"] = ("lifetimes: integer-ms requests through LT.set_value_in_millis and the BasicHeader API "
                         "(thorough: every ms 0..7 000 000); all 256 lifetime codes; hop limits 0..255 x MIB defaults x 7 "
                         "transports through a real Router; receiver guard pairs; security-enabled originations (hop limits 0..255, "
                         "lifetimes, profiles); schedules of 2-3 originating threads. distinct_nontrivial counts distinct "
                         "(multiplier,base) results, codes, router cases, guard pairs, secured cases and schedules")
    capped = detect_capped()
    dropped = bridge_report(ctx)
    ctx.extra.setdefault("extraction", {})["C20"] = ("bridged (" + ", ".join(m for m in MODULES if m != "Props.C20") + ")"
                                                     + ("; DROPPED: " + ", ".join(dropped) if dropped else ""))
    ctx.extra["variant"] = {"C20-KF1": "capped (code as is)" if capped else "uncapped (repaired)"}
    router_mod.Timer = _NoTimer
    try:
        with rs.VClock(1_700_000_000_000) as clock:
            corp = [c["ms"] for _, c in corpus("C20") if c.get("kind") == "lifetime"]
            check_lifetimes(ctx, capped, sorted(set(corp)))
            ctx.cover("corpus_cases", len(corp))
            check_lifetimes(ctx, capped, lifetime_values(ctx))
            check_fractional(ctx, capped)
            check_codes(ctx)
            check_router(ctx, capped, clock)
            check_guard(ctx, clock)
            check_indication(ctx, clock)
            check_secured_shb(ctx, clock)
            check_secured(ctx, capped, clock)
            check_threads(ctx, clock)
    finally:
        router_mod.Timer = threading.Timer


def search(ctx):
    """obligation/correspondence broken: widen the real-code search (3x volume, all boundaries; then every hop limit x
    transport through the Router, the guard pairs and the indication sweep), judged by the oracle only"""
    capped = detect_capped()
    vals = sorted({ctx.rng.randrange(0, 7_000_001) for _ in range(60000)} | set(REPRESENTABLE) |
                  {max(0, r - 1) for r in REPRESENTABLE} | {r + 1 for r in REPRESENTABLE})
    ok = ctx.model_ok
    ctx.model_ok = False   # search judges the real code with the oracle only
    old_timer = router_mod.Timer
    router_mod.Timer = _NoTimer
    try:
        check_lifetimes(ctx, capped, vals)
        if not ctx.violations:
            check_fractional(ctx, capped)
            check_codes(ctx)
            with rs.VClock(1_700_000_000_000) as clock:
                check_router(ctx, capped, clock)
                check_guard(ctx, clock)
                check_indication(ctx, clock)
                if not ctx.violations:
                    check_secured(ctx, capped, clock)
                if not ctx.violations:
                    check_threads(ctx, clock, volume=3)
    finally:
        router_mod.Timer = old_timer
        ctx.model_ok = ok


def replay(ctx, obj):
    case = obj.get("case", obj)
    kind = case.get("kind")
    if kind == "lifetime":
        ms = case["ms"]
        r = real_hdr(MIB(), ms) if case.get("via") == "api" else real_set(ms)
        bad = oracle_lifetime(ms, r[2])
        print(f"request {ms} ms -> {r} : {bad or 'ok'}")
        return bool(bad)
    if kind == "lifetime_f":
        import math
        ms = case["ms"]
        bh = BasicHeader.initialize_with_mib_request_and_rhl(MIB(), ms / 1000.0, 1)
        got = bh.lt.get_value_in_millis()
        bad = got > ms or got != greatest_representable(math.floor(ms)) or (ms >= 50 and got == 0)
        print(f"request {ms} ms -> {got} ms: {'violated' if bad else 'ok'}")
        return bad
    if kind == "code":
        code = case["code"]
        bh = BasicHeader.decode_from_bytes(bytes([0x11, 0, code, 7]))
        ok = bh.lt.get_value_in_millis() == (code >> 2) * UNITS[code & 3] and bh.encode_to_bytes()[2] == code
        print(f"code {code} -> {bh.lt} ok={ok}")
        return not ok
    if kind == "ind":
        router_mod.Timer = _NoTimer
        try:
            with rs.VClock(1_700_000_000_000) as clock:
                pkt = emit(case["site"], 5, 10, 3000, 60, clock)
                bad, rep = judge_indication(case["site"], case["code"], indication_of(pkt, case["code"], clock), pkt[3])
                print(f"{case['site']} LT octet {case['code']:#04x}: reported {rep} s: {bad or 'ok'}")
                return bool(bad)
        finally:
            router_mod.Timer = threading.Timer
    if kind == "secured_shb":
        class _C:   # minimal ctx stand-in collecting violations
            def __init__(self):
                self.v = []
            def violation(self, what, case, fid=None):
                self.v.append(what)
            def note(self, x):
                print(x)
            def cover(self, *a):
                pass
            def evals(self, *a):
                pass
        c = _C()
        router_mod.Timer = _NoTimer
        try:
            with rs.VClock(1_700_000_000_000) as clock:
                check_secured_shb(c, clock)
        finally:
            router_mod.Timer = threading.Timer
        print(c.v or "ok")
        return bool(c.v)
    if kind == "secured":
        router_mod.Timer = _NoTimer
        try:
            with rs.VClock(1_700_000_000_000) as clock:
                tx = SecTx(clock)
                c = tuple(case["case"])
                frames, exc = tx.emit(*c)
                bad, _fid, rec = judge_secured(tx, c, frames, exc)
                print(f"{list(c)} (real signer: {tx.real}) -> nh,lt,rhl,mhl={rec}: {bad or 'ok'}")
                return bool(bad)
        finally:
            router_mod.Timer = threading.Timer
    if kind == "threads":
        import dsched
        router_mod.Timer = _NoTimer
        try:
            with rs.VClock(1_700_000_000_000) as clock:
                s, out, problems = run_thread_scenario(clock, case["scenario"], dsched.Replay(case.get("schedule", [])))
                bad = judge_thread_run(case["scenario"], out, problems)
                for tag, t, ms, f in out:
                    print(f"  {tag.decode()} {t} request {ms} ms -> LT octet {('%#04x' % f[2]) if f else None}")
                print(bad or "ok")
                return bool(bad)
        finally:
            router_mod.Timer = threading.Timer
    if kind in ("router", "guard"):
        sub = Ctx_like(ctx)
        router_mod.Timer = _NoTimer
        try:
            with rs.VClock(1_700_000_000_000) as clock:
                if kind == "router":
                    t, h, d, ms, s = case["case"]
                    pkt = emit(t, h, d, ms, s, clock)
                    if pkt is None:
                        return True
                    rhl, mhl = pkt[3], pkt[10]
                    lt_ms = BasicHeader.decode_from_bytes(pkt[0:4]).lt.get_value_in_millis()
                    want_ms = ms if (ms is not None and t in REQUEST_BUILT) else s * 1000
                    bad = oracle_hops(t, h, d, rhl, mhl) + oracle_lifetime(want_ms, lt_ms)
                    print(f"{case['case']} -> rhl={rhl} mhl={mhl} lt={lt_ms}: {bad or 'ok'}")
                    return bool(bad)
                rhl, mhl, t = case["rhl"], case["mhl"], case.get("transport", "shb")
                processed, _ = guard_outcome(emit(t, 5, 10, 3000, 60, clock), rhl, mhl)
                print(f"{t} rhl={rhl} mhl={mhl} processed={processed}")
                return processed != (rhl <= mhl)
        finally:
            router_mod.Timer = threading.Timer
    raise Infra(f"unknown replay kind {kind}")


def Ctx_like(ctx):
    return ctx

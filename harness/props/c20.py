"""C20 — Packet lifetime and hop budget on the wire honour the request.

Theorems: lean/Props/C20.lean about lean/FlexModel/Geo/LT.lean.
Tie: differential correspondence of the model with (a) LT.set_value_in_millis, (b)
BasicHeader.initialize_with_mib_request_and_rhl (float seconds glue included), (c) packets emitted by a real
Router for every transport type, (d) BasicHeader.decode_from_bytes / indications of a receiving Router.
Oracle: independent transcription of the property text (`oracle_*` below) applied to the REAL outputs.
"""
from __future__ import annotations

import threading

from common import Infra, corpus
import realstack as rs

from flexstack.geonet.basic_header import BasicHeader, LT
from flexstack.geonet.mib import MIB
from flexstack.geonet.service_access_point import (
    GNDataRequest, PacketTransportType, HeaderType, TopoBroadcastHST, GeoBroadcastHST, GeoAnycastHST, Area,
    CommonNH, TrafficClass, HeaderSubType)
from flexstack.geonet.position_vector import LongPositionVector, TST
import flexstack.geonet.router as router_mod

import os as _os
import common as _common


def _bridge_available():
    """Props.C20Bridge is an obligation only when py2lean could translate the current source
    (otherwise the run records `extract-skipped` and relies on correspondence alone)"""
    try:
        import gen_lean
        gen_lean.generate_all()
        txt = open(_os.path.join(_common.LEAN, "Generated", "Extracted.lean")).read()
        return "extract-skipped" not in txt and "def LT_set_value_in_millis" in txt
    except Exception:
        return False


MODULES = ["Props.C20"] + (["Props.C20Bridge"] if _bridge_available() else [])
DRIVERS = ["LT"]
TRUSTED = [
    "modelled rather than verified: the float glue int(max_packet_lifetime*1000) (covered by running every integer "
    "millisecond request through the real API); the Router's packet assembly is compared on emitted bytes",
]
ASSUMPTIONS = [
    "requests are given as integer milliseconds ms and passed to the API as ms/1000.0 seconds",
    "known finding C20-KF1: requests >= 1 000 000 ms are written as lifetime 0 (pinned by the repository's unit test)",
]

UNITS = (50, 1000, 10000, 100000)
REPRESENTABLE = sorted({m * u for u in UNITS for m in range(64)})


def greatest_representable(ms):
    import bisect
    return REPRESENTABLE[bisect.bisect_right(REPRESENTABLE, ms) - 1]


def oracle_lifetime(ms, lt_ms):
    """property text: never exceeds, largest representable not exceeding, non-zero from 50 ms"""
    bad = []
    if lt_ms > ms:
        bad.append("exceeds-request")
    if lt_ms != greatest_representable(ms):
        bad.append("not-largest-representable")
    if ms >= 50 and lt_ms == 0:
        bad.append("zero-for-request>=50ms")
    return bad


def classify_lifetime(ms, bad):
    if ms >= 1_000_000 and set(bad) <= {"not-largest-representable", "zero-for-request>=50ms"}:
        return "C20-KF1"
    return None


def real_set(ms):
    lt = LT().set_value_in_millis(ms)
    return lt.multiplier, lt.base.value, lt.get_value_in_millis(), lt.encode_to_int()


def real_hdr(mib, ms, rhl=1):
    bh = BasicHeader.initialize_with_mib_request_and_rhl(mib, ms / 1000.0, rhl)
    code = bh.encode_to_bytes()[2]
    return bh.lt.multiplier, bh.lt.base.value, bh.lt.get_value_in_millis(), code


def detect_capped():
    return 1 if LT().set_value_in_millis(1_000_000).get_value_in_millis() == 0 else 0


# ------------------------------------------------------------------------------------------------


def lifetime_values(ctx):
    if ctx.thorough:
        ctx.exhaustive = True
        return range(0, 7_000_001)
    vals = set(range(0, 3300))
    for u in UNITS:
        for m in range(0, 66):
            for d in (-2, -1, 0, 1, 2):
                vals.add(max(0, m * u + d))
    for b in (999_998, 999_999, 1_000_000, 1_000_001, 6_300_000, 6_300_001, 6_999_999, 7_000_000, 600_000):
        vals.add(b)
    for _ in range(20000):
        vals.add(ctx.rng.randrange(0, 7_000_001))
    return sorted(vals)


def check_lifetimes(ctx, capped, values):
    mib = MIB()
    lines, reals = [], []
    n = 0
    for ms in values:
        a = real_set(ms)
        b = real_hdr(mib, ms)
        n += 1
        if a != b:
            # float glue changed the outcome: judged by the oracle below on the API result
            ctx.cover("float_glue_differs")
        reals.append((ms, a, b))
        lines.append(f"set {capped} {ms}")
    out = ctx.model("LT", lines) if ctx.model_ok else [None] * len(lines)
    for (ms, a, b), mo in zip(reals, out):
        ctx.evals()
        for tag, r in (("direct", a), ("api", b)):
            bad = oracle_lifetime(ms, r[2])
            if bad:
                ctx.violation(f"lifetime request {ms} ms -> {r[2]} ms on the wire ({','.join(bad)}) via {tag}",
                              {"kind": "lifetime", "ms": ms, "via": tag}, classify_lifetime(ms, bad))
            if r[0] >= 64 or r[1] >= 4 or r[3] != (r[0] << 2 | r[1]):
                ctx.violation(f"lifetime code malformed for {ms} ms: {r}", {"kind": "lifetime", "ms": ms, "via": tag})
        if mo is not None:
            rm = tuple(int(x) for x in mo.split())
            if rm != a:
                ctx.mismatch("lt.set", ms, list(a), list(rm))
            if rm != b:
                ctx.mismatch("lt.api", ms, list(b), list(rm))
        ctx.cover(f"lifetime_base_{a[1]}")
        if a[2] not in (0, ms):
            ctx.cover("lifetime_rounded_down")
        if ms < 100000 or ms % 9973 == 0:
            ctx.nontrivial(("lt", a[0], a[1]))
    ctx.sample("lifetime", {"request_ms": values[len(values) // 3] if len(values) else None,
                            "real": list(reals[len(reals) // 3][1]) if reals else None})


def check_codes(ctx):
    lines, reals = [], []
    for code in range(256):
        bh = BasicHeader.decode_from_bytes(bytes([0x11, 0, code, 7]))
        re_code = bh.encode_to_bytes()[2]
        reals.append((code, (bh.lt.multiplier, bh.lt.base.value, bh.lt.get_value_in_millis(), bh.lt.get_value_in_seconds()), re_code))
        lines.append(f"dec {code}")
    out = ctx.model("LT", lines) if ctx.model_ok else [None] * 256
    for (code, r, re_code), mo in zip(reals, out):
        ctx.evals()
        ctx.nontrivial(("code", code))
        mult, base = code >> 2, code & 3
        want_ms = mult * UNITS[base]
        if r[2] != want_ms or re_code != code:
            ctx.violation(f"lifetime code {code} decodes to {r[2]} ms / re-encodes to {re_code}, sender encoded {want_ms} ms",
                          {"kind": "code", "code": code})
        if r[3] * 1000 > r[2]:
            ctx.violation(f"remaining lifetime {r[3]} s exceeds wire lifetime {r[2]} ms", {"kind": "code", "code": code})
        if mo is not None and tuple(int(x) for x in mo.split()) != r:
            ctx.mismatch("lt.dec", code, list(r), mo)
    ctx.cover("codes_all_256")


class _NoTimer:
    """threading.Timer stand-in for router.Timer: never fires (C20 needs no LS retransmission)"""

    def __init__(self, *a, **k):
        self.daemon = True

    def start(self):
        pass

    def cancel(self):
        pass


TRANSPORTS = ["beacon", "shb", "gbc", "gac", "guc", "ls_request", "ls_reply"]


def emit(transport, req_hl, dflt_hl, req_ms, dflt_life_s, clock):
    """originate one packet of `transport` on a real Router; returns emitted bytes (first packet of that kind)"""
    kw = dict(itsGnDefaultHopLimit=dflt_hl, itsGnDefaultPacketLifetime=dflt_life_s)
    r, ll, inds = rs.make_router(1, **kw)
    now_tst = TST.set_in_normal_timestamp_milliseconds(clock.ms)
    r.ego_position_vector = LongPositionVector(gn_addr=r.mib.itsGnLocalGnAddr, tst=now_tst, latitude=415000000,
                                               longitude=21000000, pai=True)
    life = None if req_ms is None else req_ms / 1000.0
    with rs.quiet():
        if transport == "beacon":
            r.gn_data_request_beacon()
        elif transport == "shb":
            r.gn_data_request(GNDataRequest(upper_protocol_entity=CommonNH.BTP_B, data=b"ab", length=2,
                                            max_hop_limit=req_hl, max_packet_lifetime=life))
        elif transport in ("gbc", "gac"):
            ht, hst = ((HeaderType.GEOBROADCAST, GeoBroadcastHST.GEOBROADCAST_CIRCLE) if transport == "gbc"
                       else (HeaderType.GEOANYCAST, GeoAnycastHST.GEOANYCAST_CIRCLE))
            r.gn_data_request(GNDataRequest(
                upper_protocol_entity=CommonNH.BTP_B, data=b"ab", length=2,
                packet_transport_type=PacketTransportType(header_type=ht, header_subtype=hst),
                area=Area(latitude=415000000, longitude=21000000, a=100, b=100, angle=0),
                max_hop_limit=req_hl, max_packet_lifetime=life))
        elif transport == "guc":
            peer = rs.gn_addr(2)
            pv = LongPositionVector(gn_addr=peer, tst=now_tst, latitude=415001000, longitude=21001000, pai=True)
            r.location_table.new_shb_packet(pv, b"")
            r.gn_data_request(GNDataRequest(
                upper_protocol_entity=CommonNH.BTP_B, data=b"ab", length=2,
                packet_transport_type=PacketTransportType(header_type=HeaderType.GEOUNICAST, header_subtype=HeaderSubType.UNSPECIFIED),
                destination=peer, max_hop_limit=req_hl, max_packet_lifetime=life))
        elif transport == "ls_request":
            r.gn_ls_request(rs.gn_addr(3))
        elif transport == "ls_reply":
            r2, ll2, _ = rs.make_router(2)
            r2.ego_position_vector = LongPositionVector(gn_addr=r2.mib.itsGnLocalGnAddr, tst=now_tst,
                                                        latitude=415001000, longitude=21001000, pai=True)
            r2._send_ls_request_packet(r.mib.itsGnLocalGnAddr)
            r.gn_data_indicate(ll2.take()[0])
    sent = ll.take()
    return sent[0] if sent else None


def oracle_hops(transport, req_hl, dflt_hl, rhl, mhl):
    if transport in ("beacon", "shb"):
        return [] if (rhl, mhl) == (1, 1) else ["single-hop-not-1"]
    bad = []
    if rhl != mhl:
        bad.append("rhl!=mhl")
    if transport in ("gbc", "gac", "guc"):
        want = req_hl if req_hl > 1 else dflt_hl
    else:
        want = dflt_hl
    if mhl != want:
        bad.append(f"mhl!={want}")
    return bad


def check_router(ctx, capped, clock):
    cases = []
    if ctx.thorough:
        hls = list(range(256))
        dflts = [1, 2, 10, 255]
    else:
        hls = [0, 1, 2, 3, 9, 10, 11, 127, 128, 254, 255] + [ctx.rng.randrange(256) for _ in range(6)]
        dflts = [1, 10, 255]
    for t in TRANSPORTS:
        for d in dflts:
            for h in (hls if t in ("gbc", "gac", "guc", "shb") else [1]):
                cases.append((t, h, d, None, 60))
    # lifetimes through the router: requested and MIB default
    life_ms = [0, 49, 50, 99, 100, 499, 500, 700, 999, 1000, 1999, 60000, 600000, 630000, 999999, 1000000, 7000000]
    life_ms += [ctx.rng.randrange(0, 700001) for _ in range(ctx.scale(20, 400))]
    dflt_s = [0, 1, 59, 60, 63, 64, 100, 600, 630, 631, 700, 999, 1000] + ([] if not ctx.thorough else list(range(0, 701)))
    for t in ("shb", "gbc", "gac", "guc"):
        for ms in life_ms:
            cases.append((t, 5, 10, ms, 60))
    for t in TRANSPORTS:
        for s in dflt_s:
            cases.append((t, 5, 10, None, s))
    hop_lines, life_lines, recs = [], [], []
    for (t, h, d, ms, s) in cases:
        pkt = emit(t, h, d, ms, s, clock)
        ctx.evals()
        if pkt is None:
            ctx.violation(f"{t}: no packet emitted for hop limit {h}, default {d}", {"kind": "router", "case": [t, h, d, ms, s]})
            continue
        bh = BasicHeader.decode_from_bytes(pkt[0:4])
        rhl, mhl = pkt[3], pkt[4 + 6]
        lt_ms = bh.lt.get_value_in_millis()
        recs.append(((t, h, d, ms, s), rhl, mhl, pkt[2], lt_ms))
        hop_lines.append(f"hops {t} {h} {d}")
        want_ms = ms if (ms is not None and t in ("shb", "gbc", "gac", "guc")) else s * 1000
        life_lines.append(f"set {capped} {want_ms}")
        bad = oracle_hops(t, h, d, rhl, mhl)
        if bad:
            ctx.violation(f"{t}: hop limits on the wire rhl={rhl} mhl={mhl} for request {h}, default {d} ({','.join(bad)})",
                          {"kind": "router", "case": [t, h, d, ms, s]})
        badl = oracle_lifetime(want_ms, lt_ms)
        if badl:
            ctx.violation(f"{t}: lifetime {lt_ms} ms on the wire for {'request' if ms is not None else 'MIB default'} {want_ms} ms ({','.join(badl)})",
                          {"kind": "router", "case": [t, h, d, ms, s]}, classify_lifetime(want_ms, badl))
        ctx.cover(f"router_{t}")
        ctx.nontrivial(("router", t, h > 1, d, ms is None, s if ms is None else ms))
    if ctx.model_ok:
        oh = ctx.model("LT", hop_lines)
        ol = ctx.model("LT", life_lines)
        for (case, rhl, mhl, code, lt_ms), a, b in zip(recs, oh, ol):
            if [int(x) for x in a.split()] != [rhl, mhl]:
                ctx.mismatch("router.hops", list(case), [rhl, mhl], a)
            if int(b.split()[3]) != code:
                ctx.mismatch("router.lifetime", list(case), code, b)
    if recs:
        ctx.sample("router", {"case": list(recs[0][0]), "rhl": recs[0][1], "mhl": recs[0][2], "lt_code": recs[0][3]})


def guard_outcome(pkt, rhl, mhl):
    """feed a frame with patched hop bytes to a fresh receiver; 'processed' = any observable effect
    (indication, location-table entry, transmission)"""
    frame = bytearray(pkt)
    frame[3] = rhl
    frame[10] = mhl
    rx, ll, inds = rs.make_router(9)
    try:
        with rs.quiet():
            rx.gn_data_indicate(bytes(frame))
    except Exception:  # noqa: BLE001  (DecapError is how the code discards)
        pass
    processed = bool(inds) or bool(rx.location_table.loc_t) or bool(ll.sent)
    return processed, inds


def check_guard(ctx, clock):
    """receiver: RHL > MHL must be discarded for EVERY packet type; RHL <= MHL is processed"""
    pairs = [(r, m) for r in (0, 1, 2, 9, 10, 11, 254, 255) for m in (0, 1, 2, 10, 254, 255)]
    if ctx.thorough:
        pairs = [(r, m) for r in range(256) for m in range(0, 256, 5)]
    lines, reals = [], []
    for t in TRANSPORTS:
        pkt = emit(t, 5, 10, 3000, 60, clock)
        sub = pairs if t == "shb" or ctx.thorough else pairs[::3]
        for rhl, mhl in sub:
            processed, inds = guard_outcome(pkt, rhl, mhl)
            ctx.evals()
            ctx.nontrivial(("guard", t, rhl, mhl))
            if rhl > mhl and processed:
                ctx.violation(f"receiver processed a {t} packet with rhl {rhl} > mhl {mhl}",
                              {"kind": "guard", "transport": t, "rhl": rhl, "mhl": mhl})
            if rhl <= mhl and not processed:
                ctx.violation(f"receiver ignored a {t} packet with rhl {rhl} <= mhl {mhl}",
                              {"kind": "guard", "transport": t, "rhl": rhl, "mhl": mhl})
            if inds:
                ind = inds[0]
                if ind.remaining_hop_limit != rhl:
                    ctx.violation(f"indication reports hop limit {ind.remaining_hop_limit}, wire {rhl}",
                                  {"kind": "guard", "transport": t, "rhl": rhl, "mhl": mhl})
                if ind.remaining_packet_lifetime * 1000 > 3000:
                    ctx.violation(f"indication lifetime {ind.remaining_packet_lifetime}s exceeds wire 3000 ms",
                                  {"kind": "guard", "transport": t, "rhl": rhl, "mhl": mhl})
            lines.append(f"guard {rhl} {mhl}")
            reals.append(((t, rhl, mhl), "1" if processed else "0"))
        ctx.cover(f"guard_{t}", len(sub))
    if ctx.model_ok:
        for (inp, r), mo in zip(reals, ctx.model("LT", lines)):
            if r != mo:
                ctx.mismatch("guard", list(inp), r, mo)


def run(ctx):
    ctx.extra["rule"] = ("lifetimes: integer-ms requests through LT.set_value_in_millis and the BasicHeader API "
                         "(thorough: every ms 0..7 000 000); all 256 lifetime codes; hop limits 0..255 x MIB defaults x 7 "
                         "transports through a real Router; receiver guard pairs. distinct_nontrivial counts distinct "
                         "(multiplier,base) results, codes, router cases and guard pairs")
    capped = detect_capped()
    ctx.extra["extraction"] = "bridged (Props.C20Bridge)" if "Props.C20Bridge" in MODULES else "extract-skipped"
    ctx.extra["variant"] = {"C20-KF1": "capped (code as is)" if capped else "uncapped (repaired)"}
    router_mod.Timer = _NoTimer
    try:
        with rs.VClock(1_700_000_000_000) as clock:
            corp = [c["ms"] for _, c in corpus("C20") if c.get("kind") == "lifetime"]
            check_lifetimes(ctx, capped, sorted(set(corp)))
            ctx.cover("corpus_cases", len(corp))
            check_lifetimes(ctx, capped, lifetime_values(ctx))
            check_codes(ctx)
            check_router(ctx, capped, clock)
            check_guard(ctx, clock)
    finally:
        router_mod.Timer = threading.Timer


def search(ctx):
    """obligation/correspondence broken: widen the real-code search (3x volume, all boundaries)"""
    capped = detect_capped()
    vals = sorted({ctx.rng.randrange(0, 7_000_001) for _ in range(60000)} | set(REPRESENTABLE) |
                  {max(0, r - 1) for r in REPRESENTABLE} | {r + 1 for r in REPRESENTABLE})
    ok = ctx.model_ok
    ctx.model_ok = False   # search judges the real code with the oracle only
    try:
        check_lifetimes(ctx, capped, vals)
    finally:
        ctx.model_ok = ok


def replay(ctx, obj):
    case = obj.get("case", obj)
    kind = case.get("kind")
    if kind == "lifetime":
        ms = case["ms"]
        r = real_hdr(MIB(), ms) if case.get("via") == "api" else real_set(ms)
        bad = oracle_lifetime(ms, r[2])
        print(f"request {ms} ms -> {r} : {bad or 'ok'}")
        return bool(bad)
    if kind == "code":
        code = case["code"]
        bh = BasicHeader.decode_from_bytes(bytes([0x11, 0, code, 7]))
        ok = bh.lt.get_value_in_millis() == (code >> 2) * UNITS[code & 3] and bh.encode_to_bytes()[2] == code
        print(f"code {code} -> {bh.lt} ok={ok}")
        return not ok
    if kind in ("router", "guard"):
        sub = Ctx_like(ctx)
        router_mod.Timer = _NoTimer
        try:
            with rs.VClock(1_700_000_000_000) as clock:
                if kind == "router":
                    t, h, d, ms, s = case["case"]
                    pkt = emit(t, h, d, ms, s, clock)
                    if pkt is None:
                        return True
                    rhl, mhl = pkt[3], pkt[10]
                    lt_ms = BasicHeader.decode_from_bytes(pkt[0:4]).lt.get_value_in_millis()
                    want_ms = ms if (ms is not None and t in ("shb", "gbc", "gac", "guc")) else s * 1000
                    bad = oracle_hops(t, h, d, rhl, mhl) + oracle_lifetime(want_ms, lt_ms)
                    print(f"{case['case']} -> rhl={rhl} mhl={mhl} lt={lt_ms}: {bad or 'ok'}")
                    return bool(bad)
                rhl, mhl, t = case["rhl"], case["mhl"], case.get("transport", "shb")
                processed, _ = guard_outcome(emit(t, 5, 10, 3000, 60, clock), rhl, mhl)
                print(f"{t} rhl={rhl} mhl={mhl} processed={processed}")
                return processed != (rhl <= mhl)
        finally:
            router_mod.Timer = threading.Timer
    raise Infra(f"unknown replay kind {kind}")


def Ctx_like(ctx):
    return ctx

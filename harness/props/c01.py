"""C01 — End-to-end payload delivery between stations through BTP and GeoNetworking.

Theorems: lean/Props/C01.lean (BTP header round trip for all payloads/ports; own packets and duplicates ignored;
no cross-port delivery; LS buffer flushed in order; `e2e_two_stations`: for every programme of requests issued by
either of two stations, each handler receives exactly the prescribed deliveries, once, byte-identical, in order).
Model: lean/FlexModel/Net/{Stack,Flood}.lean.
Tie: 2–4 REAL stacks (GN router + BTP router + raw port handlers) on an in-memory ether under a virtual clock
and virtual timers run random request programmes; after every request the new handler invocations of every
station are compared with the model's (n-station executable flood) and judged by an independent oracle
(`expected_deliveries`, written from the property text with the harness' own geometry).
"""
from __future__ import annotations

import math

from common import Infra, corpus
import realstack as rs
import station as st_mod
import ether as eth_mod

from flexstack.btp.service_access_point import BTPDataRequest
from flexstack.geonet.mib import AreaForwardingAlgorithm
from flexstack.geonet.position_vector import LongPositionVector, TST
from flexstack.geonet.service_access_point import (
    Area, CommonNH, GeoAnycastHST, GeoBroadcastHST, HeaderSubType, HeaderType, PacketTransportType,
    TopoBroadcastHST, TrafficClass)

MODULES = ["Props.C01"]
DRIVERS = ["Net"]
TRUSTED = [
    "modelled rather than verified: GN header byte layouts (C02), the geometric area test (C07: the model takes "
    "`inside` as a relation supplied by the harness' own placement), greedy-forwarding geometry, PDR gate, CBF timing "
    "(only handler invocations are compared), location-table expiry (programmes stay below the entry lifetime)",
    "the unbounded theorem covers two stations with a synchronous reliable medium; 3–4 station meshes and CBF are "
    "covered by the correspondence runs against the executable n-station model only",
]
ASSUMPTIONS = [
    "all stations are within mutual radio range; the medium is reliable and FIFO",
    "security disabled in this check (security on with a common root is exercised by C03/C05)",
    "store-carry-forward traffic classes: known finding C01-KF1 (forwarding buffers are stubs)",
]

PORT_POOL = [2001, 2002, 1, 0, 65535, 32768]
BASE_MS = 1_700_000_000_000


# ------------------------------------------------------------------------------------------------


def offset(lat, lon, north_m, east_m):
    """move (lat, lon) [1e-7 deg] by metres (small-distance planar approximation; margins are generous)"""
    dlat = north_m / 111_320.0
    dlon = east_m / (111_320.0 * max(0.05, math.cos(math.radians(lat / 1e7))))
    return int(round(lat + dlat * 1e7)), int(round(lon + dlon * 1e7))


class Net:
    """n real stations on the ether + the bookkeeping needed to compare with model and oracle"""

    def __init__(self, clock, spec):
        self.clock = clock
        self.vt = eth_mod.VTimers(clock).install()
        self.ether = eth_mod.Ether()
        self.st, self.hits, self.ports, self.pos, self.lines = {}, {}, {}, {}, []
        algo = AreaForwardingAlgorithm.CBF if spec["cbf"] else AreaForwardingAlgorithm.SIMPLE
        clat, clon = spec["centre"]
        # area 1: circle r=200 m at the centre (stations placed ≤ 60 m from it are inside, ≥ 800 m outside);
        # area 2: circle r=1.7 km (just below itsGnMaxGeoAreaSize = 10 km²; everybody inside)
        self.areas = {1: ("circle", clat, clon, 200, 200, 0), 2: ("circle", clat, clon, 1700, 1700, 0),
                      3: ("rect", clat, clon, 200, 100, 0), 4: ("elip", clat, clon, 200, 100, 30)}
        self.inside = {}
        for sd in spec["stations"]:
            i, lat, lon = sd["i"], sd["lat"], sd["lon"]
            for a in (1, 3, 4):     # near stations (≤ 60 m) are inside, far ones (≥ 800 m) outside, whatever the shape
                self.inside[(a, i)] = bool(sd["near"])
            self.inside[(2, i)] = True
            with rs.quiet():
                s = st_mod.Station(i, clock, facilities=(), with_ldm=False, lat=lat, lon=lon,
                                   itsGnAreaForwardingAlgorithm=algo)
            s.btp.indication_callbacks = None
            s.btp.pre_indication_callbacks = {}
            hits = []
            for p in sd["ports"]:
                s.btp.register_indication_callback_btp(p, (lambda pp, h: (lambda ind: h.append((pp, ind))))(p, hits))
            s.btp.freeze_callbacks()
            self.ether.attach(i, s)
            self.st[i], self.hits[i], self.ports[i], self.pos[i] = s, hits, list(sd["ports"]), lat
            self.lines.append(f"station {i} {lat + 900000000} {s.mib.itsGnDefaultHopLimit} {','.join(map(str, sd['ports']))}")
        for (a, i), v in sorted(self.inside.items()):
            if v:
                self.lines.append(f"inside {a} {i}")

    def close(self):
        self.vt.uninstall()

    def settle(self):
        """deliver everything in the air, letting CBF timers expire (LS retransmission timers stay pending)"""
        for _ in range(50):
            self.ether.pump()
            cbf = [t for _, t in self.vt.pending() if getattr(t.function, "__name__", "") == "_cbf_timeout"]
            if not cbf and not self.ether.queue:
                return
            if cbf:
                self.vt.advance(150, after_each=self.ether.pump)
        raise Infra("network does not settle")

    def issue(self, i, req):
        """req = dict(btpB, dport, info, payload, tr, arg, hl, scf). returns canonical new deliveries per station"""
        before = {k: len(v) for k, v in self.hits.items()}
        tr, arg = req["tr"], req["arg"]
        kw = {}
        if tr == "shb":
            ptt = PacketTransportType(header_type=HeaderType.TSB, header_subtype=TopoBroadcastHST.SINGLE_HOP)
        elif tr in ("gbc", "gac"):
            shape, alat, alon, ra, rb, ang = self.areas[arg]
            hst = {"gbc": {"circle": GeoBroadcastHST.GEOBROADCAST_CIRCLE, "rect": GeoBroadcastHST.GEOBROADCAST_RECT,
                           "elip": GeoBroadcastHST.GEOBROADCAST_ELIP},
                   "gac": {"circle": GeoAnycastHST.GEOANYCAST_CIRCLE, "rect": GeoAnycastHST.GEOANYCAST_RECT,
                           "elip": GeoAnycastHST.GEOANYCAST_ELIP}}[tr][shape]
            ptt = PacketTransportType(header_type=HeaderType.GEOBROADCAST if tr == "gbc" else HeaderType.GEOANYCAST,
                                      header_subtype=hst)
            kw["gn_area"] = Area(latitude=alat, longitude=alon, a=ra, b=rb, angle=ang)
        else:
            ptt = PacketTransportType(header_type=HeaderType.GEOUNICAST, header_subtype=HeaderSubType.UNSPECIFIED)
            kw["gn_destination_address"] = self.st[arg].mib.itsGnLocalGnAddr
        breq = BTPDataRequest(
            btp_type=CommonNH.BTP_B if req["btpB"] else CommonNH.BTP_A,
            destination_port=req["dport"],
            destination_port_info=req["info"] if req["btpB"] else 0,
            source_port=0 if req["btpB"] else req["info"],
            gn_packet_transport_type=ptt, data=bytes(req["payload"]), length=len(req["payload"]),
            gn_max_hop_limit=req["hl"], traffic_class=TrafficClass(scf=bool(req["scf"])), **kw)
        err = None
        try:
            with rs.quiet():
                self.st[i].btp.btp_data_request(breq)
            self.settle()
        except Infra:
            raise
        except Exception as e:  # noqa: BLE001
            err = f"{type(e).__name__}: {e}"
            self.ether.queue.clear()
        new = {}
        for k, h in self.hits.items():
            new[k] = [self.canon(ind, p) for p, ind in h[before[k]:]]
        return new, err

    def canon(self, ind, port):
        ht = ind.gn_packet_transport_type.header_type
        kind = {HeaderType.TSB: "shb", HeaderType.GEOBROADCAST: "gbc", HeaderType.GEOANYCAST: "gac",
                HeaderType.GEOUNICAST: "guc"}.get(ht, str(ht))
        pv = ind.gn_source_position_vector
        so = next((k for k, s in self.st.items() if s.mib.itsGnLocalGnAddr.encode() == pv.gn_addr.encode()), -1)
        btpb = 1 if ind.source_port == 0 and not getattr(ind, "_btpa", False) else 0
        return (ind.destination_port, ind.destination_port_info, ind.source_port, bytes(ind.data).hex() or "-",
                so, pv.latitude + 900000000, kind)


def expected_deliveries(net, i, req):
    """oracle from the property text: who must be handed what for this request"""
    exp = {k: [] for k in net.st}
    for k in net.st:
        if k == i or k in net.ether.down:
            continue
        tr, arg = req["tr"], req["arg"]
        addressed = (tr == "shb" or (tr in ("gbc", "gac") and net.inside[(arg, k)]) or (tr == "guc" and arg == k))
        if addressed and req["dport"] in net.ports[k]:
            exp[k].append((req["dport"], req["info"] if req["btpB"] else 0, 0 if req["btpB"] else req["info"],
                           bytes(req["payload"]).hex() or "-", i, net.pos[i] + 900000000, tr))
    return exp


def model_line(i, req, blocked):
    pl = bytes(req["payload"]).hex() or "-"
    return f"req {i} {1 if req['btpB'] else 0} {req['dport']} {req['info']} {pl} {req['tr']} {req['arg']} {req['hl']} {1 if blocked else 0}"


def parse_model(out, net):
    res = {k: [] for k in net.st}
    if out == "none":
        return res
    for item in out.split(" "):
        k, d = item.split(":", 1)
        port, info, btpb, pl, so, pos, kind = d.split("/")
        kind = kind.rstrip("0123456789")
        port, info, btpb = int(port), int(info), int(btpb)
        res[int(k)].append((port, info if btpb else 0, 0 if btpb else info, pl, int(so), int(pos), kind))
    return res


def gen_request(ctx, n, allow_scf=False):
    i = ctx.rng.randrange(1, n + 1)
    tr = ctx.rng.choice(["shb", "gbc", "gbc", "gac", "guc", "guc", "guc"])
    arg = 0
    if tr in ("gbc", "gac"):
        arg = ctx.rng.choice([1, 2, 3, 4])
    elif tr == "guc":
        arg = ctx.rng.choice([k for k in range(1, n + 1) if k != i])
    ln = ctx.rng.choice([0, 0, 1, 2, 3, 17, 100, 1399, 1400]) if ctx.rng.random() < 0.7 else ctx.rng.randrange(0, 1401)
    fill = ctx.rng.choice(["rand", "zero", "ones"])
    payload = (bytes(ctx.rng.randrange(256) for _ in range(ln)) if fill == "rand"
               else (b"\x00" if fill == "zero" else b"\xff") * ln)
    dport = ctx.rng.choice(PORT_POOL) if ctx.rng.random() < 0.8 else ctx.rng.randrange(65536)
    info = ctx.rng.choice([0, 1, 255, 256, 65535, ctx.rng.randrange(65536)])
    return [i, {"btpB": ctx.rng.random() < 0.6, "dport": dport, "info": info, "payload": payload.hex(), "tr": tr,
                "arg": arg, "hl": ctx.rng.choice([0, 1, 2, 3, 10, 255]), "scf": bool(allow_scf and ctx.rng.random() < 0.5)}]


def signed_coordinates_ok():
    try:
        LongPositionVector(latitude=-1, longitude=-1).encode()
        return True
    except Exception:  # noqa: BLE001
        return False


def ls_retransmissions(net, n0):
    """(sender, sought) of LS requests ORIGINATED (not forwarded) since ether log position n0"""
    out = []
    for snd, f in net.ether.log[n0:]:
        if len(f) >= 48 and f[0] & 0x0F == 1 and f[5] == 0x60:
            so = f[12 + 4:12 + 12]
            if so == net.st[snd].mib.itsGnLocalGnAddr.encode():
                sought = f[12 + 28:12 + 36]
                de = next((k for k, s in net.st.items() if s.mib.itsGnLocalGnAddr.encode() == sought), -1)
                out.append((snd, de))
    return out


def run_programme(clock, spec):
    """spec: dict(centre, cbf, stations[{i,lat,lon,near,ports}], steps) — fully explicit.  steps:
    [i, req] request at station i | ["adv", ms] | ["down", k] / ["up", k] station k leaves / re-enters radio range"""
    clock.ms = BASE_MS
    net = Net(clock, spec)
    lines = list(net.lines)
    reals = []      # per model-compared step: (i, req | None, new, exp | None, err, blocked, n_model_lines)
    deferred = {}   # station that is down -> payloads it must receive once it is back (unicast via location service)
    try:
        for step in spec["steps"]:
            if step[0] in ("down", "up"):
                k = step[1]
                (net.ether.down.add if step[0] == "down" else net.ether.down.discard)(k)
                lines.append(f"{step[0]} {k}")
                if step[0] == "down":
                    deferred.setdefault(k, [])
                continue
            before = {k: len(v) for k, v in net.hits.items()}
            if step[0] == "adv":
                n0 = len(net.ether.log)
                net.vt.advance(step[1], after_each=net.ether.pump)
                net.settle()
                new = {k: [net.canon(ind, p) for p, ind in h[before[k]:]] for k, h in net.hits.items()}
                retx = ls_retransmissions(net, n0)
                for (snd, de) in retx:
                    lines.append(f"lsretx {snd} {de}")
                exp = {k: [] for k in net.st}
                for k in list(deferred):
                    if k not in net.ether.down and new.get(k):
                        exp[k] = deferred.pop(k)     # everything queued for k must arrive, in order, exactly once
                reals.append((0, None, new, exp, None, False, len(retx)))
                continue
            i, req = step
            req = dict(req, payload=list(bytes.fromhex(req["payload"])))
            new, err = net.issue(i, req)
            exp = expected_deliveries(net, i, req)
            if req["tr"] == "guc" and req["arg"] in net.ether.down and req["dport"] in net.ports[req["arg"]]:
                deferred[req["arg"]].append((req["dport"], req["info"] if req["btpB"] else 0, 0 if req["btpB"] else req["info"],
                                             bytes(req["payload"]).hex() or "-", i, net.pos[i] + 900000000, "guc"))
            blocked = bool(req["scf"]) and new != exp and not any(new.values())
            lines.append(model_line(i, req, blocked))
            reals.append((i, req, new, exp, err, blocked, 1))
        # whatever is still owed to a station that came back must have been delivered by the end of the programme
        owed = {k: v for k, v in deferred.items() if v and k not in net.ether.down}
    finally:
        net.close()
    return net, lines, reals, owed


def gen_spec(ctx, hemisphere, nsteps, scf=False):
    n = ctx.rng.choice([2, 2, 3, 4])
    clat = ctx.rng.randrange(10_0000000, 60_0000000) * (1 if hemisphere[0] else -1)
    clon = ctx.rng.randrange(1_0000000, 170_0000000) * (1 if hemisphere[1] else -1)
    stations = []
    for i in range(1, n + 1):
        near = ctx.rng.random() < 0.6
        d = ctx.rng.uniform(0, 60) if near else ctx.rng.uniform(800, 1400)
        ang = ctx.rng.uniform(0, 2 * math.pi)
        lat, lon = offset(clat, clon, d * math.cos(ang), d * math.sin(ang))
        ports = sorted(set(ctx.rng.sample(PORT_POOL, ctx.rng.randrange(1, len(PORT_POOL)))))
        stations.append({"i": i, "lat": lat, "lon": lon, "near": near, "ports": ports})
    steps, total_adv = [], 0
    if n >= 2 and not scf and ctx.rng.random() < 0.5:
        # a station that nobody has heard yet is out of range for a while: unicast requests to it (from ONE source)
        # wait in the location-service buffer, other traffic goes on; when it is back the lookup succeeds on the
        # next retransmission and the buffered requests must arrive in order
        d = ctx.rng.randrange(1, n + 1)
        src = ctx.rng.choice([k for k in range(1, n + 1) if k != d])
        steps.append(["down", d])
        for _ in range(ctx.rng.randrange(2, 7)):
            r = gen_request(ctx, n)
            if r[0] == d:
                r[0] = src
            if r[1]["tr"] == "guc" and (r[1]["arg"] == d or r[1]["arg"] == r[0]):
                r[0], r[1]["arg"] = src, d
            if ctx.rng.random() < 0.4:
                r[0], r[1]["tr"], r[1]["arg"] = src, "guc", d
            steps.append(r)
            if ctx.rng.random() < 0.3 and total_adv < 3000:
                steps.append(["adv", 1000])
                total_adv += 1000
        steps += [["up", d], ["adv", 1000], ["adv", 1000]]
        total_adv += 2000
    for _ in range(nsteps):
        if ctx.rng.random() < 0.2 and total_adv < 12000:
            ms = ctx.rng.choice([1000, 1000, 2000])
            total_adv += ms
            steps.append(["adv", ms])
        else:
            steps.append(gen_request(ctx, n, allow_scf=scf))
    return {"centre": [clat, clon], "cbf": ctx.rng.random() < 0.4, "stations": stations, "steps": steps}


def judge(ctx, spec, reals, model_out, owed):
    pos = 0
    for idx, (i, req, new, exp, err, blocked, nlines) in enumerate(reals):
        ctx.evals()
        case = {"kind": "programme", "spec": spec, "upto": idx}
        mo_lines = model_out[pos:pos + nlines] if model_out is not None else None
        pos += nlines
        if req is None:       # clock advance (location-service retransmissions may fire)
            ctx.cover("adv_steps")
            if any(exp.values()):
                ctx.cover("deferred_flushes")
                ctx.nontrivial(("flush", idx, tuple(len(v) for v in exp.values())))
            if any(new.get(k, []) != v for k, v in exp.items() if v) or any(new[k] and not exp[k] for k in new):
                ctx.violation("deliveries after a location-service retransmission differ from the requests buffered for the "
                              f"destination: got { {k: len(v) for k, v in new.items()} } want { {k: len(v) for k, v in exp.items()} }", case)
        else:
            ctx.cover("req_" + req["tr"])
            ctx.cover("payload_len_%s" % ("0" if not req["payload"] else "1-3" if len(req["payload"]) <= 3 else
                                          ">=1399" if len(req["payload"]) >= 1399 else "mid"))
            if err:
                ctx.violation(f"request at station {i} raised {err}", case)
                continue
            if new != exp:
                fid = "C01-KF1" if (req["scf"] and blocked) else None
                got = {k: len(v) for k, v in new.items()}
                want = {k: len(v) for k, v in exp.items()}
                ctx.violation(f"{req['tr']} from station {i}: handler invocations {got} differ from prescribed {want}"
                              f"{' (SCF set, nothing sent)' if fid else ''}", case, fid)
            if any(exp.values()):
                ctx.nontrivial(("req", req["tr"], req["arg"], req["btpB"], len(req["payload"]), req["dport"],
                                len(spec["stations"]), spec["cbf"], idx))
        if mo_lines is not None:
            mo = {k: [] for k in new}
            for ln in mo_lines:
                for k, v in parse_model(ln, Obj(new)).items():
                    mo[k] += v
            if mo != new:
                ctx.mismatch("net.deliveries", case, {str(k): v for k, v in new.items()}, mo_lines)
    if owed:
        ctx.violation(f"unicast requests buffered during a location-service lookup were never delivered: "
                      f"{ {k: len(v) for k, v in owed.items()} }", {"kind": "programme", "spec": spec, "upto": len(reals)})


def steps_upto(spec, idx):
    """number of programme steps up to and including request number idx"""
    k = -1
    for n, st in enumerate(spec["steps"]):
        if st[0] not in ("down", "up"):
            k += 1
            if k == idx:
                return n + 1
    return len(spec["steps"])


class Obj:
    def __init__(self, new):
        self.st = new


def one_run(ctx, clock, hemi, nsteps, scf=False):
    spec = gen_spec(ctx, hemi, nsteps, scf)
    net, lines, reals, owed = run_programme(clock, spec)
    model_out = None
    if ctx.model_ok:
        out = ctx.model("Net", ["reset"] + lines)
        model_out = [o for l, o in zip(["reset"] + lines, out) if l.startswith(("req ", "lsretx "))]
    judge(ctx, spec, reals, model_out, owed)
    ctx.cover("programmes")
    ctx.cover(f"stations_{len(spec['stations'])}")
    ctx.cover("cbf" if spec["cbf"] else "simple")
    return spec, reals


def run(ctx):
    ctx.extra["rule"] = ("random request programmes (SHB/GBC/GAC/GUC incl. unicast to never-heard stations → location "
                         "service, requests issued while a lookup is pending, BTP-A/B, ports from a pool incl. 0/65535 and "
                         "unregistered ones, payload lengths 0,1,2,3,…,1399,1400 with random/zero/ones fill, hop limits, clock "
                         "advances) on 2–4 real stacks, both hemispheres, SIMPLE and CBF; distinct_nontrivial = distinct "
                         "(transport, BTP type, payload length, port, n, algorithm, position) of requests that had to be delivered")
    signed = signed_coordinates_ok()
    ctx.extra["signed_coordinates_encodable"] = signed
    with rs.VClock(BASE_MS) as clock:
        if not signed:
            ctx.violation("stations in the southern/western hemisphere cannot originate packets: negative latitude/longitude "
                          "raise OverflowError in LongPositionVector.encode (see C02)", {"kind": "signed"})
        hemis = [(True, True), (False, True), (True, False), (False, False)] if signed else [(True, True)]
        nprog = ctx.scale(24, 600)
        first = None
        for k in range(nprog):
            spec, reals = one_run(ctx, clock, hemis[k % len(hemis)], ctx.rng.randrange(4, ctx.scale(14, 40)))
            if first is None and reals:
                first = {"stations": spec["stations"], "cbf": spec["cbf"], "centre": spec["centre"],
                         "first_steps": [[s[0], {kk: (vv if kk != "payload" else f"{len(vv) // 2} octets") for kk, vv in s[1].items()}]
                                         if isinstance(s[1], dict) else list(s) for s in spec["steps"][:6]]}
        if first:
            ctx.sample("programme", first)
        # store-carry-forward stream (known finding C01-KF1), judged by the oracle; model run with the `blocked` bit
        for k in range(ctx.scale(4, 40)):
            one_run(ctx, clock, hemis[k % len(hemis)], 6, scf=True)


def search(ctx):
    ok = ctx.model_ok
    ctx.model_ok = False
    try:
        with rs.VClock(BASE_MS) as clock:
            signed = signed_coordinates_ok()
            hemis = [(True, True), (False, True), (True, False), (False, False)] if signed else [(True, True)]
            for k in range(ctx.scale(80, 900)):
                one_run(ctx, clock, hemis[k % len(hemis)], ctx.rng.randrange(6, 30))
    finally:
        ctx.model_ok = ok


def replay(ctx, obj):
    case = obj.get("case", obj)
    if case.get("kind") == "signed":
        return not signed_coordinates_ok()
    spec = case["spec"]
    with rs.VClock(BASE_MS) as clock:
        net, lines, reals, owed = run_programme(clock, spec)
    bad = bool(owed)
    for i, req, new, exp, err, blocked, _ in reals:
        if req is None:
            if any(new.get(k, []) != v for k, v in exp.items() if v) or any(new[k] and not exp[k] for k in new):
                print("adv: got", {k: len(v) for k, v in new.items()}, "want", {k: len(v) for k, v in exp.items()})
                bad = True
        elif err or (new != exp and not (req["scf"] and blocked)):
            print("station", i, req["tr"], "got", {k: len(v) for k, v in new.items()}, "want",
                  {k: len(v) for k, v in exp.items()}, err)
            bad = True
    if owed:
        print("never delivered:", {k: len(v) for k, v in owed.items()})
    return bad

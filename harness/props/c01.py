"""C01 — End-to-end payload delivery between stations through BTP and GeoNetworking.

Theorems: lean/Props/C01.lean (BTP header round trip for all payloads/ports; own packets and duplicates ignored;
no cross-port delivery; LS buffer flushed in order; `e2e_n_stations`: for every number of stations in mutual range,
every programme of requests issued by any of them and ANY delivery order of the frames of each exchange, each
handler receives exactly the prescribed deliveries, once, byte-identical, in request order; `async_exactly_once_n`:
exactly-once for any interleaving of requests and deliveries; `e2e_two_stations` kept).
Model: lean/FlexModel/Net/{Stack,Mesh}.lean; the driver executes `Mesh.stepG` (= the theorems' `Mesh.step` for full
range and plain semantics, `driver_step_is_model_step`) with the code's duplicate ring (8) and SN wrap (65535).
Tie: 2–5 REAL stacks (GN router + BTP router + raw port handlers) on an in-memory ether under a virtual clock
and virtual timers run random request programmes - FIFO medium or asynchronous medium with a seeded random delivery
order per (receiver, frame) pair, single requests and bursts (several requests in the air together, location-service
lookups answered while other traffic is in flight), SN wrap; after every step the new handler invocations of every
station (ports, payload, full source position vector, transport type + subtype + area, BTP type) are compared with
the model's and judged by an independent oracle (`expected_deliveries`, written from the property text with the
harness' own geometry).
"""
from __future__ import annotations

import math
import os
import random
import time

from common import Infra, corpus
import realstack as rs
import station as st_mod
import ether as eth_mod

from flexstack.btp.service_access_point import BTPDataRequest
from flexstack.geonet.mib import AreaForwardingAlgorithm
from flexstack.geonet.position_vector import LongPositionVector, TST
from flexstack.geonet.service_access_point import (
    Area, CommonNH, GeoAnycastHST, GeoBroadcastHST, HeaderSubType, HeaderType, PacketTransportType,
    TopoBroadcastHST, TrafficClass)

MODULES = ["Props.C01"]
DRIVERS = ["Net"]
TRUSTED = [
    "modelled rather than verified: GN header byte layouts (C02), the geometric area test (C07: the model takes "
    "`inside` as a relation supplied by the harness' own placement), greedy-forwarding geometry, PDR gate, CBF timing "
    "(only handler invocations are compared), location-table expiry (programmes stay below the entry lifetime)",
    "the unbounded theorems (`e2e_n_stations`, `async_exactly_once_n`) are about the plain semantics (unbounded duplicate "
    "memory and sequence numbers) with every station in range of every other; the driver runs the ring(8)/wrap(65535) "
    "variant of the same step function; link-down, LS retransmission, CBF and the ring/wrap variant are covered by the "
    "correspondence runs only",
]
ASSUMPTIONS = [
    "all stations are within mutual radio range; the medium is reliable (every frame reaches every other station "
    "exactly once) but may deliver in any order",
    "security disabled in this check (security on with a common root is exercised by C03/C05)",
    "store-carry-forward traffic classes: known finding C01-KF1 (forwarding buffers are stubs)",
    "more than itsGnDPLLength (8) multi-hop packets of one source in flight with a third station forwarding: known "
    "finding C01-KF2 (duplicate packet list is a ring of 8 per source)",
]

PORT_POOL = [2001, 2002, 1, 0, 65535, 32768]
BASE_MS = 1_700_000_000_000
DPL_LEN = 8            # itsGnDPLLength (checked against the MIB at run time)
SN_MOD = 65535         # get_sequence_number: (sn + 1) % (2**16 - 1)


# ------------------------------------------------------------------------------------------------


def offset(lat, lon, north_m, east_m):
    """move (lat, lon) [1e-7 deg] by metres (small-distance planar approximation; margins are generous)"""
    dlat = north_m / 111_320.0
    dlon = east_m / (111_320.0 * max(0.05, math.cos(math.radians(lat / 1e7))))
    return int(round(lat + dlat * 1e7)), int(round(lon + dlon * 1e7))


def dist_m(p, q):
    """distance in metres between two (lat, lon) [1e-7 deg] points, harness' own planar approximation"""
    (la1, lo1), (la2, lo2) = p, q
    c = math.cos(math.radians((la1 + la2) / 2e7))
    return math.hypot((la1 - la2) / 1e7 * 111_320.0, (lo1 - lo2) / 1e7 * 111_320.0 * c)


def lpv_int(pv):
    """the whole long position vector (address, timestamp, position, PAI, speed, heading) as one number"""
    return int.from_bytes(pv.encode(), "big")


SHAPE_HST = {"gbc": {"circle": GeoBroadcastHST.GEOBROADCAST_CIRCLE, "rect": GeoBroadcastHST.GEOBROADCAST_RECT,
                     "elip": GeoBroadcastHST.GEOBROADCAST_ELIP},
             "gac": {"circle": GeoAnycastHST.GEOANYCAST_CIRCLE, "rect": GeoAnycastHST.GEOANYCAST_RECT,
                     "elip": GeoAnycastHST.GEOANYCAST_ELIP}}


class Net:
    """n real stations on the ether + the bookkeeping needed to compare with model and oracle"""

    def __init__(self, clock, spec):
        self.clock = clock
        self.vt = eth_mod.VTimers(clock).install()
        order = spec.get("order") or 0
        self.order = order
        links = spec.get("links")
        self.ether = eth_mod.Ether(links={frozenset(l) for l in links} if links else None,
                                   order_rng=random.Random(order) if order else None)
        self.st, self.hits, self.ports, self.pos, self.lines = {}, {}, {}, {}, []
        self.lpv, self.last_gn = {}, {}
        algo = AreaForwardingAlgorithm.CBF if spec["cbf"] else AreaForwardingAlgorithm.SIMPLE
        clat, clon = spec["centre"]
        # area 1: circle r=200 m at the centre (stations placed ≤ 60 m from it are inside, ≥ 800 m outside);
        # area 2: circle r=1.7 km (just below itsGnMaxGeoAreaSize = 10 km²; everybody inside)
        self.areas = {1: ("circle", clat, clon, 200, 200, 0), 2: ("circle", clat, clon, 1700, 1700, 0),
                      3: ("rect", clat, clon, 200, 100, 0), 4: ("elip", clat, clon, 200, 100, 30)}
        self.inside = {}
        for sd in spec["stations"]:
            i, lat, lon = sd["i"], sd["lat"], sd["lon"]
            for a in (1, 3, 4):     # near stations (≤ 60 m) are inside, far ones (≥ 800 m) outside, whatever the shape
                self.inside[(a, i)] = bool(sd["near"])
            self.inside[(2, i)] = True
            with rs.quiet():
                s = st_mod.Station(i, clock, facilities=(), with_ldm=False, lat=lat, lon=lon,
                                   itsGnAreaForwardingAlgorithm=algo)
            if s.mib.itsGnDPLLength != DPL_LEN:
                raise Infra("itsGnDPLLength changed: adapt DPL_LEN and the model's ring length")
            s.btp.indication_callbacks = None
            s.btp.pre_indication_callbacks = {}
            hits = []
            for p in sd["ports"]:
                s.btp.register_indication_callback_btp(
                    p, (lambda pp, h, kk: (lambda ind: h.append((pp, ind, self.last_gn.get(kk)))))(p, hits, i))
            s.btp.freeze_callbacks()
            # tap the GN-level indication (destination area, next header) on its way to the BTP router
            s.gn.indication_callback = (lambda kk, fwd: (lambda gi: (self.last_gn.__setitem__(kk, gi), fwd(gi))[1]))(
                i, s.btp.btp_data_indication)
            self.ether.attach(i, s)
            self.st[i], self.hits[i], self.ports[i], self.pos[i] = s, hits, list(sd["ports"]), (lat, lon)
            self.lpv[i] = lpv_int(s.gn.ego_position_vector)
            self.lines.append(f"station {i} {self.lpv[i]} {s.mib.itsGnDefaultHopLimit} {','.join(map(str, sd['ports']))}")
        for (a, i), v in sorted(self.inside.items()):
            if v:
                self.lines.append(f"inside {a} {i}")
        for l in links or []:
            self.lines.append(f"link {l[0]} {l[1]}")
        self.nstep = 0

    def close(self):
        self.vt.uninstall()

    def seed(self):
        """seed of the model's delivery schedule for the next step (0 = FIFO, like the real ether in FIFO mode)"""
        self.nstep += 1
        return 0 if not self.order else (self.order * 7919 + self.nstep * 104729) % 2147483647 or 1

    def settle(self):
        """deliver everything in the air, letting CBF timers expire (LS retransmission timers stay pending)"""
        for _ in range(80):
            self.ether.pump()
            cbf = [t for _, t in self.vt.pending() if getattr(t.function, "__name__", "") == "_cbf_timeout"]
            if not cbf and not self.ether.queue and not self.ether.pairs:
                return
            if cbf:
                self.vt.advance(150, after_each=self.ether.pump)
        raise Infra("network does not settle")

    def btp_request(self, req):
        tr, arg = req["tr"], req["arg"]
        kw = {}
        if tr == "shb":
            ptt = PacketTransportType(header_type=HeaderType.TSB, header_subtype=TopoBroadcastHST.SINGLE_HOP)
        elif tr in ("gbc", "gac"):
            shape, alat, alon, ra, rb, ang = self.areas[arg]
            ptt = PacketTransportType(header_type=HeaderType.GEOBROADCAST if tr == "gbc" else HeaderType.GEOANYCAST,
                                      header_subtype=SHAPE_HST[tr][shape])
            kw["gn_area"] = Area(latitude=alat, longitude=alon, a=ra, b=rb, angle=ang)
        else:
            ptt = PacketTransportType(header_type=HeaderType.GEOUNICAST, header_subtype=HeaderSubType.UNSPECIFIED)
            kw["gn_destination_address"] = self.st[arg].mib.itsGnLocalGnAddr
        return BTPDataRequest(
            btp_type=CommonNH.BTP_B if req["btpB"] else CommonNH.BTP_A,
            destination_port=req["dport"],
            destination_port_info=req["info"] if req["btpB"] else 0,
            source_port=0 if req["btpB"] else req["info"],
            gn_packet_transport_type=ptt, data=bytes(req["payload"]), length=len(req["payload"]),
            gn_max_hop_limit=req["hl"], traffic_class=TrafficClass(scf=bool(req["scf"])), **kw)

    def marks(self):
        return {k: len(v) for k, v in self.hits.items()}

    def news(self, before):
        return {k: [self.canon(h, k) for h in hs[before[k]:]] for k, hs in self.hits.items()}

    def issue(self, reqs):
        """hand the requests [(i, req)] to their stations back to back, then let the medium deliver everything.
        returns (canonical new deliveries per station, error)"""
        before = self.marks()
        err = None
        try:
            for i, req in reqs:
                with rs.quiet():
                    self.st[i].btp.btp_data_request(self.btp_request(req))
            self.settle()
        except Infra:
            raise
        except Exception as e:  # noqa: BLE001
            err = f"{type(e).__name__}: {e}"
            self.ether.queue.clear()
            self.ether.pairs.clear()
        return self.news(before), err

    def area_id(self, tr, hst, area):
        for a, (shape, alat, alon, ra, rb, ang) in self.areas.items():
            if SHAPE_HST[tr][shape] == hst and area is not None and \
                    (area.latitude, area.longitude, area.a, area.b, area.angle) == (alat, alon, ra, rb, ang):
                return a
        return "?"

    def canon(self, hit, k):
        port, ind, gi = hit
        ht = ind.gn_packet_transport_type.header_type
        hst = ind.gn_packet_transport_type.header_subtype
        tr = {HeaderType.TSB: "shb", HeaderType.GEOBROADCAST: "gbc", HeaderType.GEOANYCAST: "gac",
              HeaderType.GEOUNICAST: "guc"}.get(ht, str(ht))
        if tr == "shb":
            kind = "shb" if hst == TopoBroadcastHST.SINGLE_HOP else f"tsb{hst}"
        elif tr in ("gbc", "gac"):
            kind = f"{tr}{self.area_id(tr, hst, getattr(gi, 'destination_area', None))}"
        elif tr == "guc":
            kind = f"guc{k}"
        else:
            kind = tr
        pv = ind.gn_source_position_vector
        so = next((j for j, s in self.st.items() if s.mib.itsGnLocalGnAddr.encode() == pv.gn_addr.encode()), -1)
        nh = getattr(gi, "upper_protocol_entity", None)
        btpb = 1 if nh == CommonNH.BTP_B else 0 if nh == CommonNH.BTP_A else -1
        return (ind.destination_port, ind.destination_port_info, ind.source_port, bytes(ind.data).hex() or "-",
                so, lpv_int(pv), kind, btpb)

    # ---- known finding C01-KF1: decided from the state BEFORE the request, never from its outcome ----
    def kf1_applies(self, i, req):
        """store-carry-forward bit set and the source operation would have to buffer: the sender's location table
        holds no neighbour, or (non-area forwarding) no neighbour is closer to the destination than the sender"""
        if not req["scf"]:
            return False
        s = self.st[i]
        nb = []
        for e in s.gn.location_table.get_neighbours():
            j = next((j for j, t in self.st.items() if t.mib.itsGnLocalGnAddr.encode() == e.position_vector.gn_addr.encode()), None)
            if j is not None:
                nb.append(j)
        tr, arg = req["tr"], req["arg"]
        if tr == "guc" and s.gn.location_table.get_entry(self.st[arg].mib.itsGnLocalGnAddr) is None:
            # goes through the location service first; the buffered packet is sent when the reply arrives, and the
            # reply (a multi-hop packet) clears the neighbour flag of the destination
            nb = [j for j in nb if j != arg]
        if not nb:
            return True
        if tr == "shb":
            return False
        if tr in ("gbc", "gac"):
            if self.inside[(arg, i)]:
                return False     # area forwarding
            dest = (self.areas[arg][1], self.areas[arg][2])
        else:
            dest = self.pos[arg]
        mine = dist_m(self.pos[i], dest)
        return not any(dist_m(self.pos[j], dest) < mine for j in nb)


def exp_tuple(net, i, req):
    kind = "shb" if req["tr"] == "shb" else f"{req['tr']}{req['arg']}"
    return (req["dport"], req["info"] if req["btpB"] else 0, 0 if req["btpB"] else req["info"],
            bytes(req["payload"]).hex() or "-", i, net.lpv[i], kind, 1 if req["btpB"] else 0)


def expected_deliveries(net, i, req):
    """oracle from the property text: who must be handed what for this request"""
    exp = {k: [] for k in net.st}
    for k in net.st:
        if k == i or k in net.ether.down:
            continue
        tr, arg = req["tr"], req["arg"]
        addressed = ((tr == "shb" and net.ether.hears(i, k))      # single hop: stations in radio range of the sender
                     or (tr in ("gbc", "gac") and net.inside[(arg, k)]) or (tr == "guc" and arg == k))
        if addressed and req["dport"] in net.ports[k]:
            exp[k].append(exp_tuple(net, i, req))
    return exp


def model_req(op, i, req, blocked, seed=None):
    pl = bytes(req["payload"]).hex() or "-"
    tail = "" if seed is None else f" {seed}"
    return (f"{op} {i} {1 if req['btpB'] else 0} {req['dport']} {req['info']} {pl} {req['tr']} {req['arg']} {req['hl']} "
            f"{1 if blocked else 0}{tail}")


def parse_model(out, keys):
    res = {k: [] for k in keys}
    out = out.replace(" !fuel", "")
    if out == "none":
        return res
    for item in out.split(" "):
        k, d = item.split(":", 1)
        port, info, btpb, pl, so, pos, kind = d.split("/")
        port, info, btpb = int(port), int(info), int(btpb)
        res[int(k)].append((port, info if btpb else 0, 0 if btpb else info, pl, int(so), int(pos), kind, btpb))
    return res


def gen_request(ctx, n, allow_scf=False):
    i = ctx.rng.randrange(1, n + 1)
    tr = ctx.rng.choice(["shb", "gbc", "gbc", "gac", "gac", "guc", "guc", "guc"])
    arg = 0
    if tr in ("gbc", "gac"):
        arg = ctx.rng.choice([1, 2, 3, 4])
    elif tr == "guc":
        arg = ctx.rng.choice([k for k in range(1, n + 1) if k != i])
    ln = ctx.rng.choice([0, 0, 1, 2, 3, 17, 100, 1399, 1400]) if ctx.rng.random() < 0.7 else ctx.rng.randrange(0, 1401)
    fill = ctx.rng.choice(["rand", "zero", "ones"])
    payload = (bytes(ctx.rng.randrange(256) for _ in range(ln)) if fill == "rand"
               else (b"\x00" if fill == "zero" else b"\xff") * ln)
    dport = ctx.rng.choice(PORT_POOL) if ctx.rng.random() < 0.8 else ctx.rng.randrange(65536)
    info = ctx.rng.choice([0, 1, 255, 256, 65535, ctx.rng.randrange(65536)])
    return [i, {"btpB": ctx.rng.random() < 0.6, "dport": dport, "info": info, "payload": payload.hex(), "tr": tr,
                "arg": arg, "hl": ctx.rng.choice([0, 1, 2, 3, 10, 255]), "scf": bool(allow_scf and ctx.rng.random() < 0.5)}]


def signed_coordinates_ok():
    try:
        LongPositionVector(latitude=-1, longitude=-1).encode()
        return True
    except Exception:  # noqa: BLE001
        return False


def ls_retransmissions(net, n0):
    """(sender, sought) of LS requests ORIGINATED (not forwarded) since ether log position n0"""
    out = []
    for snd, f in net.ether.log[n0:]:
        if len(f) >= 48 and f[0] & 0x0F == 1 and f[5] == 0x60:
            so = f[12 + 4:12 + 12]
            if so == net.st[snd].mib.itsGnLocalGnAddr.encode():
                sought = f[12 + 28:12 + 36]
                de = next((k for k, s in net.st.items() if s.mib.itsGnLocalGnAddr.encode() == sought), -1)
                out.append((snd, de))
    return out


def unpack(req):
    return dict(req, payload=list(bytes.fromhex(req["payload"])))


def merge(ds, keys):
    out = {k: [] for k in keys}
    for d in ds:
        for k, v in d.items():
            out[k] += v
    return out


def run_programme(clock, spec):
    """spec: dict(centre, cbf, order, stations[{i,lat,lon,near,ports}], steps) — fully explicit.  steps:
    [i, req] request at station i, then everything is delivered | ["burst", [[i, req], …]] several requests back to
    back, then everything is delivered | ["adv", ms] | ["down", k] / ["up", k] station k leaves / re-enters radio range
    | ["setsn", i, n] set station i's sequence number counter (wrap-around programmes)"""
    clock.ms = BASE_MS
    net = Net(clock, spec)
    lines = list(net.lines)
    reals = []      # per compared step: dict(kind, i, reqs, new, exp, err, blocked, nlines, kf1, inflight)
    deferred = {}   # station that is down -> payloads it must receive once it is back (unicast via location service)
    try:
        for step in spec["steps"]:
            if step[0] in ("down", "up"):
                k = step[1]
                (net.ether.down.add if step[0] == "down" else net.ether.down.discard)(k)
                lines.append(f"{step[0]} {k}")
                if step[0] == "down":
                    deferred.setdefault(k, [])
                continue
            if step[0] == "setsn":
                net.st[step[1]].gn.sequence_number = step[2]
                lines.append(f"setsn {step[1]} {step[2]}")
                continue
            before = net.marks()
            if step[0] == "adv":
                n0 = len(net.ether.log)
                net.vt.advance(step[1], after_each=net.ether.pump)
                net.settle()
                new = net.news(before)
                retx = ls_retransmissions(net, n0)
                for (snd, de) in retx:
                    lines.append(f"lsretx {snd} {de} {net.seed()}")
                exp = {k: [] for k in net.st}
                inflight = 0
                for k in list(deferred):
                    if k not in net.ether.down and new.get(k):
                        exp[k] = deferred.pop(k)     # everything queued for k must arrive, in order, exactly once
                        inflight = max(inflight, len(exp[k]))
                reals.append(dict(kind="adv", i=0, reqs=[], new=new, exp=exp, err=None, blocked=[], nlines=len(retx),
                                  kf1=[], inflight=inflight))
                continue
            if step[0] == "burst":
                reqs = [(i, unpack(r)) for i, r in step[1]]
            else:
                reqs = [(step[0], unpack(step[1]))]
            kf1 = [net.kf1_applies(i, r) for i, r in reqs]
            exp = merge([expected_deliveries(net, i, r) for i, r in reqs], net.st)
            new, err = net.issue(reqs)
            for (i, r) in reqs:
                if r["tr"] == "guc" and r["arg"] in net.ether.down and r["dport"] in net.ports[r["arg"]]:
                    deferred[r["arg"]].append(exp_tuple(net, i, r))
            # scf + lookup first (kf1 undecided): the flush is subject to the same stub; decided by what the
            # sender's location table held when the request was issued is not possible -> such requests are not
            # generated (gen_spec), an explicit programme with one is compared without the model
            blocked = [bool(b) for b in kf1]
            if len(reqs) == 1:
                lines.append(model_req("req", reqs[0][0], reqs[0][1], blocked[0], net.seed()))
                nl = 1
            else:
                for (i, r), b in zip(reqs, blocked):
                    lines.append(model_req("reqq", i, r, b))
                lines.append(f"drain {net.seed()}")
                nl = len(reqs) + 1
            per_src = {}
            for i, r in reqs:
                if r["tr"] != "shb":
                    per_src[i] = per_src.get(i, 0) + 1
            reals.append(dict(kind="burst" if len(reqs) > 1 else "req", i=reqs[0][0], reqs=reqs, new=new, exp=exp, err=err,
                              blocked=blocked, nlines=nl, kf1=kf1, inflight=max(per_src.values(), default=0)))
        # whatever is still owed to a station that came back must have been delivered by the end of the programme
        owed = {k: v for k, v in deferred.items() if v and k not in net.ether.down}
    finally:
        net.close()
    return net, lines, reals, owed


def gen_spec(ctx, hemisphere, nsteps, scf=False, n=None):
    n = n or ctx.rng.choice([2, 3, 3, 4, 4, 5])
    clat = ctx.rng.randrange(10_0000000, 60_0000000) * (1 if hemisphere[0] else -1)
    clon = ctx.rng.randrange(1_0000000, 170_0000000) * (1 if hemisphere[1] else -1)
    stations = []
    for i in range(1, n + 1):
        near = ctx.rng.random() < 0.65
        d = ctx.rng.uniform(0, 60) if near else ctx.rng.uniform(800, 1400)
        ang = ctx.rng.uniform(0, 2 * math.pi)
        lat, lon = offset(clat, clon, d * math.cos(ang), d * math.sin(ang))
        ports = sorted(set(ctx.rng.sample(PORT_POOL, ctx.rng.randrange(1, len(PORT_POOL)))))
        stations.append({"i": i, "lat": lat, "lon": lon, "near": near, "ports": ports})
    # medium: FIFO, or asynchronous with a seeded random delivery order per (receiver, frame) pair
    order = 0 if ctx.rng.random() < 0.35 else ctx.rng.randrange(1, 2 ** 30)
    steps, total_adv = [], 0
    if not scf and ctx.rng.random() < 0.3:
        # sequence numbers about to wrap (get_sequence_number: modulo 65535)
        for i in ctx.rng.sample(range(1, n + 1), ctx.rng.randrange(1, n + 1)):
            steps.append(["setsn", i, SN_MOD - ctx.rng.randrange(1, 6)])
    if n >= 2 and not scf and ctx.rng.random() < 0.4:
        # a station that nobody has heard yet is out of range for a while: unicast requests to it (from ONE source)
        # wait in the location-service buffer, other traffic goes on; when it is back the lookup succeeds on the
        # next retransmission and the buffered requests must arrive in order
        d = ctx.rng.randrange(1, n + 1)
        src = ctx.rng.choice([k for k in range(1, n + 1) if k != d])
        steps.append(["down", d])
        for _ in range(ctx.rng.randrange(2, 7)):
            r = gen_request(ctx, n)
            if r[0] == d:
                r[0] = src
            if r[1]["tr"] == "guc" and (r[1]["arg"] == d or r[1]["arg"] == r[0]):
                r[0], r[1]["arg"] = src, d
            if ctx.rng.random() < 0.4:
                r[0], r[1]["tr"], r[1]["arg"] = src, "guc", d
            steps.append(r)
            if ctx.rng.random() < 0.3 and total_adv < 3000:
                steps.append(["adv", 1000])
                total_adv += 1000
        steps += [["up", d], ["adv", 1000], ["adv", 1000]]
        total_adv += 2000
    for _ in range(nsteps):
        u = ctx.rng.random()
        if u < 0.15 and total_adv < 12000:
            ms = ctx.rng.choice([1000, 1000, 2000])
            total_adv += ms
            steps.append(["adv", ms])
        elif u < 0.40 and not scf:
            # several requests in the air together: lookups are answered while other traffic is in flight, unicast
            # requests are issued while a lookup for their destination is pending; at most 6 multi-hop packets per
            # source (duplicate ring of 8, see C01-KF2)
            burst, per_src = [], {}
            for _ in range(ctx.rng.randrange(2, 6)):
                r = gen_request(ctx, n)
                if burst and ctx.rng.random() < 0.4:     # same source, same unicast destination as the previous one
                    prev = burst[-1]
                    r[0] = prev[0]
                    if prev[1]["tr"] == "guc":
                        r[1]["tr"], r[1]["arg"] = "guc", prev[1]["arg"]
                    elif r[1]["tr"] == "guc" and r[1]["arg"] == r[0]:
                        r[1]["arg"] = next(k for k in range(1, n + 1) if k != r[0])
                if per_src.get(r[0], 0) < 3:
                    per_src[r[0]] = per_src.get(r[0], 0) + 1
                    burst.append(r)
            steps.append(["burst", burst] if len(burst) > 1 else burst[0])
        else:
            steps.append(gen_request(ctx, n, allow_scf=scf))
    return {"centre": [clat, clon], "cbf": ctx.rng.random() < 0.4, "order": order, "stations": stations, "steps": steps}


def gen_line_spec(ctx, hemisphere, nsteps):
    """line topology 1 - 2 - 3 (- 4): only neighbours on the line hear each other, so every multi-hop packet has to be
    forwarded (`forwardCopy`, hop-limit handling and the forward branches of `receive` become observable).  All
    stations are inside every area (forwarding INTO an area from outside is C06's subject); GeoAnycast is not
    generated (one in-area receiver absorbs it: the others legitimately never see it)."""
    n = ctx.rng.choice([3, 3, 4])
    clat = ctx.rng.randrange(10_0000000, 60_0000000) * (1 if hemisphere[0] else -1)
    clon = ctx.rng.randrange(1_0000000, 170_0000000) * (1 if hemisphere[1] else -1)
    ang = ctx.rng.uniform(0, 2 * math.pi)
    stations = []
    for i in range(1, n + 1):
        d = -45 + 90.0 * (i - 1) / (n - 1)
        lat, lon = offset(clat, clon, d * math.cos(ang), d * math.sin(ang))
        ports = sorted(set(ctx.rng.sample(PORT_POOL, ctx.rng.randrange(2, len(PORT_POOL)))))
        stations.append({"i": i, "lat": lat, "lon": lon, "near": True, "ports": ports})
    steps = []
    for _ in range(nsteps):
        r = gen_request(ctx, n)
        if r[1]["tr"] == "gac":
            r[1]["tr"] = "gbc"
        if r[1]["hl"] in (2, 3) and n == 4:
            r[1]["hl"] = 10       # the hop limit must cover the line (reachability within the hop limit: C06)
        if r[1]["hl"] == 2:
            r[1]["hl"] = 3
        steps.append(r)
    return {"centre": [clat, clon], "cbf": False, "order": 0 if ctx.rng.random() < 0.5 else ctx.rng.randrange(1, 2 ** 30),
            "links": [[i, i + 1] for i in range(1, n)], "stations": stations, "steps": steps}


def compass_spec(ctx, hemisphere, near):
    """sender at the area centre, four receivers exactly north / south / east / west of it — all inside (60 m) or all
    outside (800–1400 m) — and every area shape as GBC and GAC: the sign of each relative coordinate is exercised
    with every shape in every run"""
    clat = ctx.rng.randrange(10_0000000, 60_0000000) * (1 if hemisphere[0] else -1)
    clon = ctx.rng.randrange(1_0000000, 170_0000000) * (1 if hemisphere[1] else -1)
    stations = [{"i": 1, "lat": clat, "lon": clon, "near": True, "ports": [2001]}]
    for i, (dn, de) in enumerate([(1, 0), (-1, 0), (0, 1), (0, -1)], start=2):
        d = ctx.rng.uniform(30, 60) if near else ctx.rng.uniform(800, 1400)
        lat, lon = offset(clat, clon, d * dn, d * de)
        stations.append({"i": i, "lat": lat, "lon": lon, "near": near, "ports": [2001]})
    steps = []
    for tr in ("gbc", "gac"):
        for area in (1, 3, 4):
            steps.append([1, {"btpB": True, "dport": 2001, "info": area, "payload": bytes([area]).hex(), "tr": tr,
                              "arg": area, "hl": 10, "scf": False}])
    return {"centre": [clat, clon], "cbf": False, "order": 0, "stations": stations, "steps": steps}


def kf2_applies(spec, rec):
    """duplicate packet list ring: more than DPL_LEN multi-hop packets of one source in flight and a third station
    that forwards them"""
    return len(spec["stations"]) >= 3 and rec["inflight"] > DPL_LEN


def judge_step(ctx, spec, idx, rec, report):
    """oracle for one step; report(what, fid)"""
    new, exp = rec["new"], rec["exp"]
    if rec["kind"] == "adv":
        # FIFO medium: the buffered requests arrive in request order; asynchronous medium: each exactly once
        norm = sorted if spec.get("order") else list
        if any(norm(new.get(k, [])) != norm(v) for k, v in exp.items() if v) or any(new[k] and not exp[k] for k in new):
            report("deliveries after a location-service retransmission differ from the requests buffered for the "
                   f"destination: got { {k: len(v) for k, v in new.items()} } want { {k: len(v) for k, v in exp.items()} }",
                   "C01-KF2" if kf2_applies(spec, rec) else None)
        return
    if rec["err"]:
        report(f"request at station {rec['i']} raised {rec['err']}", None)
        return
    trs = "+".join(r["tr"] for _, r in rec["reqs"])
    if rec["kind"] == "req":
        if new != exp:
            i, req = rec["reqs"][0]
            fid = "C01-KF1" if (req["scf"] and rec["kf1"][0] and not any(new.values())) else None
            report(f"{trs} from station {i}: handler invocations { {k: len(v) for k, v in new.items()} } differ from "
                   f"prescribed { {k: len(v) for k, v in exp.items()} }{' (SCF set, nothing sent)' if fid else ''}", fid)
        return
    # burst: exactly once (multiset) …
    if any(sorted(new[k]) != sorted(exp[k]) for k in new):
        report(f"burst {trs}: handler invocations { {k: len(v) for k, v in new.items()} } differ from prescribed "
               f"{ {k: len(v) for k, v in exp.items()} } (as multisets)", "C01-KF2" if kf2_applies(spec, rec) else None)
        return
    # … and on a FIFO medium in request order per (sender, destination of the request)
    if not spec.get("order") and not spec["cbf"]:
        for k in new:
            groups = {(i, r["tr"], r["arg"]) for (i, r) in rec["reqs"]}
            for key in sorted(groups):
                want = [d for d in exp[k] if (d[4], d[6]) == (key[0], "shb" if key[1] == "shb" else f"{key[1]}{key[2]}")]
                got = [d for d in new[k] if (d[4], d[6]) == (key[0], "shb" if key[1] == "shb" else f"{key[1]}{key[2]}")]
                if got != want:
                    report(f"burst {trs}: station {k} was handed the payloads of station {key[0]} for destination "
                           f"{key[1]}{key[2]} out of request order", None)
                    return


def judge(ctx, spec, reals, model_out, owed):
    pos = 0
    for idx, rec in enumerate(reals):
        ctx.evals()
        case = {"kind": "programme", "spec": spec, "upto": idx}
        mo_lines = model_out[pos:pos + rec["nlines"]] if model_out is not None else None
        pos += rec["nlines"]
        new, exp = rec["new"], rec["exp"]
        if rec["kind"] == "adv":
            ctx.cover("adv_steps")
            if any(exp.values()):
                ctx.cover("deferred_flushes")
                ctx.nontrivial(("flush", idx, tuple(len(v) for v in exp.values())))
        else:
            for _, req in rec["reqs"]:
                ctx.cover("req_" + req["tr"])
                ctx.cover("payload_len_%s" % ("0" if not req["payload"] else "1-3" if len(req["payload"]) <= 3 else
                                              ">=1399" if len(req["payload"]) >= 1399 else "mid"))
            if rec["kind"] == "burst":
                ctx.cover("bursts")
                if any(r["tr"] == "guc" for _, r in rec["reqs"]):
                    ctx.cover("bursts_with_unicast")
            for (_, req) in rec["reqs"]:
                if req["tr"] == "gac" and sum(1 for k in exp if any(d[6] == f"gac{req['arg']}" for d in exp[k])) >= 2:
                    ctx.cover("gac_several_in_area_receivers")
            if any(exp.values()):
                r0 = rec["reqs"][0][1]
                ctx.nontrivial((rec["kind"], r0["tr"], r0["arg"], r0["btpB"], len(r0["payload"]), r0["dport"],
                                len(spec["stations"]), spec["cbf"], bool(spec.get("order")), idx))
        judge_step(ctx, spec, idx, rec, lambda what, fid: ctx.violation(what, case, fid))
        if mo_lines is not None and not any(b is None for b in rec["kf1"]):
            mo = merge([parse_model(ln, new) for ln in mo_lines if ln != "ok"], new)
            same = (mo == new) if rec["kind"] == "req" or not spec.get("order") else \
                all(sorted(mo[k]) == sorted(new[k]) for k in new)
            if not same:
                ctx.mismatch("net.deliveries", case, {str(k): v for k, v in new.items()}, mo_lines)
    if owed:
        ctx.violation(f"unicast requests buffered during a location-service lookup were never delivered: "
                      f"{ {k: len(v) for k, v in owed.items()} }", {"kind": "programme", "spec": spec, "upto": len(reals)})


class Batch:
    """programmes are run on the real stacks one by one; the model driver is started once per batch"""

    def __init__(self, ctx, clock, size):
        self.ctx, self.clock, self.size, self.items = ctx, clock, size, []

    def add(self, spec):
        net, lines, reals, owed = run_programme(self.clock, spec)
        self.items.append((spec, ["reset"] + lines, reals, owed))
        if len(self.items) >= self.size:
            self.flush()
        return reals

    def flush(self):
        ctx, items, self.items = self.ctx, self.items, []
        if not items:
            return
        outs = None
        if ctx.model_ok:
            allines = [l for _, lines, _, _ in items for l in lines]
            out = ctx.model("Net", allines)
            if len(out) != len(allines):
                raise Infra("model driver: wrong number of output lines")
            bad = [l for l, o in zip(allines, out) if o == "bad-op"]
            if bad:
                raise Infra("model driver rejected a line: " + repr(bad[:2]))
            outs, pos = [], 0
            for _, lines, _, _ in items:
                o = out[pos:pos + len(lines)]
                pos += len(lines)
                outs.append([x for l, x in zip(lines, o) if l.startswith(("req ", "reqq ", "drain ", "lsretx "))])
        for n, (spec, lines, reals, owed) in enumerate(items):
            judge(ctx, spec, reals, outs[n] if outs is not None else None, owed)
            ctx.cover("programmes")
            ctx.cover(f"stations_{len(spec['stations'])}")
            ctx.cover("cbf" if spec["cbf"] else "simple")
            ctx.cover("medium_async" if spec.get("order") else "medium_fifo")
            if spec.get("links"):
                ctx.cover("line_topology")
            if any(s[0] == "setsn" for s in spec["steps"]):
                ctx.cover("sn_wrap_programmes")


def out_of_time(ctx, fraction=0.5):
    """stop generating new cases when `fraction` of the time budget of the run is used"""
    budget = float(os.environ.get("VERIF_TIMEOUT_S", "3300" if ctx.thorough else "1500"))
    if time.time() - ctx.t0 > fraction * budget:
        ctx.extra["truncated_by_time"] = True
        return True
    return False


def kf2_spec(nreq=DPL_LEN + 1):
    """three stations, FIFO medium; station 2 is out of range while station 1 queues nreq unicast requests for it;
    when it is back the location service answers, the buffer is flushed, station 3 forwards every packet: more than
    itsGnDPLLength packets of station 1 are in flight and station 2's duplicate ring has forgotten the first ones when
    station 3's copies arrive"""
    clat, clon = 415000000, 21000000
    sts = []
    for i in (1, 2, 3):
        lat, lon = offset(clat, clon, 10.0 * i, 5.0 * i)
        sts.append({"i": i, "lat": lat, "lon": lon, "near": True, "ports": [2001]})
    steps = [["down", 2]]
    for k in range(nreq):
        steps.append([1, {"btpB": True, "dport": 2001, "info": 0, "payload": bytes([k]).hex(), "tr": "guc", "arg": 2,
                          "hl": 10, "scf": False}])
    steps += [["up", 2], ["adv", 1000], ["adv", 1000]]
    return {"centre": [clat, clon], "cbf": False, "order": 0, "stations": sts, "steps": steps}


def run(ctx):
    ctx.extra["rule"] = ("random request programmes (SHB/GBC/GAC/GUC incl. unicast to never-heard stations → location "
                         "service, requests issued while a lookup is pending, bursts of overlapping requests, BTP-A/B, ports "
                         "from a pool incl. 0/65535 and unregistered ones, payload lengths 0,1,2,3,…,1399,1400 with "
                         "random/zero/ones fill, hop limits, clock advances, SN wrap) on 2–5 real stacks, FIFO or randomly "
                         "ordered asynchronous medium, both hemispheres, SIMPLE and CBF; distinct_nontrivial = distinct "
                         "(kind, transport, BTP type, payload length, port, n, algorithm, medium, position) of steps that had "
                         "to deliver something")
    signed = signed_coordinates_ok()
    ctx.extra["signed_coordinates_encodable"] = signed
    with rs.VClock(BASE_MS) as clock:
        if not signed:
            ctx.violation("stations in the southern/western hemisphere cannot originate packets: negative latitude/longitude "
                          "raise OverflowError in LongPositionVector.encode (see C02)", {"kind": "signed"})
        batch = Batch(ctx, clock, ctx.scale(16, 40))
        for name, c in corpus("C01"):
            if c.get("kind") == "programme":
                batch.add(c["spec"])
                ctx.cover("corpus_cases")
        # duplicate ring overflow (known finding C01-KF2; real stacks and the model's ring semantics agree on it):
        # corpus/C01/kf2_dpl_ring_overflow.json, run here explicitly if the corpus file is missing
        if not any(c.get("spec") == kf2_spec() for _, c in corpus("C01")):
            batch.add(kf2_spec())
        hemis = [(True, True), (False, True), (True, False), (False, False)] if signed else [(True, True)]
        for k, hemi in enumerate(hemis if ctx.thorough else [hemis[ctx.seed % len(hemis)]]):
            batch.add(compass_spec(ctx, hemi, near=False))
            batch.add(compass_spec(ctx, hemi, near=True))
            ctx.cover("compass_programmes", 2)
        nprog = ctx.scale(26, 400)
        first = None
        for k in range(nprog):
            if out_of_time(ctx):
                break
            # every fourth programme has at least three stations, every fifth five
            n = 5 if k % 5 == 4 else (ctx.rng.choice([3, 4, 5]) if k % 4 == 1 else None)
            spec = gen_spec(ctx, hemis[k % len(hemis)], ctx.rng.randrange(4, ctx.scale(12, 30)), n=n)
            reals = batch.add(spec)
            if first is None and reals:
                first = {"stations": spec["stations"], "cbf": spec["cbf"], "centre": spec["centre"], "order": spec["order"],
                         "first_steps": [str(s)[:160] for s in spec["steps"][:6]]}
        if first:
            ctx.sample("programme", first)
        # store-carry-forward stream (known finding C01-KF1): the stub applies when the sender's location table holds
        # no neighbour / no neighbour with progress BEFORE the request (decided from that state, not from the outcome)
        for k in range(ctx.scale(4, 40)):
            if out_of_time(ctx, 0.6):
                break
            batch.add(gen_spec(ctx, hemis[k % len(hemis)], 6, scf=True))
        # line topology: every multi-hop packet must be forwarded
        for k in range(ctx.scale(5, 40)):
            if out_of_time(ctx, 0.65):
                break
            batch.add(gen_line_spec(ctx, hemis[k % len(hemis)], ctx.rng.randrange(4, 9)))
        batch.flush()


def search(ctx):
    ok = ctx.model_ok
    ctx.model_ok = False
    try:
        with rs.VClock(BASE_MS) as clock:
            signed = signed_coordinates_ok()
            hemis = [(True, True), (False, True), (True, False), (False, False)] if signed else [(True, True)]
            batch = Batch(ctx, clock, 1)
            for k in range(ctx.scale(80, 900)):
                if out_of_time(ctx, 0.8):
                    break
                batch.add(gen_spec(ctx, hemis[k % len(hemis)], ctx.rng.randrange(6, 30),
                                   n=(None if k % 2 else ctx.rng.choice([3, 4, 5]))))
            batch.flush()
    finally:
        ctx.model_ok = ok


def replay(ctx, obj):
    case = obj.get("case", obj)
    if case.get("kind") == "signed":
        return not signed_coordinates_ok()
    spec = case["spec"]
    with rs.VClock(BASE_MS) as clock:
        net, lines, reals, owed = run_programme(clock, spec)
    bad = [False]

    for idx, rec in enumerate(reals):
        def report(what, fid, idx=idx):
            if fid == "C01-KF1":
                return
            print(f"step {idx}: {what}")
            bad[0] = True
        judge_step(ctx, spec, idx, rec, report)
    if owed:
        print("never delivered:", {k: len(v) for k, v in owed.items()})
        bad[0] = True
    return bad[0]

"""C08 — Location table reflects the newest valid information about each station.

Theorems: lean/Props/C08.lean about lean/FlexModel/Geo/{TST,LocT}.lean.
Tie: (a) every receive handler of a real Router is fed real encoded frames (beacon, SHB, TSB, GBC, GAC, GUC, LS
request, LS reply) under a virtual clock; after every operation the real LocationTable is dumped canonically and
compared with the Lean model run on the same operation list; (b) TST comparison/subtraction on an exhaustive
boundary lattice.
Oracle: `Oracle` below = independent reference "newest-by-timestamp map with expiry and sticky neighbour flag",
working in unwrapped real time, applied to the REAL get_entry/get_neighbours observations.
"""
from __future__ import annotations

import threading

from common import Infra, corpus
import realstack as rs

from flexstack.geonet.basic_header import BasicHeader, BasicNH, LT
from flexstack.geonet.common_header import CommonHeader
from flexstack.geonet.gn_address import GNAddress, M, ST, MID
from flexstack.geonet.service_access_point import (
    HeaderType, TopoBroadcastHST, GeoBroadcastHST, GeoAnycastHST, LocationServiceHST, CommonNH, TrafficClass,
    HeaderSubType)
from flexstack.geonet.position_vector import LongPositionVector, ShortPositionVector, TST
from flexstack.geonet.tsb_extended_header import TSBExtendedHeader
from flexstack.geonet.gbc_extended_header import GBCExtendedHeader
from flexstack.geonet.guc_extended_header import GUCExtendedHeader
from flexstack.geonet.ls_extended_header import LSRequestExtendedHeader, LSReplyExtendedHeader
from flexstack.geonet.mib import AreaForwardingAlgorithm
import flexstack.geonet.router as router_mod
import flexstack.geonet.location_table as loct_mod
import dsched

MODULES = ["Props.C08"] + __import__("gen_extract").bridge_modules("C08")   # + bridge lemmas of the functions py2lean could extract
DRIVERS = ["LocT"]
TRUSTED = [
    "modelled rather than verified: PDR (float EMA) is left out of the model; GNAddress dict keying is modelled as "
    "keying by the full 64-bit address (hash over M/ST/MID) with DAD comparing the MID only",
    "the harness abstraction of a real LocationTable to the canonical dump (address, tst, lat, lon, flags, DPL)",
]
ASSUMPTIONS = [
    "all timestamps and clock readings of one history lie within a window of less than 2^31 ms (about 24.8 days); "
    "for larger distances the 32-bit order cannot agree with real time (theorem tst_antipode states what happens at 2^31)",
    "known finding C08-KF1: expiry is lazy - between the expiry instant of an entry and the next reception (from any "
    "source) get_entry/get_neighbours still return the expired entry (pinned by 8 unit tests that rely on get_entry "
    "not purging)",
    "well-formed configuration: itsGnDPLLength > 0 (Props.C08.dplLen_default_wf pins the regenerated MIB default; with 0 "
    "Python's deque(maxlen=0) makes check_duplicate_sn raise IndexError on every multi-hop reception - exercised by "
    "check_dpl against the model's explicit error branch dplPushE, not part of the history runs)",
    "GNAddress dict keying = full address up to 64-bit hash collisions (Props.C08.gnaddress_keying_facts, regenerated)",
]

W = 1 << 32
HALF = 1 << 31
ITS_EPOCH_MS = 1072915200000
KINDS = ["beacon", "shb", "tsb", "gbc", "gac", "guc", "ls_request", "ls_reply"]
SINGLE = ("beacon", "shb")


class _NoTimer:
    def __init__(self, *a, **k):
        self.daemon = True

    def start(self):
        pass

    def cancel(self):
        pass


# ------------------------------------------------------------------------------------------------ frames

def addr_of(n: int) -> GNAddress:
    return GNAddress.decode(n.to_bytes(8, "big"))


def addr_int(i: int, st: ST = ST.PASSENGER_CAR) -> int:
    return rs.gn_addr(i, st=st).encode_to_int()


def lpv(addr: int, tst: int, lat: int, lon: int) -> LongPositionVector:
    return LongPositionVector(gn_addr=addr_of(addr), tst=TST(msec=tst % W), latitude=lat, longitude=lon, pai=True)


def spv(addr: int, tst: int = 0, lat: int = 0, lon: int = 0) -> ShortPositionVector:
    return ShortPositionVector(gn_addr=addr_of(addr), tst=TST(msec=tst % W), latitude=lat, longitude=lon)


def frame(kind, so_pv: LongPositionVector, sn=0, rhl=3, mhl=10, payload=b"pl", de=None, area=None, scf=False,
          lt_ms=60000):
    """encode one GeoNetworking frame with the repository's own header classes.
    `de`: ShortPositionVector (GUC / LS reply) or GNAddress int (LS request: sought address);
    `area`: (lat, lon, a, b, angle) for GBC/GAC."""
    bh = BasicHeader(version=1, nh=BasicNH.COMMON_HEADER, reserved=0, lt=LT().set_value_in_millis(lt_ms), rhl=rhl)
    tc = TrafficClass(scf=scf)
    if kind == "beacon":
        ht, hst, body = HeaderType.BEACON, HeaderSubType.UNSPECIFIED, so_pv.encode()
        payload = b""
    elif kind == "shb":
        ht, hst, body = HeaderType.TSB, TopoBroadcastHST.SINGLE_HOP, so_pv.encode() + b"\0\0\0\0"
    elif kind == "tsb":
        ht, hst, body = HeaderType.TSB, TopoBroadcastHST.MULTI_HOP, TSBExtendedHeader(sn=sn, so_pv=so_pv).encode()
    elif kind in ("gbc", "gac"):
        la, lo, a, b, ang = area if area else (so_pv.latitude, so_pv.longitude, 100, 100, 0)
        ht = HeaderType.GEOBROADCAST if kind == "gbc" else HeaderType.GEOANYCAST
        hst = GeoBroadcastHST.GEOBROADCAST_CIRCLE if kind == "gbc" else GeoAnycastHST.GEOANYCAST_CIRCLE
        body = GBCExtendedHeader(sn=sn, so_pv=so_pv, latitude=la, longitude=lo, a=a, b=b, angle=ang).encode()
    elif kind == "guc":
        ht, hst = HeaderType.GEOUNICAST, HeaderSubType.UNSPECIFIED
        body = GUCExtendedHeader(sn=sn, so_pv=so_pv, de_pv=de).encode()
    elif kind == "ls_request":
        ht, hst = HeaderType.LS, LocationServiceHST.LS_REQUEST
        body = LSRequestExtendedHeader(sn=sn, so_pv=so_pv, request_gn_addr=addr_of(de)).encode()
        payload = b""
    elif kind == "ls_reply":
        ht, hst = HeaderType.LS, LocationServiceHST.LS_REPLY
        body = LSReplyExtendedHeader(sn=sn, so_pv=so_pv, de_pv=de).encode()
        payload = b""
    else:
        raise Infra(f"unknown kind {kind}")
    ch = CommonHeader(nh=CommonNH.BTP_B if payload else CommonNH.ANY, ht=ht, hst=hst, tc=tc, flags=0,
                      pl=len(payload), mhl=mhl)
    return bh.encode_to_bytes() + ch.encode_to_bytes() + body + payload


# ------------------------------------------------------------------------------------------------ real side

class Real:
    """a real Router under the virtual clock; every operation returns (result, canonical table dump)"""

    def __init__(self, clock, self_addr: int, lifetime_s: int, dpl: int, base_its: int):
        self.clock = clock
        self.base_utc = base_its + ITS_EPOCH_MS - 5000
        clock.ms = self.base_utc
        mib_kw = dict(itsGnLifetimeLocTE=lifetime_s, itsGnDPLLength=dpl,
                      itsGnAreaForwardingAlgorithm=AreaForwardingAlgorithm.SIMPLE)
        from flexstack.geonet.mib import MIB
        from flexstack.geonet.router import Router
        self.ll, self.inds = rs.CaptureLL(), []
        self.r = Router(MIB(itsGnLocalGnAddr=addr_of(self_addr), **mib_kw))
        self.r.link_layer = self.ll
        self.r.register_indication_callback(self.inds.append)
        self.r.ego_position_vector = lpv(self_addr, base_its, 415000000, 21000000)
        self.lt = self.r.location_table
        self.last = None
        for name in ("new_shb_packet", "new_tsb_packet", "new_gbc_packet", "new_gac_packet", "new_guc_packet",
                     "new_ls_request_packet", "new_ls_reply_packet"):
            self._spy(name)

    def _spy(self, name):
        orig = getattr(self.lt, name)

        def wrapper(*a, **k):
            try:
                r = orig(*a, **k)
                self.last = "ok"
                return r
            except Exception as e:
                self.last = "dup" if type(e).__name__ == "DuplicatedPacketException" else type(e).__name__
                raise
        setattr(self.lt, name, wrapper)

    def set_now(self, now_its):
        self.clock.ms = now_its + ITS_EPOCH_MS - 5000

    def dump(self):
        rows = []
        for gn, e in self.lt.loc_t.items():
            pv = e.position_vector
            rows.append((gn.encode_to_int(), f"{gn.encode_to_int()}:{pv.tst.msec}:{pv.latitude}:{pv.longitude}:"
                         f"{1 if e.is_neighbour else 0}:{1 if e.ls_pending else 0}:" + ",".join(str(x) for x in e.dpl_deque)))
        rows.sort()
        return " ".join(r[1] for r in rows) if rows else "-"

    def pkt(self, kind, a, tst, lat, lon, sn, now, third):
        self.set_now(now)
        self.last = "dad"
        so = lpv(a, tst, lat, lon)
        de = third if kind == "ls_request" else spv(third, tst, 1, 1)
        f = frame(kind, so, sn=sn, rhl=1, mhl=10, de=de)
        try:
            with rs.quiet():
                self.r.gn_data_indicate(f)
        except Exception as e:   # a handler must not raise on a well-formed frame
            self.last = "raise:" + type(e).__name__
        self.ll.take()
        return self.last

    def ens(self, a):
        self.lt.ensure_entry(addr_of(a)).ls_pending = True

    def ref(self, now):
        self.set_now(now)
        self.lt.refresh_table()

    def observe(self, addrs, now):
        """black-box observations for the oracle"""
        self.set_now(now)
        obs = {}
        for a in addrs:
            e = self.lt.get_entry(addr_of(a))
            if e is None:
                obs[a] = None
            else:
                pv = e.position_vector
                obs[a] = (pv.tst.msec, pv.latitude, pv.longitude, bool(e.is_neighbour), bool(e.ls_pending))
        nb = sorted(e.position_vector.gn_addr.encode_to_int() for e in self.lt.get_neighbours())
        return obs, nb


# ------------------------------------------------------------------------------------------------ oracle

def mid_of(a):
    return a & ((1 << 48) - 1)


class Oracle:
    """Independent reference, in unwrapped real time (ITS ms): per source the newest position vector by timestamp
    (first received wins a tie), present from acceptance until `time + lifetime`, neighbour from a beacon/SHB until
    expiry, duplicate list of the last L sequence numbers (annex A.2), own address never entered."""

    def __init__(self, self_addr, lifetime_ms, dpl_len):
        self.self_addr, self.L, self.dl = self_addr, lifetime_ms, dpl_len
        self.ent = {}            # addr -> dict(T, lat, lon, nb, dpl)
        self.placeholder = set()  # ensure_entry placeholders: presence not judged
        self.last_reception = None   # time of the last LocT reception / refresh (anything that purges)
        self.expired_at = {}     # addr -> real time after which the entry counts as expired (for KF1 classification)

    def expire(self, now):
        for a in [a for a, e in self.ent.items() if now > e["T"] + self.L]:
            self.expired_at[a] = self.ent[a]["T"] + self.L
            del self.ent[a]

    def pkt(self, kind, a, T, lat, lon, sn, now):
        if mid_of(a) == mid_of(self.self_addr):
            return
        self.expire(now)
        self.last_reception = now
        e = self.ent.get(a)
        if kind not in SINGLE:
            if e is not None and sn in e["dpl"]:
                return                      # duplicate: discarded before any update
        if e is None:
            e = self.ent[a] = dict(T=T, lat=lat, lon=lon, nb=False, dpl=[])
            self.placeholder.discard(a)
        elif T > e["T"]:
            e.update(T=T, lat=lat, lon=lon)
        if kind in SINGLE:
            e["nb"] = True
        else:
            e["dpl"] = (e["dpl"] + [sn])[-self.dl:]
        self.expire(now)

    def refresh(self, now):
        self.expire(now)
        self.last_reception = now

    def judge(self, obs, nb, now):
        """returns list of (what, known_finding_id|None)"""
        self.expire(now)
        bad = []
        for a, o in obs.items():
            e = self.ent.get(a)
            if mid_of(a) == mid_of(self.self_addr) and o is not None:
                bad.append((f"own address {a} entered in the location table", None))
                continue
            if e is None:
                if o is None:
                    continue
                exp = self.expired_at.get(a)
                if a in self.placeholder and not o[3] and o[0] == 0:
                    continue                       # LS placeholder without data: not judged
                if exp is not None and (self.last_reception is None or self.last_reception <= exp):
                    bad.append((f"entry of {a} visible at {now} although expired at {exp} (no reception since)", "C08-KF1"))
                elif a in self.placeholder:
                    if o[3] or o[0] != 0:
                        bad.append((f"placeholder of {a} carries data {o}", None))
                else:
                    bad.append((f"entry of {a} visible at {now} although " +
                                (f"expired at {exp}" if exp is not None else "never validly received"), None))
                continue
            if o is None:
                bad.append((f"entry of {a} missing at {now}: newest PV time {e['T']} (age {now - e['T']} ms <= lifetime {self.L})", None))
                continue
            if (o[0], o[1], o[2]) != (e["T"] % W, e["lat"], e["lon"]):
                bad.append((f"entry of {a} holds PV {o[:3]}, newest received is {(e['T'] % W, e['lat'], e['lon'])}", None))
            if o[3] != e["nb"]:
                bad.append((f"entry of {a}: is_neighbour={o[3]}, expected {e['nb']}", None))
        want_nb = sorted(a for a, e in self.ent.items() if e["nb"])
        if nb != want_nb:
            extra = [a for a in nb if a not in want_nb]
            lazy = (not [a for a in want_nb if a not in nb]) and all(
                a in self.expired_at and a not in self.ent and
                (self.last_reception is None or self.last_reception <= self.expired_at[a]) for a in extra)
            bad.append((f"get_neighbours = {nb}, expected {want_nb}", "C08-KF1" if lazy else None))
        return bad


# ------------------------------------------------------------------------------------------------ histories

def gen_lat(rng):
    """signed WGS-84 latitude in 1/10 microdegree incl. the poles and the equator (both hemispheres on the wire)"""
    return rng.choice([rng.randrange(-900000000, 900000001), rng.randrange(-900000000, 900000001), 900000000, -900000000, 0, -1, 1])


def gen_lon(rng):
    return rng.choice([rng.randrange(-1800000000, 1800000001), rng.randrange(-1800000000, 1800000001), 1800000000, -1800000000, 0, -1, 1])


def gen_chain(rng):
    """refresh chain (Props.C08.present_until_latest_expiry): one source keeps refreshing its PV within the lifetime of
    the previous one, foreign traffic and purges in between; observations past the FIRST stamp + lifetime, at the
    LATEST stamp + lifetime -1/0/+1"""
    lifetime_s = rng.choice([1, 2, 5, 20])
    L = lifetime_s * 1000
    base = rng.choice([rng.randrange(10 ** 9, 10 ** 12), rng.randrange(3, 200) * W - rng.randrange(0, 3 * L)])
    self_addr, a, other, third = addr_int(1), addr_int(10), addr_int(11), addr_int(99)
    ops, now, T = [], base, base + rng.randrange(-500, 501)
    first = rng.choice(["beacon", "shb", "tsb", "gbc"])
    ops.append(["pkt", first, a, T, gen_lat(rng), gen_lon(rng), 1, now])
    sn = 2
    for _ in range(rng.randrange(2, 7)):
        step = rng.choice([L - 1, L, rng.randrange(L // 2, L + 1), rng.randrange(1, L + 1)])
        now = max(now, T + step)                     # not later than the lifetime after the newest stamp
        if rng.random() < 0.5:
            ops.append(["tick", now])
        if rng.random() < 0.4:
            ops.append(["pkt", rng.choice(KINDS), other, now, gen_lat(rng), gen_lon(rng), sn, now])
        if rng.random() < 0.3:
            ops.append(["ref", now])
        T = now + rng.randrange(-300, 301)
        ops.append(["pkt", rng.choice(KINDS), a, T, gen_lat(rng), gen_lon(rng), sn, now])
        sn += 1
    for d in (L - 1, L, L + 1):
        now = max(now, T + d)
        ops.append(["tick", now])
        ops.append(["pkt", "tsb", other, now, gen_lat(rng), gen_lon(rng), sn, now] if rng.random() < 0.5 else ["ref", now])
        sn += 1
    return {"kind": "hist", "self": self_addr, "lifetime_s": lifetime_s, "dpl": rng.choice([1, 2, 3, 8]), "base": base,
            "third": third, "ops": ops}


def gen_history(rng, n_ops):
    """one random history; every op is a list (JSON-able)"""
    lifetime_s = rng.choice([1, 2, 5, 20])
    L = lifetime_s * 1000
    dpl = rng.choice([1, 2, 3, 8])
    mode = rng.choice(["plain", "wrap", "half", "zero", "plain"])
    if mode == "plain":
        base = rng.randrange(10**9, 10**12)
    elif mode == "wrap":
        base = rng.randrange(3, 200) * W - rng.randrange(0, 3 * L)
    elif mode == "half":
        base = rng.randrange(3, 200) * W + HALF - rng.randrange(0, 3 * L)
    else:
        base = rng.randrange(3, 200) * W - rng.randrange(0, 1500)
    self_addr = addr_int(1)
    n_src = rng.randrange(3, 7)
    srcs = [addr_int(10 + i) for i in range(n_src)]
    srcs.append(addr_int(10, st=ST.CYCLIST))            # same MID as srcs[0], different station type
    dad = [self_addr, addr_int(1, st=ST.BUS)]             # own address, own MID with another ST
    third = addr_int(99)
    ops = []
    now = base
    known_T = {}
    for _ in range(n_ops):
        x = rng.random()
        if x < 0.70:
            a = rng.choice(dad) if rng.random() < 0.05 else rng.choice(srcs)
            kind = rng.choice(KINDS)
            y = rng.random()
            if y < 0.35:
                d = rng.randrange(-1500, 1)              # just behind the clock
            elif y < 0.60:
                d = rng.randrange(1, 5001)               # sender clock ahead (skew <= 5 s)
            elif y < 0.70:
                d = 0
            elif y < 0.80:
                d = -rng.choice([L - 1, L, L + 1, L + 999, L + 1000, 2 * L])   # at / beyond the lifetime
            elif y < 0.90 and a in known_T:
                d = known_T[a] - now + rng.choice([-1, 0, 0, 1])               # equal / adjacent to the stored one
            else:
                d = rng.randrange(-3 * L, 5001)
            T = now + d
            if mode == "zero" and rng.random() < 0.3:
                T = (now // W + (1 if now % W > HALF else 0)) * W              # genuine timestamp 0
                if abs(T - now) > 5000:
                    T = now + d
            known_T[a] = max(T, known_T.get(a, T))
            sn = rng.choice([rng.randrange(0, 4), rng.randrange(0, 65536), 65535, 0])
            ops.append(["pkt", kind, a, T, gen_lat(rng), gen_lon(rng), sn, now])
        elif x < 0.90:
            y = rng.random()
            if y < 0.3:
                now += rng.randrange(0, 1000)
            elif y < 0.6 and known_T:
                t = known_T[rng.choice(sorted(known_T))] + L + rng.choice([-1, 0, 1])  # expiry boundary of some entry
                now = max(now, t)
            else:
                now += rng.randrange(0, 3 * L + 1)
            ops.append(["tick", now])
        elif x < 0.95:
            ops.append(["ref", now])
        else:
            ops.append(["ens", rng.choice(srcs + [third])])
    return {"kind": "hist", "self": self_addr, "lifetime_s": lifetime_s, "dpl": dpl, "base": base, "third": third,
            "ops": ops}


def model_lines(case, eager=False):
    """model driver lines of a history as (line, compared?) pairs.  `eager`: the code under test purges inside
    get_entry/get_neighbours (C08-KF1 repaired) - the harness observes after every op, so the model purges there too."""
    lines = [(f"cfg {case['self']} {case['lifetime_s'] * 1000} {case['dpl']}", True)]
    now = case["base"]
    for op in case["ops"]:
        if op[0] == "pkt":
            _, kind, a, T, lat, lon, sn, now = op
            lines.append((f"pkt {kind} {a} {T % W} {lat} {lon} {sn} {now}", True))
        elif op[0] == "tick":
            now = op[1]
            lines.append(("nbrs", True))             # a pure clock advance does not touch the table
        elif op[0] == "ref":
            now = op[1]
            lines.append((f"ref {op[1]}", True))
        elif op[0] == "ens":
            lines.append((f"ens {op[1]}", True))
        if eager:
            lines.append((f"ref {now}", False))
    return lines


def observed_addrs(case):
    """addresses whose get_entry is observed after every op: those named by the operations plus `observe` (kept when a
    history is truncated / shrunk, so that an entry appearing under an address that no remaining op names - e.g. the
    same MID with another station type - stays visible to the oracle on replay)"""
    return sorted(set(case.get("observe", [])) | {op[2] for op in case["ops"] if op[0] == "pkt"} |
                  {op[1] for op in case["ops"] if op[0] == "ens"})


def run_real(case, clock, judge=True):
    """returns (per-op real output lines, list of (what, finding) violations with op index)"""
    real = Real(clock, case["self"], case["lifetime_s"], case["dpl"], case["base"])
    orc = Oracle(case["self"], case["lifetime_s"] * 1000, case["dpl"])
    addrs = observed_addrs(case)
    out, bad = ["ok"], []
    now = case["base"]
    for i, op in enumerate(case["ops"]):
        if op[0] == "pkt":
            _, kind, a, T, lat, lon, sn, now = op
            res = real.pkt(kind, a, T % W, lat, lon, sn, now, case["third"])
            out.append(res + " " + real.dump())
            orc.pkt(kind, a, T, lat, lon, sn, now)
        elif op[0] == "tick":
            now = op[1]
            real.set_now(now)
            nb = sorted(e.position_vector.gn_addr.encode_to_int() for e in real.lt.loc_t.values() if e.is_neighbour)
            out.append(" ".join(str(x) for x in nb) if nb else "-")
        elif op[0] == "ref":
            now = op[1]
            real.ref(now)
            out.append(real.dump())
            orc.refresh(now)
        elif op[0] == "ens":
            real.ens(op[1])
            out.append(real.dump())
            if op[1] not in orc.ent:
                orc.placeholder.add(op[1])
        if judge:
            obs, nb = real.observe(addrs, now)
            for what, kf in orc.judge(obs, nb, now):
                bad.append((i, what, kf))
    return out, bad


def shrink(case, clock, pred):
    """greedy removal of operations while `pred(case)` stays true"""
    ops = list(case["ops"])
    i = len(ops) - 1
    budget = 200
    while i >= 0 and budget > 0:
        trial = dict(case, ops=ops[:i] + ops[i + 1:])
        budget -= 1
        if pred(trial):
            ops = trial["ops"]
        i -= 1
    return dict(case, ops=ops)


def first_violation(case, clock):
    try:
        _, bad = run_real(case, clock)
    except Exception:
        return None
    for i, what, kf in bad:
        if kf is None:
            return i, what
    return None


def check_case(ctx, case, clock, use_model=True):
    out, bad = run_real(case, clock)
    ctx.evals(len(case["ops"]))
    reported = False
    case = dict(case, observe=observed_addrs(case))
    for i, what, kf in bad:
        if kf is None and not reported:
            small = shrink(dict(case, ops=case["ops"][:i + 1]), clock, lambda c: first_violation(c, clock) is not None)
            fv = first_violation(small, clock)
            ctx.violation(fv[1] if fv else what, small)
            reported = True
        elif kf is not None:
            ctx.violation(what, dict(case, ops=case["ops"][:i + 1]), kf)
    if use_model and ctx.model_ok:
        ctx.extra.setdefault("_batch", []).append((case, out))
    for op in case["ops"]:
        ctx.cover("op_" + (op[1] if op[0] == "pkt" else op[0]))
        if op[0] == "pkt":
            ctx.cover("coord_" + ("S" if op[4] < 0 else "N") + ("W" if op[5] < 0 else "E"))
            if abs(op[4]) == 900000000 or abs(op[5]) == 1800000000:
                ctx.cover("coord_at_pole_or_180")
    for line in out[1:]:
        ctx.cover("res_" + line.split(" ")[0] if line.split(" ")[0] in ("ok", "dup", "dad") else "res_other")
    ctx.nontrivial(("hist", case["base"], len(case["ops"]), case["lifetime_s"], case["dpl"]))


def flush_model(ctx):
    """one driver call for all histories collected by check_case (a `cfg` line resets the model state)"""
    batch = ctx.extra.pop("_batch", [])
    if not batch or not ctx.model_ok:
        return
    lines = []
    for case, _ in batch:
        lines += model_lines(case, ctx.extra.get("_eager", False))
    mo_all = ctx.model("LocT", [l for l, _ in lines])
    mo = [m for m, (_, keep) in zip(mo_all, lines) if keep]
    k = 0
    for case, out in batch:
        for i, r in enumerate(out):
            if r != mo[k + i]:
                ctx.mismatch("loct.history", {"case": dict(case, ops=case["ops"][:i]), "op": case["ops"][i - 1] if i else None},
                             r, mo[k + i])
                break
        k += len(out)


# ------------------------------------------------------------------------------------------------ TST order

def lattice():
    pts = set()
    for c in (0, 1, 2, HALF - 1, HALF, HALF + 1, W - 1, 1000, W - 1000, HALF + 1000, HALF - 1000):
        for d in range(-2, 3):
            pts.add((c + d) % W)
    return sorted(pts)


def check_order(ctx):
    pts = lattice()
    lines, reals = [], []
    for a in pts:
        for b in pts:
            ta, tb = TST(msec=a), TST(msec=b)
            r = (int(ta > tb), int(ta >= tb), int(ta < tb), int(ta <= tb), ta - tb)
            reals.append((a, b, r))
            lines += [f"gt {a} {b}", f"ge {a} {b}", f"lt {a} {b}", f"le {a} {b}", f"sub {a} {b}"]
            ctx.evals()
            # oracle: consistent wrap-around-aware strict order
            if a == b and r[0]:
                ctx.violation(f"TST order not irreflexive at {a}", {"kind": "order", "a": a, "b": b})
            if r[0] and int(tb > ta):
                ctx.violation(f"TST order not asymmetric at {a},{b}", {"kind": "order", "a": a, "b": b})
            d = (a - b) % W
            if 0 < d < HALF and not r[0]:
                ctx.violation(f"TST {a} is {d} ms after {b} but not greater", {"kind": "order", "a": a, "b": b})
            if 0 < d < HALF and r[4] != d:
                ctx.violation(f"TST {a} - {b} = {r[4]}, elapsed {d}", {"kind": "order", "a": a, "b": b})
            if r[1] != int(bool(r[0]) or a == b) or r[2] != 1 - r[1] or r[3] != 1 - r[0]:
                ctx.violation(f"TST >=,<,<= inconsistent with > at {a},{b}", {"kind": "order", "a": a, "b": b})
    if ctx.model_ok:
        mo = ctx.model("LocT", lines)
        for i, (a, b, r) in enumerate(reals):
            m = tuple(int(x) for x in mo[5 * i:5 * i + 5])
            if m != r:
                ctx.mismatch("tst.order", [a, b], list(r), list(m))
    ctx.cover("order_pairs", len(reals))
    ctx.nontrivial(("order-lattice", len(pts)))
    # real-time agreement on random pairs (all 32-bit residues)
    for _ in range(ctx.scale(3000, 100000)):
        x = ctx.rng.randrange(0, 1 << 40)
        d = ctx.rng.choice([1, ctx.rng.randrange(1, HALF), HALF - 1])
        ta, tb = TST(msec=(x + d) % W), TST(msec=x % W)
        ctx.evals()
        if not (ta > tb) or (tb > ta) or (ta - tb) != d:
            ctx.violation(f"TST order disagrees with real time: x={x} d={d}", {"kind": "order", "a": (x + d) % W, "b": x % W})


# ------------------------------------------------------------------------------------------------ duplicate list ring

def check_dpl(ctx):
    """`LocationTableEntry.check_duplicate_sn` on the real class vs the model's `dplPushE` (Python's behaviour incl. the
    IndexError branch for itsGnDPLLength = 0) and `dplPush` (the ring the history theorems use; flagged `!ring` by the
    driver when the two differ for a well-formed length)"""
    from flexstack.geonet.mib import MIB
    from flexstack.geonet.location_table import LocationTableEntry
    lines, reals = [], []
    for L in (0, 1, 2, 3, 8):
        for _ in range(ctx.scale(6, 60)):
            e = LocationTableEntry(MIB(itsGnDPLLength=L))
            for _ in range(ctx.rng.randrange(1, 3 * L + 4)):
                sn = ctx.rng.choice([ctx.rng.randrange(0, 6), ctx.rng.randrange(0, 65536)])
                before = list(e.dpl_deque)
                try:
                    e.check_duplicate_sn(sn)
                    r = "ok " + (",".join(str(x) for x in e.dpl_deque) or "-")
                except Exception as ex:  # noqa: BLE001
                    r = type(ex).__name__
                ctx.evals()
                if r == "DuplicatedPacketException":
                    if sn not in before:
                        ctx.violation(f"check_duplicate_sn({sn}) reports a duplicate, list {before}", {"kind": "dpl", "L": L, "before": before, "sn": sn})
                    continue
                if sn in before:
                    ctx.violation(f"check_duplicate_sn({sn}) accepts a duplicate, list {before}", {"kind": "dpl", "L": L, "before": before, "sn": sn})
                if L > 0 and r != "ok " + ",".join(str(x) for x in (before + [sn])[-L:]):
                    ctx.violation(f"duplicate list after {sn}: {r}, expected the last {L} of {before + [sn]}", {"kind": "dpl", "L": L, "before": before, "sn": sn})
                ctx.cover("dpl_L0_IndexError" if (L == 0 and r == "IndexError") else f"dpl_L{L}_{r.split()[0]}")
                lines.append(f"dple {L} {sn} " + (",".join(str(x) for x in before) or "-"))
                reals.append(((L, before, sn), r))
    if ctx.model_ok and lines:
        for (inp, r), mo in zip(reals, ctx.model("LocT", lines)):
            if r != mo:
                ctx.mismatch("dpl.ring", list(inp), r, mo)


# ------------------------------------------------------------------------------------------------ concurrent receptions
#
# Class: the FIRST packet (any kind) of a cold source is processed by one link-layer receive thread while another thread
# works on the same location table (refresh_table, receptions of other sources, another packet of the same source).
# Both run on the real Router under the deterministic scheduler harness/dsched.py (pre-emption before every
# attribute/subscript/call bytecode of LocationTable / LocationTableEntry and at every lock acquire/release); the
# schedules with at most `bound` pre-emptions are enumerated.  All operations of a case happen at ONE clock reading and
# all packets are valid (timestamps within the lifetime, distinct per source, distinct sequence numbers), so the final
# table the oracle expects does not depend on the order: the ordinary `Oracle` judges get_entry / get_neighbours after
# the threads have finished (entry present with the newest PV, neighbour after a beacon / SHB).
# Lean side: Props.C08.first_single_hop_present_every_schedule (all schedules, all environments) on the section shape
# read from the source (Props.C08.new_packet_updates_inside_creation_section).

_conc_codes = None


def conc_codes():
    global _conc_codes
    if _conc_codes is None:
        _conc_codes = [f.__code__ for cls in (loct_mod.LocationTable, loct_mod.LocationTableEntry)
                       for f in vars(cls).values() if hasattr(f, "__code__")]
    return _conc_codes


def gen_conc(rng):
    lifetime_s = rng.choice([1, 2, 5, 20])
    L = lifetime_s * 1000
    base = rng.choice([rng.randrange(10 ** 9, 10 ** 12), rng.randrange(3, 200) * W - rng.randrange(0, 3 * L)])
    now = base + rng.randrange(0, 1000)
    self_addr, a, third = addr_int(1), addr_int(10), addr_int(99)
    others = [addr_int(11), addr_int(12)]
    used_T, sn = set(), [0]

    def stamp():
        while True:
            T = now + rng.choice([rng.randrange(-min(L - 1, 1500), 1), rng.randrange(1, 3001), 0, -(L - 1)])
            if T not in used_T:
                used_T.add(T)
                return T

    def pkt(kind, src):
        sn[0] += 1
        return ["pkt", kind, src, stamp(), gen_lat(rng), gen_lon(rng), sn[0], now]

    pre = []
    for o in others:
        if rng.random() < 0.5:
            pre.append(pkt(rng.choice(KINDS), o))
    if rng.random() < 0.2:
        pre.append(["ens", rng.choice(others + [third])])
    first = rng.choice(["beacon", "shb", "beacon", "shb", "beacon", "shb", "tsb", "gbc", "gac", "guc", "ls_request", "ls_reply"])
    t0 = [pkt(first, a)]
    t1 = []
    for _ in range(rng.choice([1, 1, 2])):
        x = rng.random()
        if x < 0.5:
            t1.append(["ref", now])
        elif x < 0.8:
            t1.append(pkt(rng.choice(KINDS), rng.choice(others)))
        else:
            t1.append(pkt(rng.choice(KINDS), a))          # a second packet of the cold source itself, other thread
    return {"kind": "conc", "self": self_addr, "lifetime_s": lifetime_s, "dpl": rng.choice([1, 2, 3, 8]), "base": base,
            "now": now, "third": third, "pre": pre, "threads": [t0, t1]}


class ConcRun:
    """one execution of a `conc` case on the real Router under a scheduling policy"""

    def __init__(self, case, clock, policy):
        self.case = case
        with dsched.patched([router_mod, loct_mod], extra={"Timer": _NoTimer}):
            real = Real(clock, case["self"], case["lifetime_s"], case["dpl"], case["base"])
            orc = Oracle(case["self"], case["lifetime_s"] * 1000, case["dpl"])
            now = case["now"]
            for op in case.get("pre", []):
                self._do(real, op)
            s = dsched.DSched(policy, line_files=(), opcode_codes=conc_codes(), max_steps=40000, line_points=False)
            for ti, ops in enumerate(case["threads"]):
                s.spawn((lambda ops=ops: [self._do(real, op) for op in ops]), name=f"T{ti}")
            with rs.quiet():
                s.run(timeout=30.0)
            # the oracle: order-independent by construction of the case (see gen_conc)
            allops = list(case.get("pre", [])) + [op for th in case["threads"] for op in th]
            for op in allops:
                if op[0] == "pkt":
                    orc.pkt(op[1], op[2], op[3], op[4], op[5], op[6], now)
                elif op[0] == "ref":
                    orc.refresh(now)
                elif op[0] == "ens" and op[1] not in orc.ent:
                    orc.placeholder.add(op[1])
            addrs = sorted({op[2] for op in allops if op[0] == "pkt"} | {op[1] for op in allops if op[0] == "ens"})
            obs, nb = real.observe(addrs, now)
            self.bad = [w for w, kf in orc.judge(obs, nb, now)]
            if s.abort_reason:
                self.bad.append(f"run aborted: {s.abort_reason} {s.deadlock or ''}")
            for ts in s.threads:
                if ts.exc is not None:
                    self.bad.append(f"thread {ts.name} raised {type(ts.exc).__name__}: {ts.exc}")
        self.steps = s.steps
        self.choices = [c[0] for c in s.steps]

    def _do(self, real, op):
        if op[0] == "pkt":
            _, kind, a, T, lat, lon, sn, now = op
            real.pkt(kind, a, T % W, lat, lon, sn, now, self.case["third"])
        elif op[0] == "ref":
            real.ref(op[1])
        elif op[0] == "ens":
            real.ens(op[1])


def check_conc(ctx, case, clock, bound, cap):
    """enumerate the schedules of `case` with at most `bound` pre-emptions (at most `cap` runs); the first violating
    schedule is reported with the schedule as part of the replay case"""
    found = []

    tried = [0]

    def once(prefix):
        if found:
            return []
        r = ConcRun(case, clock, dsched.Replay(prefix))
        tried[0] += 1
        ctx.evals()
        ctx.cover("conc_schedules")
        ctx.cover("conc_preemptions_%d" % min(dsched.preemptions(r.steps), 3))
        if r.bad:
            again = ConcRun(case, clock, dsched.Replay(r.choices))       # the schedule must reproduce
            if again.bad:
                found.append((r.choices, again.bad[0]))
            else:
                ctx.cover("conc_not_reproduced")
        return r.steps

    runs, exhausted = dsched.enumerate_schedules(once, bound, cap, ctx.rng)
    ctx.cover("conc_cases")
    ctx.cover("conc_first_" + case["threads"][0][0][1])
    for op in case["threads"][1]:
        ctx.cover("conc_other_" + (op[1] + ("_same_source" if op[2] == case["threads"][0][0][2] else "") if op[0] == "pkt" else op[0]))
    if exhausted and not found:
        ctx.cover("conc_cases_all_schedules_within_bound")
    ctx.nontrivial(("conc", case["base"], case["now"], len(case["threads"][1]), bound))
    if found:
        sched, what = found[0]
        ctx.violation(f"concurrent receptions (schedule {tried[0]} of the enumeration, {dsched.preemptions(ConcRun(case, clock, dsched.Replay(sched)).steps)} pre-emption(s)): {what}", dict(case, schedule=sched))
    return bool(found)


# the always-on scenario of the class: first beacon of a cold source || refresh_table (lifetime 20 s, beacon 40 ms old)
CONC_FIXED = {"kind": "conc", "self": addr_int(1), "lifetime_s": 20, "dpl": 8, "base": 10 ** 11, "now": 10 ** 11 + 40,
              "third": addr_int(99), "pre": [],
              "threads": [[["pkt", "beacon", addr_int(10), 10 ** 11, 415000000, 21000000, 0, 10 ** 11 + 40]],
                          [["ref", 10 ** 11 + 40]]]}


# ------------------------------------------------------------------------------------------------ entry points

def detect_lazy(clock):
    """C08-KF1 variant detection: does get_entry still return an entry after its lifetime with no reception?"""
    real = Real(clock, addr_int(1), 20, 8, 10**11)
    real.pkt("shb", addr_int(10), 10**11 % W, 1, 1, 0, 10**11, addr_int(99))
    obs, _ = real.observe([addr_int(10)], 10**11 + 20001)
    return obs[addr_int(10)] is not None


def run(ctx):
    ctx.extra["rule"] = ("random histories of receptions (8 packet kinds through the real Router handlers), clock "
                         "advances, explicit purges and LS placeholders; timestamps before/at/after the clock, at "
                         "lifetime boundaries, equal/adjacent to the stored one, across the 2^32 wrap and the 2^31 "
                         "half; distinct_nontrivial counts distinct histories plus the order lattice")
    router_mod.Timer = _NoTimer
    try:
        with rs.VClock(1_700_000_000_000) as clock:
            lazy = detect_lazy(clock)
            ctx.extra["variant"] = {"C08-KF1": "lazy expiry (code as is)" if lazy else "eager expiry (repaired)"}
            ctx.extra["_eager"] = not lazy
            for name, c in corpus("C08"):
                if c.get("kind") == "hist":
                    check_case(ctx, c, clock)
                    ctx.cover("corpus_cases")
                elif c.get("kind") == "order":
                    if replay(ctx, {"case": c}, quiet=True):
                        ctx.violation(f"corpus order case {name}", c)
                    ctx.cover("corpus_cases")
            check_order(ctx)
            check_dpl(ctx)
            n = ctx.scale(300, 20000)
            for i in range(n):
                if i % 6 == 5:
                    case = gen_chain(ctx.rng)
                    ctx.cover("refresh_chains")
                else:
                    case = gen_history(ctx.rng, ctx.rng.randrange(5, ctx.scale(60, 150)))
                check_case(ctx, case, clock)
                if i == 0:
                    ctx.sample("history", {"self": case["self"], "lifetime_s": case["lifetime_s"], "ops": case["ops"][:6]})
            flush_model(ctx)
            # concurrent receptions: the fixed scenario exhaustively at bound 1, random cases of the class capped
            for name, c in corpus("C08"):
                if c.get("kind") == "conc":
                    r = ConcRun(c, clock, dsched.Replay(c.get("schedule", [])))
                    ctx.evals()
                    ctx.cover("corpus_cases")
                    if r.bad:
                        ctx.violation(f"corpus {name}: {r.bad[0]}", c)
            check_conc(ctx, CONC_FIXED, clock, 1, ctx.scale(400, 4000))
            for i in range(ctx.scale(6, 200)):
                case = gen_conc(ctx.rng)
                if i == 0:
                    ctx.sample("concurrent", case)
                check_conc(ctx, case, clock, ctx.scale(1, 2), ctx.scale(60, 600))
    finally:
        ctx.extra.pop("_eager", None)
        router_mod.Timer = threading.Timer


def search(ctx):
    ok = ctx.model_ok
    ctx.model_ok = False
    router_mod.Timer = _NoTimer
    try:
        with rs.VClock(1_700_000_000_000) as clock:
            for m in ctx.mismatches[:5]:
                inp = m.get("input")
                if isinstance(inp, dict) and isinstance(inp.get("case"), dict):
                    c = inp["case"]
                    full = dict(c, ops=c["ops"] + ([inp["op"]] if inp.get("op") else []))
                    check_case(ctx, full, clock, use_model=False)
            for _ in range(ctx.scale(900, 36000)):
                if ctx.violations:
                    break
                check_case(ctx, gen_chain(ctx.rng) if ctx.rng.random() < 0.15 else gen_history(ctx.rng, ctx.rng.randrange(5, 80)),
                           clock, use_model=False)
            if not ctx.violations:          # thread interleavings: bound 2 on the fixed scenario, more random cases
                check_conc(ctx, CONC_FIXED, clock, 2, ctx.scale(1500, 20000))
            for _ in range(ctx.scale(25, 600)):
                if ctx.violations:
                    break
                check_conc(ctx, gen_conc(ctx.rng), clock, ctx.scale(1, 2), ctx.scale(150, 1500))
    finally:
        ctx.model_ok = ok
        router_mod.Timer = threading.Timer


def replay(ctx, obj, quiet=False):
    case = obj.get("case", obj)
    kind = case.get("kind")
    if kind == "order":
        a, b = case["a"], case["b"]
        ta, tb = TST(msec=a), TST(msec=b)
        d = (a - b) % W
        bad = (a == b and ta > tb) or (ta > tb and tb > ta) or (0 < d < HALF and (not ta > tb or ta - tb != d))
        if not quiet:
            print(f"TST({a}) > TST({b}) = {ta > tb}; reverse {tb > ta}; sub {ta - tb}: {'violated' if bad else 'ok'}")
        return bool(bad)
    if kind == "dpl":
        from flexstack.geonet.mib import MIB
        from flexstack.geonet.location_table import LocationTableEntry
        e = LocationTableEntry(MIB(itsGnDPLLength=case["L"]))
        for x in case["before"]:
            e.check_duplicate_sn(x)
        try:
            e.check_duplicate_sn(case["sn"])
            r = list(e.dpl_deque)
        except Exception as ex:  # noqa: BLE001
            r = type(ex).__name__
        want = "DuplicatedPacketException" if case["sn"] in case["before"] else (case["before"] + [case["sn"]])[-case["L"]:]
        if not quiet:
            print(f"check_duplicate_sn({case['sn']}) on {case['before']} (L={case['L']}): {r}, expected {want}")
        return r != want
    if kind == "conc":
        router_mod.Timer = _NoTimer
        try:
            with rs.VClock(1_700_000_000_000) as clock:
                r = ConcRun(case, clock, dsched.Replay(case.get("schedule", [])))
        finally:
            router_mod.Timer = threading.Timer
        if not quiet:
            print(f"schedule with {dsched.preemptions(r.steps)} pre-emption(s), {len(r.steps)} branching steps: " + ("; ".join(r.bad) if r.bad else "property holds"))
        return bool(r.bad)
    if kind == "hist":
        router_mod.Timer = _NoTimer
        try:
            with rs.VClock(1_700_000_000_000) as clock:
                _, bad = run_real(case, clock)
        finally:
            router_mod.Timer = threading.Timer
        for i, what, kf in bad:
            print(f"op {i} {case['ops'][i]}: {what}" + (f" [{kf}]" if kf else ""))
        known = {k["id"] for k in ctx.known if k.get("status") == "known"}
        return any(kf is None or kf not in known for _, _, kf in bad)
    raise Infra(f"unknown replay kind {kind}")

"""C17 — DEN service repeats an event's DENM on schedule with a stable, unique identity.

Theorems: lean/Props/C17.lean about lean/FlexModel/Fac/Denm.lean.
Tie: the real DENMTransmissionManagement / EmergencyVehicleApproachingService / DENMReceptionManagement are run
in-process under a virtual clock and a deterministic cooperative scheduler (time.sleep, threading.Thread patched in
the transmission-management module's namespace; TimeService.time patched by realstack.VClock); every BTPDataRequest
is captured with its virtual time stamp, decoded with the repository's DENM coder and compared with the Lean model's
emission list.  Oracle: `oracle_event` / `oracle_scenario` / `oracle_rx` transcribe the property text and are applied
to the REAL timed emission log and the REAL LDM content.
"""
from __future__ import annotations

import copy
import heapq
import threading
import types

from common import Infra, corpus
import realstack as rs

import flexstack.facilities.decentralized_environmental_notification_service.denm_transmission_management as tm_mod
import flexstack.facilities.local_dynamic_map.ldm_maintenance_reactive as ldm_mr_mod
import flexstack.facilities.decentralized_environmental_notification_service.den_service as den_mod
from flexstack.facilities.decentralized_environmental_notification_service.den_service import (
    DecentralizedEnvironmentalNotificationService)
from flexstack.facilities.decentralized_environmental_notification_service.denm_coder import DENMCoder
from flexstack.facilities.decentralized_environmental_notification_service.denm_reception_management import (
    DENMReceptionManagement)
from flexstack.facilities.ca_basic_service.cam_transmission_management import VehicleData
from flexstack.applications.road_hazard_signalling_service.service_access_point import DENRequest
from flexstack.applications.road_hazard_signalling_service.emergency_vehicle_approaching_service import (
    EmergencyVehicleApproachingService)
from flexstack.facilities.local_dynamic_map.factory import LDMFactory
from flexstack.facilities.local_dynamic_map.ldm_classes import (
    Location, ReferencePosition, PositionConfidenceEllipse, Altitude, TimestampIts)
from flexstack.facilities.local_dynamic_map.ldm_constants import DENM as DENM_APP_ID
from flexstack.btp.service_access_point import BTPDataIndication
from flexstack.geonet.service_access_point import GeoBroadcastHST, HeaderType

MODULES = ["Props.C17"]
DRIVERS = ["Denm"]
TRUSTED = [
    "modelled rather than verified: time.sleep(interval/1000) is taken to last exactly `interval` ms (virtual clock); "
    "real thread start latency and sleep drift are replaced by the deterministic scheduler of harness/props/c17.py",
    "asn1tools UPER DENM codec (the emitted payload is decoded with the repository's own coder)",
    "float glue int((t - ITS_EPOCH + 5) * 1000) of TimeService.timestamp_its and int(lat * 1e7) of the emergency "
    "vehicle service: compared with a tolerance of 1 unit (counted as tolerance_skips)",
]
ASSUMPTIONS = [
    "virtual time: a repetition thread runs only when the scheduler resumes it; sleep(d) wakes exactly d later",
    "events of one station are requested in the order of their start times (sequence numbers are allocated when the "
    "repetition thread starts)",
    "fewer than 65536 events of one station are alive at the same time",
]

ITS_SUB = 1072915200000 - 5000   # unix ms -> ITS ms
T0 = 1_700_000_000_000
_COD = DENMCoder()


class _Stop(Exception):
    pass


class _Task:
    def __init__(self, sched, tag, target, args):
        self.sched, self.tag, self.target, self.args = sched, tag, target, args
        self.sem = threading.Semaphore(0)
        self.ending = None
        self.sleeps = 0
        self.real = threading.Thread(target=self._body, daemon=True)

    def _body(self):
        self.sem.acquire()
        try:
            self.target(*self.args)
            self.ending = "fin"
        except _Stop:
            self.ending = "stopped"
        except Exception as e:  # noqa: BLE001 - recorded, judged by the oracle
            self.ending = type(e).__name__
        finally:
            self.sched.ctrl.release()


class Sched:
    """deterministic cooperative scheduler: exactly one repetition thread (or the harness) runs at a time"""

    def __init__(self, clock, max_sleeps=None):
        self.clock = clock
        self.heap, self.order = [], 0
        self.ctrl = threading.Semaphore(0)
        self.cur = None
        self.next_tag = 0
        self.by_ident = {}
        self.tasks = []
        self.max_sleeps = max_sleeps
        self.main_sleeps = 0

    def spawn(self, target, args):
        th = _Task(self, self.next_tag, target, args)
        self.tasks.append(th)
        th.real.start()
        self.by_ident[th.real.ident] = th
        self._resume(th)
        return th

    def _resume(self, th):
        prev, self.cur = self.cur, th.tag
        th.sem.release()
        if not self.ctrl.acquire(timeout=60):
            raise Infra("scheduler: repetition thread did not yield within 60 s")
        self.cur = prev

    def sleep(self, seconds):
        if seconds < 0:
            raise ValueError("sleep length must be non-negative")
        ms = int(round(seconds * 1000))
        th = self.by_ident.get(threading.get_ident())
        if th is None:            # direct call from the harness thread
            self.main_sleeps += 1
            if self.max_sleeps is not None and self.main_sleeps > self.max_sleeps:
                raise _Stop()
            self.clock.ms += ms
            return
        th.sleeps += 1
        if self.max_sleeps is not None and th.sleeps > self.max_sleeps:
            raise _Stop()
        heapq.heappush(self.heap, (self.clock.ms + ms, self.order, th))
        self.order += 1
        self.ctrl.release()
        th.sem.acquire()

    def run_until(self, t_ms=None):
        while self.heap and (t_ms is None or self.heap[0][0] <= t_ms):
            wake, _, th = heapq.heappop(self.heap)
            self.clock.ms = max(self.clock.ms, wake)
            self._resume(th)
        if t_ms is not None:
            self.clock.ms = max(self.clock.ms, t_ms)


class CaptureBTP:
    """capturing BTP router: records (virtual ms, event tag, BTPDataRequest)"""

    def __init__(self, sched):
        self.sched, self.log, self.cb = sched, [], {}

    def btp_data_request(self, request):
        self.log.append((self.sched.clock.ms, self.sched.cur, request))

    def register_indication_callback_btp(self, port, callback):
        self.cb[port] = callback


class _Patched:
    """time / threading of the transmission-management module replaced by scheduler-aware stand-ins"""

    def __init__(self, sched):
        self.sched = sched

    def __enter__(self):
        sched = self.sched
        self.o_time, self.o_thr = tm_mod.time, tm_mod.threading
        ft = types.SimpleNamespace(**{k: getattr(self.o_time, k) for k in dir(self.o_time) if not k.startswith("__")})
        ft.sleep = sched.sleep
        ft.time = lambda: sched.clock.ms / 1000.0
        ft.monotonic = ft.time

        class FakeThread:
            def __init__(self, target=None, args=(), kwargs=None, daemon=None, **_):
                self.target, self.args, self.daemon = target, tuple(args), daemon
                self.task = None

            def start(self):
                self.task = sched.spawn(self.target, self.args)

            def join(self, timeout=None):
                pass

            def is_alive(self):
                return self.task is not None and self.task.ending is None

        fth = types.SimpleNamespace(**{k: getattr(self.o_thr, k) for k in dir(self.o_thr) if not k.startswith("__")})
        fth.Thread = FakeThread
        tm_mod.time, tm_mod.threading = ft, fth
        # compiling the DENM ASN.1 takes seconds: every DEN service of the run shares one (stateless) coder
        self.o_coder, den_mod.DENMCoder = den_mod.DENMCoder, (lambda: _COD)
        return self

    def __exit__(self, *a):
        tm_mod.time, tm_mod.threading = self.o_time, self.o_thr
        den_mod.DENMCoder = self.o_coder


def event_position(lat, lon, alt=800001):
    return {"latitude": lat, "longitude": lon,
            "positionConfidenceEllipse": {"semiMajorConfidence": 4095, "semiMinorConfidence": 4095,
                                          "semiMajorOrientation": 3601},
            "altitude": {"altitudeValue": alt, "altitudeConfidence": "unavailable"}}


def run_scenario(sc, max_sleeps=None):
    """run one scenario on the real code.  Returns per-event observation lists + endings"""
    evs = sc["events"]
    with rs.VClock(T0) as clock:
        sched = Sched(clock, max_sleeps)
        btp = CaptureBTP(sched)
        with _Patched(sched):
            den = DecentralizedEnvironmentalNotificationService(btp, VehicleData(station_id=sc["station"], station_type=5))
            tmm = den.denm_transmission_management
            if sc.get("seq0"):
                tmm.sequence_number = sc["seq0"]
            eva = None
            order = sorted(range(len(evs)), key=lambda j: (evs[j]["start"], j))
            errors = {}
            for j in order:
                e = evs[j]
                sched.run_until(T0 + e["start"])
                sched.next_tag = j
                try:
                    if e["kind"] == "direct":
                        req = DENRequest(denm_interval=e["i"], time_period=e["T"], detection_time=clock.ms - ITS_SUB,
                                         event_position=event_position(e["lat"], e["lon"]),
                                         relevance_distance="lessThan200m", relevance_traffic_direction="upstreamTraffic",
                                         rhs_cause_code="emergencyVehicleApproaching95", rhs_subcause_code=1,
                                         rhs_event_speed=30, rhs_vehicle_type=0)
                        if e.get("sync"):
                            sched.cur = j
                            try:
                                tmm.trigger_denm_messages(req)
                            finally:
                                sched.cur = None
                        else:
                            tmm.request_denm_sending(req)
                    elif e["kind"] == "eva":
                        if eva is None:
                            eva = EmergencyVehicleApproachingService(den, duration=e["T"])
                        eva.denm_duration, eva.denm_interval = e["T"], e["i"]
                        eva.trigger_denm_sending({"lat": e["lat"] / 1e7, "lon": e["lon"] / 1e7, "altHAE": 12.5})
                    elif e["kind"] == "crw":
                        req = DENRequest.with_collision_risk_warning(
                            TimestampIts(clock.ms - ITS_SUB),
                            ReferencePosition(e["lat"], e["lon"], PositionConfidenceEllipse(4095, 4095, 3601),
                                              Altitude(800001, "unavailable")))
                        sched.cur = j
                        try:
                            tmm.send_collision_risk_warning_denm(req)
                        finally:
                            sched.cur = None
                    else:
                        raise Infra(f"unknown event kind {e['kind']}")
                except _Stop:
                    errors[j] = "stopped"
                except Infra:
                    raise
                except Exception as ex:  # noqa: BLE001
                    errors[j] = type(ex).__name__
            sched.run_until(None)
    obs = [[] for _ in evs]
    for (t, tag, rq) in btp.log:
        d = _COD.decode(rq.data)
        m = d["denm"]["management"]
        ar, ptt = rq.gn_area, rq.gn_packet_transport_type
        rec = {"t": t - T0, "station": d["header"]["stationId"],
               "aid": [m["actionId"]["originatingStationId"], m["actionId"]["sequenceNumber"]],
               "ref": m["referenceTime"], "pos": [m["eventPosition"]["latitude"], m["eventPosition"]["longitude"]],
               "port": rq.destination_port, "ht": ptt.header_type.name, "hst": getattr(ptt.header_subtype, "name", str(ptt.header_subtype)),
               "hst_is_circle": ptt.header_type == HeaderType.GEOBROADCAST and ptt.header_subtype == GeoBroadcastHST.GEOBROADCAST_CIRCLE,
               "area": [ar.latitude, ar.longitude, ar.a, ar.b, ar.angle], "data": rq.data}
        if tag is None or not (0 <= tag < len(evs)):
            raise Infra(f"emission outside any event (tag {tag})")
        obs[tag].append(rec)
    endings = {}
    for th in sched.tasks:
        endings[th.tag] = th.ending
    endings.update(errors)
    return obs, endings


# ---------------------------------------------------------------------------------------------- oracle

def ceil_div(a, b):
    return -((-a) // b)


def oracle_event(e, log, station):
    """property text for one event with interval i > 0 (repetition kinds) or the one-shot CRW request"""
    bad = []
    i, T, start = e["i"], e["T"], e["start"]
    want_n = 1 if e["kind"] == "crw" else (ceil_div(T, i) if T > 0 else 0)
    if len(log) != want_n:
        bad.append(f"count {len(log)} != ceil(T/i) {want_n}")
    for k, r in enumerate(log):
        if r["t"] != start + k * i:
            bad.append(f"message {k} at offset {r['t'] - start} ms, schedule says {k * i}")
            break
    if log:
        if any(r["aid"] != log[0]["aid"] for r in log):
            bad.append("action id changes within the event")
        if any(r["station"] != station or r["aid"][0] != station for r in log):
            bad.append("station identity differs from the originating station")
        if any(a["ref"] > b["ref"] for a, b in zip(log, log[1:])):
            bad.append("reference time decreases")
    tol = 1 if e["kind"] == "eva" else 0
    skips = 0
    for r in log:
        if not r["hst_is_circle"] or r["port"] != 2002:
            bad.append(f"not a geo-broadcast circle to port 2002 ({r['ht']}/{r['hst']}/{r['port']})")
            break
        if r["area"][2] <= 0:
            bad.append("circle radius not positive")
            break
        dl, dn = abs(r["area"][0] - e["lat"]), abs(r["area"][1] - e["lon"])
        dl2, dn2 = abs(r["pos"][0] - e["lat"]), abs(r["pos"][1] - e["lon"])
        if max(dl, dn, dl2, dn2) > tol:
            bad.append(f"circle centre {r['area'][:2]} / DENM event position {r['pos']} != event position {[e['lat'], e['lon']]}")
            break
        if max(dl, dn, dl2, dn2) > 0:
            skips += 1
    return bad, skips


def oracle_scenario(sc, obs):
    bad = []
    ids = {}
    for j, log in enumerate(obs):
        if log:
            ids.setdefault(tuple(log[0]["aid"]), []).append(j)
    for aid, js in ids.items():
        if len(js) > 1:
            bad.append(f"events {js} of one station share action id {list(aid)}")
    return bad


# ---------------------------------------------------------------------------------------------- model

def model_lines(sc):
    evs = sc["events"]
    lines = [f"tm {sc['station']} {sc.get('seq0', 0)}"]
    order = sorted(range(len(evs)), key=lambda j: (evs[j]["start"], j))
    for j in order:
        e = evs[j]
        if e["kind"] == "crw":
            lines.append(f"crw {T0 + e['start']} {ITS_SUB} {e['lat']} {e['lon']}")
        else:
            lines.append(f"event {T0 + e['start']} {ITS_SUB} {e['i']} {e['T']} {e['lat']} {e['lon']}")
    return lines, order


def parse_model_event(line):
    parts = line.split()
    ending, n = parts[0], int(parts[1][2:])
    msgs = []
    for tok in parts[2:]:
        f = tok.split(":")
        msgs.append({"off": int(f[0]), "ref": int(f[1]), "aid": [int(f[2]), int(f[3])], "station": int(f[4]),
                     "port": int(f[5]), "shape": f[6], "area": [int(f[10]), int(f[11]), int(f[7]), int(f[8]), int(f[9])],
                     "pos": [int(f[12]), int(f[13])]})
    if n != len(msgs):
        raise Infra("model line malformed: " + line[:200])
    return ending, msgs


def compare_model(ctx, sc, obs, endings, out, order):
    evs = sc["events"]
    for j, line in zip(order, out[1:]):
        e = evs[j]
        ending, msgs = parse_model_event(line)
        real_end = endings.get(j, "fin")
        want_end = {"fin": "fin", "sleeperr": "ValueError", "nonterm": "stopped"}[ending]
        log = obs[j]
        if ending == "nonterm":
            continue   # compared by check_degenerate (prefix of an infinite stream)
        ok = real_end == want_end and len(msgs) == len(log)
        tol = 1 if e["kind"] == "eva" else 0
        if ok:
            for m, r in zip(msgs, log):
                if (m["off"] != r["t"] - e["start"] or m["aid"] != r["aid"] or m["station"] != r["station"]
                        or m["port"] != r["port"] or (m["shape"] == "circle") != r["hst_is_circle"]
                        or m["area"][2:] != r["area"][2:]
                        or max(abs(m["area"][0] - r["area"][0]), abs(m["area"][1] - r["area"][1]),
                               abs(m["pos"][0] - r["pos"][0]), abs(m["pos"][1] - r["pos"][1])) > tol
                        or abs(m["ref"] - r["ref"]) > 1):
                    ok = False
                    break
                if m["ref"] != r["ref"]:
                    ctx.cover("tolerance_skips_ref_1ms")
        if not ok:
            ctx.mismatch("denm.event", {"scenario": strip(sc), "event": j},
                         {"ending": real_end, "n": len(log), "first": [{k: v for k, v in r.items() if k != "data"} for r in log[:2]]},
                         line[:400])


def strip(sc):
    return {"kind": "scenario", "station": sc["station"], "seq0": sc.get("seq0", 0), "events": sc["events"]}


def check_scenarios(ctx, scs):
    lines_all, metas, results = [], [], []
    for sc in scs:
        obs, endings = run_scenario(sc)
        results.append((obs, endings))
        ctx.evals(sum(len(o) for o in obs) + 1)
        # oracle on the real trace
        for j, e in enumerate(sc["events"]):
            real_end = endings.get(j, "fin")
            if real_end != "fin":
                ctx.violation(f"event {j} ({e['kind']}, i={e['i']}, T={e['T']}) ended with {real_end}", strip(sc))
            bad, skips = oracle_event(e, obs[j], sc["station"])
            if skips:
                ctx.cover("tolerance_skips_pos_1unit", skips)
            if bad:
                ctx.violation(f"event {j} ({e['kind']}, i={e['i']} ms, T={e['T']} ms, start {e['start']}): " + "; ".join(bad[:3]),
                              strip(sc), classify(sc, bad))
            ctx.cover(f"kind_{e['kind']}")
            ctx.cover("T_zero" if e["T"] == 0 else ("T_multiple_of_i" if e["T"] % e["i"] == 0 else "T_not_multiple_of_i"))
            ctx.nontrivial(("ev", e["kind"], e["i"], e["T"], len(obs[j])))
        bad = oracle_scenario(sc, obs)
        if bad:
            ctx.violation("; ".join(bad[:3]), strip(sc), classify(sc, bad))
        ctx.cover(f"events_per_station_{len(sc['events'])}")
        if overlapping(sc):
            ctx.cover("overlapping_events")
        ls, order = model_lines(sc)
        metas.append((len(lines_all), len(ls), order))
        lines_all += ls
    if ctx.model_ok and lines_all:
        out = ctx.model("Denm", lines_all)
        for sc, (obs, endings), (a, n, order) in zip(scs, results, metas):
            compare_model(ctx, sc, obs, endings, out[a:a + n], order)
    if scs:
        sc, (obs, _) = scs[0], results[0]
        ctx.sample("scenario", {"scenario": strip(sc), "emissions": [[(r["t"], r["aid"], r["ref"]) for r in o[:3]] for o in obs]})
    return results


def overlapping(sc):
    iv = [(e["start"], e["start"] + max(e["T"], 0)) for e in sc["events"] if e["kind"] != "crw"]
    return any(a[0] < b[1] and b[0] < a[1] for x, a in enumerate(iv) for b in iv[x + 1:])


def classify(sc, bad):
    return None   # no status:"known" entry: both defects are repaired by fixes/C17-*.diff


# ---------------------------------------------------------------------------------------------- generators

def gen_event(rng, horizon, kinds):
    kind = rng.choice(kinds)
    i = rng.choice([100, 100, 101, 250, 333, 500, 1000, 1000, 2500, 9999, 10000, rng.randrange(100, 10001)])
    mode = rng.randrange(8)
    if mode == 0:
        T = rng.choice([0, 1, 99, 100, 101])
    elif mode == 1:
        T = max(0, i + rng.choice([-1, 0, 1]))
    elif mode in (2, 3):
        T = min(60000, i * rng.randrange(1, 40) + rng.choice([-1, 0, 0, 1]))
    elif mode == 4:
        T = rng.choice([59999, 60000, 60000 - i, 30000])
    else:
        T = rng.randrange(0, min(60001, i * 60 + 1))
    lat = rng.choice([rng.randrange(-900000000, 900000001), 415000000 + rng.randrange(-10 ** 6, 10 ** 6), -337000000, 0, 900000000, -900000000])
    lon = rng.choice([rng.randrange(-1800000000, 1800000001), 21000000 + rng.randrange(-10 ** 6, 10 ** 6), -703000000, 0, 1800000000, -1800000000])
    if kind == "crw":
        i, T = 100, 0
    return {"kind": kind, "i": i, "T": T, "lat": lat, "lon": lon, "start": rng.randrange(0, horizon + 1)}


def gen_scenario(rng):
    n = rng.choice([1, 2, 2, 3, 4])
    kinds = rng.choice([["direct"], ["eva"], ["direct", "eva"], ["direct", "eva", "crw"], ["eva", "crw"]])
    horizon = rng.choice([0, 50, 500, 3000, 20000])
    evs = [gen_event(rng, horizon, kinds) for _ in range(n)]
    # keep positions of different events clearly apart (tolerance of 1 unit must not hide a swap)
    for a in range(n):
        for b in range(a):
            if abs(evs[a]["lat"] - evs[b]["lat"]) < 10 and abs(evs[a]["lon"] - evs[b]["lon"]) < 10:
                evs[a]["lat"] = (evs[a]["lat"] + 1000 * (a + 1)) % 900000000
    return {"station": rng.choice([0, 1, 4294967295, rng.randrange(2 ** 32)]),
            "seq0": rng.choice([0, 0, 0, 65533, 65534, 65535, rng.randrange(65536)]), "events": evs}


FIXED_SCENARIOS = [
    # two overlapping events of one station: distinct action ids (witness of C17-F1)
    {"station": 4242, "seq0": 0, "events": [
        {"kind": "direct", "i": 1000, "T": 3000, "lat": 415000000, "lon": 21000000, "start": 0},
        {"kind": "direct", "i": 1000, "T": 3000, "lat": 415100000, "lon": 21100000, "start": 500}]},
    # two sequential (non-overlapping) events
    {"station": 7, "seq0": 0, "events": [
        {"kind": "eva", "i": 1000, "T": 2000, "lat": 415000000, "lon": 21000000, "start": 0},
        {"kind": "eva", "i": 1000, "T": 2000, "lat": 415000000, "lon": 21000000, "start": 5000}]},
    # emergency-vehicle service triggered twice while the first event still repeats (witness of C17-F2)
    {"station": 9, "seq0": 0, "events": [
        {"kind": "eva", "i": 1000, "T": 5000, "lat": 414536061, "lon": 20737073, "start": 0},
        {"kind": "eva", "i": 1000, "T": 5000, "lat": -337000000, "lon": -703000000, "start": 1500}]},
    # T not a multiple of i; T = 0; i > T
    {"station": 1, "seq0": 65535, "events": [
        {"kind": "direct", "i": 300, "T": 1000, "lat": -1, "lon": -1, "start": 0},
        {"kind": "direct", "i": 100, "T": 0, "lat": 5, "lon": 5, "start": 10},
        {"kind": "direct", "i": 10000, "T": 1, "lat": 900000000, "lon": -1800000000, "start": 20},
        {"kind": "crw", "i": 100, "T": 0, "lat": 415000000, "lon": 21000000, "start": 30}]},
]


# ---------------------------------------------------------------------------------------------- degenerate intervals

def check_degenerate(ctx):
    """interval 0 (non-termination branch) and negative interval (ValueError after one DENM): correspondence only —
    the property's quantifier starts at 100 ms"""
    N = 25
    sc = {"station": 3, "seq0": 0, "events": [{"kind": "direct", "i": 0, "T": 5, "lat": 1, "lon": 2, "start": 0, "sync": True}]}
    obs, endings = run_scenario(sc, max_sleeps=N - 1)
    n = len(obs[0])
    stuck = all(r["t"] == 0 for r in obs[0])
    ctx.evals(n)
    ctx.cover("interval_zero_nonterminating" if (endings.get(0) == "stopped" and stuck) else "interval_zero_other")
    sc2 = {"station": 3, "seq0": 0, "events": [{"kind": "direct", "i": -5, "T": 5, "lat": 1, "lon": 2, "start": 0}]}
    obs2, endings2 = run_scenario(sc2)
    ctx.evals(1)
    ctx.cover("interval_negative_" + str(endings2.get(0)))
    if ctx.model_ok:
        out = ctx.model("Denm", ["tm 3 0", "event 0 0 0 5 1 2", f"stuck {N}", "tm 3 0", f"event {T0} {ITS_SUB} -5 5 1 2"])
        real0 = ("nonterm" if endings.get(0) == "stopped" and stuck and n == N else f"{endings.get(0)} n={n}")
        if out[1].split()[0] != real0 or out[2].split() != [str(r["t"]) for r in obs[0]]:
            ctx.mismatch("denm.interval0", strip(sc), real0, out[1] + " | " + out[2])
        e2, m2 = parse_model_event(out[4])
        if (e2, len(m2)) != ({"ValueError": "sleeperr"}.get(endings2.get(0), endings2.get(0)), len(obs2[0])):
            ctx.mismatch("denm.interval_negative", strip(sc2), [endings2.get(0), len(obs2[0])], out[4])
    ctx.note(f"interval 0: real loop emitted {n} DENMs at offset 0 until the harness stopped it after {N} sleeps (non-terminating); "
             f"interval -5: {len(obs2[0])} DENM then {endings2.get(0)}")


# ---------------------------------------------------------------------------------------------- reception -> LDM

class StubLDM:
    """recording stub of the LDM interface used by DENMReceptionManagement"""

    def __init__(self):
        self.registered, self.added = [], []
        self.if_ldm_3 = self

    def register_data_provider(self, req):
        self.registered.append(req)

    def add_provider_data(self, req):
        self.added.append(req)
        return None


def gen_rx_denm(rng, station=None):
    lat = rng.choice([rng.randrange(-900000000, 900000002), 415000000, -337000000, 0, 900000001])
    lon = rng.choice([rng.randrange(-1800000000, 1800000002), 21000000, -703000000, 0, 1800000001])
    alt = rng.choice([-100000, 0, 16350, 800000, 800001, rng.randrange(-100000, 800002)])
    station = rng.randrange(2 ** 32) if station is None else station
    m = {"actionId": {"originatingStationId": rng.choice([station, rng.randrange(2 ** 32)]), "sequenceNumber": rng.choice([0, 1, 65535, rng.randrange(65536)])},
         "detectionTime": rng.randrange(0, 4398046511104), "referenceTime": rng.choice([0, 4398046511103, rng.randrange(0, 4398046511104)]),
         "eventPosition": event_position(lat, lon, alt), "stationType": rng.randrange(0, 256)}
    if rng.random() < 0.5:
        m["termination"] = rng.choice(["isCancellation", "isNegation"])
    if rng.random() < 0.5:
        m["awarenessDistance"] = rng.choice(["lessThan50m", "lessThan100m", "lessThan200m", "lessThan500m", "lessThan1000m", "lessThan5km", "lessThan10km", "over10km"])
    if rng.random() < 0.5:
        m["trafficDirection"] = rng.choice(["allTrafficDirections", "sameAsReferenceDirection-upstreamOfReferencePosition",
                                            "sameAsReferenceDirection-downstreamOfReferencePosition", "oppositeToReferenceDirection"])
    if rng.random() < 0.6:
        m["validityDuration"] = rng.choice([0, 600, 86400, rng.randrange(0, 86401)])
    if rng.random() < 0.5:
        m["transmissionInterval"] = rng.choice([1, 100, 10000, rng.randrange(1, 10001)])
    return {"header": {"protocolVersion": 2, "messageId": 1, "stationId": station}, "denm": {"management": m}}


def rx_one(denm_bytes_list, real_ldm):
    """feed encoded DENMs to a real DENMReceptionManagement.  Returns list of stored (lat, lon, alt, radius, app, obj)"""
    btp = CaptureBTP(None)
    if real_ldm:
        o_mono = ldm_mr_mod.time
        ldm_mr_mod.time = types.SimpleNamespace(monotonic=lambda: 0.0, time=lambda: 0.0, sleep=lambda s: None)
        try:
            ldm = LDMFactory().create_ldm(Location.location_builder_circle(latitude=415000000, longitude=21000000, altitude=0, radius=5000))
            rm = DENMReceptionManagement(_COD, btp, ldm)
            res = []
            for data in denm_bytes_list:
                before = dict(ldm.ldm_maintenance.data_containers.database)
                try:
                    btp.cb[2002](BTPDataIndication(data=data, length=len(data), destination_port=2002))
                    err = None
                except Exception as e:  # noqa: BLE001
                    err = type(e).__name__
                after = ldm.ldm_maintenance.data_containers.database
                new = [v for k, v in after.items() if k not in before]
                res.append((err, [(n["application_id"], n["location"]["referencePosition"]["latitude"],
                                   n["location"]["referencePosition"]["longitude"],
                                   n["location"]["referencePosition"]["altitude"]["altitudeValue"],
                                   n["location"]["referenceArea"]["geometricArea"]["circle"]["radius"], n["dataObject"]) for n in new],
                            len(after)))
            return res
        finally:
            ldm_mr_mod.time = o_mono
    ldm = StubLDM()
    DENMReceptionManagement(_COD, btp, ldm)
    res = []
    for data in denm_bytes_list:
        n0 = len(ldm.added)
        try:
            btp.cb[2002](BTPDataIndication(data=data, length=len(data), destination_port=2002))
            err = None
        except Exception as e:  # noqa: BLE001
            err = type(e).__name__
        new = ldm.added[n0:]
        res.append((err, [(q.application_id, q.location.reference_position.latitude, q.location.reference_position.longitude,
                           q.location.reference_position.altitude.altitude_value,
                           q.location.reference_area.geometric_area.circle.radius, q.data_object) for q in new], len(ldm.added)))
    return res


def oracle_rx(denm, stored):
    """a received DENM is stored in the LDM at its event position"""
    bad = []
    err, new, _ = stored
    ep = denm["denm"]["management"]["eventPosition"]
    if err:
        return [f"reception raised {err}"]
    if len(new) != 1:
        return [f"{len(new)} LDM entries added for one received DENM"]
    app, lat, lon, alt, radius, obj = new[0]
    if (lat, lon) != (ep["latitude"], ep["longitude"]):
        bad.append(f"stored at {(lat, lon)}, event position {(ep['latitude'], ep['longitude'])}")
    if app != DENM_APP_ID:
        bad.append(f"stored under application id {app}")
    om = obj.get("denm", {}).get("management", {})
    if om.get("actionId") != denm["denm"]["management"]["actionId"] or obj.get("header", {}).get("stationId") != denm["header"]["stationId"]:
        bad.append("stored data object is not the received DENM")
    return bad


def check_rx(ctx, denms):
    datas = [_COD.encode(d) for d in denms]
    with rs.VClock(T0):
        stub = rx_one(datas, False)
        real = rx_one(datas, True)
    lines = ["ldmreset"]
    for d in denms:
        m = d["denm"]["management"]
        ep = m["eventPosition"]
        lines.append(f"rx {m['actionId']['originatingStationId']} {m['actionId']['sequenceNumber']} {m['referenceTime']} "
                     f"{ep['latitude']} {ep['longitude']} {ep['altitude']['altitudeValue']}")
    out = ctx.model("Denm", lines)[1:] if ctx.model_ok else [None] * len(denms)
    for d, s, r, mo in zip(denms, stub, real, out):
        ctx.evals(2)
        m = d["denm"]["management"]
        for tag, st in (("stub", s), ("ldm", r)):
            bad = oracle_rx(d, st)
            if bad:
                ctx.violation(f"received DENM ({tag}): " + "; ".join(bad), {"kind": "rx", "denm": d})
        ctx.nontrivial(("rx", tuple(sorted(m.keys())), m["eventPosition"]["latitude"] < 0, m["eventPosition"]["longitude"] < 0))
        ctx.cover("rx_mgmt_optional_fields_%d" % len([k for k in ("termination", "awarenessDistance", "trafficDirection", "validityDuration", "transmissionInterval") if k in m]))
        if mo is not None and not s[0] and len(s[1]) == 1:
            app, lat, lon, alt, radius, obj = s[1][0]
            om = obj["denm"]["management"]
            realline = f"{s[2]} {app} {lat} {lon} {alt} {radius} {om['actionId']['originatingStationId']} {om['actionId']['sequenceNumber']} {om['referenceTime']}"
            if realline != mo:
                ctx.mismatch("denm.rx", {"kind": "rx", "denm": d}, realline, mo)
            if r[1] and (r[2],) + tuple(r[1][0][:5]) != (s[2],) + tuple(s[1][0][:5]):
                ctx.mismatch("denm.rx.real_ldm_vs_stub", {"kind": "rx", "denm": d}, [r[2]] + list(r[1][0][:5]), mo)
    if denms:
        ctx.sample("rx", {"denm": denms[0], "stored": [list(x[:5]) for x in stub[0][1]]})


def check_loopback(ctx, results, scs):
    """DENMs emitted by the transmission side are received by a second station and land at the event position"""
    pairs = []
    for sc, (obs, _) in zip(scs, results):
        for log in obs:
            for r in log[:2]:
                pairs.append(r)
    pairs = pairs[:ctx.scale(150, 3000)]
    if not pairs:
        return
    with rs.VClock(T0):
        stored = rx_one([r["data"] for r in pairs], False)
    for r, st in zip(pairs, stored):
        ctx.evals()
        d = {"header": {"stationId": r["station"]}, "denm": {"management": {
            "actionId": {"originatingStationId": r["aid"][0], "sequenceNumber": r["aid"][1]},
            "eventPosition": {"latitude": r["pos"][0], "longitude": r["pos"][1]}}}}
        bad = oracle_rx(d, st)
        if bad:
            dec = _COD.decode(r["data"])   # management container only: JSON-safe (no CHOICE tuples), enough for the LDM feed
            ctx.violation("loopback of an emitted DENM: " + "; ".join(bad),
                          {"kind": "rx", "denm": {"header": dec["header"], "denm": {"management": dec["denm"]["management"]}}})
    ctx.cover("loopback_tx_to_rx", len(pairs))


# ---------------------------------------------------------------------------------------------- entry points

def run(ctx):
    ctx.extra["rule"] = ("scenarios = 1-4 events (direct DENRequest / EmergencyVehicleApproachingService / collision-risk one-shot) "
                         "of one station with random start offsets; distinct_nontrivial counts distinct (kind, interval, duration, "
                         "message count) events and distinct (management-container field set, hemisphere) receptions")
    ctx.extra["glue"] = "virtual clock + deterministic scheduler; reference time and int(lat*1e7) compared with tolerance 1"
    with rs.quiet():
        corp = [c for _, c in corpus("C17")]
        scs = [c for c in corp if c.get("kind") == "scenario"]
        rxs = [c["denm"] for c in corp if c.get("kind") == "rx"]
        ctx.cover("corpus_cases", len(corp))
        check_scenarios(ctx, scs)
        if rxs:
            check_rx(ctx, rxs)
        check_degenerate(ctx)
        fixed = [copy.deepcopy(s) for s in FIXED_SCENARIOS]
        gen = [gen_scenario(ctx.rng) for _ in range(ctx.scale(600, 9000))]
        res = check_scenarios(ctx, fixed + gen)
        check_loopback(ctx, res, fixed + gen)
        check_rx(ctx, [gen_rx_denm(ctx.rng) for _ in range(ctx.scale(3000, 60000))])


def search(ctx):
    ok = ctx.model_ok
    ctx.model_ok = False
    try:
        with rs.quiet():
            check_scenarios(ctx, [gen_scenario(ctx.rng) for _ in range(ctx.scale(3600, 27000))])
            check_rx(ctx, [gen_rx_denm(ctx.rng) for _ in range(ctx.scale(9000, 300000))])
    finally:
        ctx.model_ok = ok


def replay(ctx, obj):
    case = obj.get("case", obj)
    kind = case.get("kind")
    if kind == "scenario":
        with rs.quiet():
            obs, endings = run_scenario(case)
        bad = []
        for j, e in enumerate(case["events"]):
            if e["i"] <= 0:
                continue
            if endings.get(j, "fin") != "fin":
                bad.append(f"event {j} ended with {endings.get(j)}")
            b, _ = oracle_event(e, obs[j], case["station"])
            bad += [f"event {j}: {x}" for x in b]
        bad += oracle_scenario(case, obs)
        for j, log in enumerate(obs):
            print(f"event {j}: {[(r['t'], r['aid'], r['pos']) for r in log[:6]]}{' …' if len(log) > 6 else ''}")
        print("oracle:", bad or "ok")
        return bool(bad)
    if kind == "rx":
        with rs.quiet():
            data = _COD.encode(case["denm"])
            with rs.VClock(T0):
                res = [rx_one([data], False)[0], rx_one([data], True)[0]]
        bad = [b for st in res for b in oracle_rx(case["denm"], st)]
        print("oracle:", bad or "ok")
        return bool(bad)
    raise Infra(f"unknown replay kind {kind}")

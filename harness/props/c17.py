"""C17 — DEN service repeats an event's DENM on schedule with a stable, unique identity.

Theorems: lean/Props/C17.lean about lean/FlexModel/Fac/Denm.lean.
Tie: the real DENMTransmissionManagement / EmergencyVehicleApproachingService / DENMReceptionManagement are run
in-process under a virtual clock and a deterministic cooperative scheduler (time.sleep, threading.Thread patched in
the transmission-management module's namespace; TimeService.time patched by realstack.VClock); every BTPDataRequest
is captured with its virtual time stamp, decoded with the repository's DENM coder and compared with the Lean model's
emission list.  Oracle: `oracle_event` / `oracle_scenario` / `oracle_rx` / `oracle_rx_maint` transcribe the property
text and are applied to the REAL timed emission log and the REAL LDM content.

Round 3 additions: failure injection below the service (transport raises / coder raises at chosen repetitions, fix
C17-F3), callers that overwrite the position dictionary of a running request (fix C17-F4), reception of every subset
of the optional management fields into the LDM built by LDMFactory WITH its reactive maintenance running on the
virtual clock (known finding C17-KF1 = C12-KF1 seen through reception), and concurrent origination of several events
under harness/dsched.py (pre-emption at every access inside `allocate_sequence_number`; `AllocRun`), tied to
`Generated/Denm.lean` (harness/gen_denm.py) and theorem `alloc_section_tied`.

Round 4 additions: OVERLAPPING events under thread interleavings of the REPETITION BODY - `body` scenarios of
`AllocRun` pre-empt before every attribute access / call inside trigger_denm_messages / transmit_denm /
send_collision_risk_warning_denm; every DENM is attributed to the event of the thread that hands it over and judged
against THAT event (count, action id, event position, circle centre); outcomes compared with the Lean model of the
repetition body (FlexModel/Fac/DenmRep.lean, op `reps`); regenerated facts `bodySharedStores` / `bodySelfAttrs` /
`transmitArgs` (the message object of a repetition is local to it) discharged by `repetition_message_tied`.

Round 5 additions: (a) thread-start latency - `Thread.start()` of the virtual-time scheduler only REGISTERS the event
thread, the caller returns first; `mutate.window = "start"` lets the caller overwrite the position dictionary of its
request before the event thread has executed a single statement (seeded change C17-m7); thread scenario
`request_then_reuse_position_dict` does the same under harness/dsched.py (the schedule decides where the write lands);
regenerated fact `snapshotSite`, theorems `request_snapshot_tied` / `request_position_fixed_at_request`.  (b) watchdog -
`threading.Lock` / `RLock` of the module are cooperative stand-ins (`CoopLock`): a thread that finds a lock held parks; a
thread still parked when nothing is left to run is reported as 'repetition stalled', a thread that does not yield within
HANG_S real seconds as 'hung' - outcomes of the code under test, judged by the oracle with the scenario as replay (seeded
change C17-m9: bare acquire()/release() around the hand-over, the lock stays held after ONE failed repetition);
regenerated fact `bareLockCalls`, theorems `lock_discipline_tied` / `failed_handover_blocks_nobody`.

Round 6: a hand-over that TAKES TIME - per-event key `slow` {"n": ms}: the nth hand-over of the event blocks the calling
thread for ms of virtual time inside `btp_router.btp_data_request` (`Sched.block`: the thread is parked, the other threads
and the clock go on; afterwards `time.monotonic()` / `time.time()` of the module show the elapsed time).  `time.sleep` of
the module refuses a negative length like the real one (ValueError) and a repetition thread that dies with an exception
is a VIOLATION with the scenario as replay.  Oracle: still ceil(T/i) DENMs, DENM k not before k*i and at most as late as
the earlier hand-overs took (seeded change C17-m11: `sleep(i/1000 - elapsed)` without a clamp, outside the try).
Regenerated fact `sleepArgs`, theorems `repetition_sleep_tied` / `count_independent_of_handover_duration`.
"""
from __future__ import annotations

import copy
import heapq
import threading
import types

from common import Infra, corpus
import realstack as rs
import dsched
import gen_denm

import flexstack.facilities.decentralized_environmental_notification_service.denm_transmission_management as tm_mod
import flexstack.facilities.local_dynamic_map.ldm_maintenance_reactive as ldm_mr_mod
import flexstack.facilities.decentralized_environmental_notification_service.den_service as den_mod
from flexstack.facilities.decentralized_environmental_notification_service.den_service import (
    DecentralizedEnvironmentalNotificationService)
from flexstack.facilities.decentralized_environmental_notification_service.denm_coder import DENMCoder
from flexstack.facilities.decentralized_environmental_notification_service.denm_reception_management import (
    DENMReceptionManagement)
from flexstack.facilities.ca_basic_service.cam_transmission_management import VehicleData
from flexstack.applications.road_hazard_signalling_service.service_access_point import DENRequest
from flexstack.applications.road_hazard_signalling_service.emergency_vehicle_approaching_service import (
    EmergencyVehicleApproachingService)
from flexstack.facilities.local_dynamic_map.factory import LDMFactory
from flexstack.facilities.local_dynamic_map.ldm_classes import (
    Location, ReferencePosition, PositionConfidenceEllipse, Altitude, TimestampIts, AddDataProviderReq, TimeValidity)
from flexstack.facilities.local_dynamic_map.ldm_constants import DENM as DENM_APP_ID
from flexstack.btp.service_access_point import BTPDataIndication
from flexstack.geonet.service_access_point import GeoBroadcastHST, HeaderType

MODULES = ["Props.C17"]
DRIVERS = ["Denm"]
TRUSTED = [
    "modelled rather than verified: time.sleep(interval/1000) is taken to last exactly `interval` ms (virtual clock); "
    "real sleep drift is replaced by the deterministic scheduler of harness/props/c17.py; thread start latency is "
    "modelled as 'the caller returns from request_denm_sending before the event thread executes its first statement' "
    "(virtual-time scenarios) and as a schedule choice (thread scenarios)",
    "the cooperative Lock / RLock stand-ins and the watchdog of harness/props/c17.py (a thread parked on a lock when "
    "nothing is left to run = stalled; no yield within 30 s of real time = hung); a lock not created through the "
    "module's `threading` name blocks for real and is seen by the 30 s watchdog only",
    "asn1tools UPER DENM codec (the emitted payload is decoded with the repository's own coder)",
    "float glue int((t - ITS_EPOCH + 5) * 1000) of TimeService.timestamp_its and int(lat * 1e7) of the emergency "
    "vehicle service: compared with a tolerance of 1 unit (counted as tolerance_skips)",
    "harness/dsched.py (deterministic scheduler for real threads: opcode-level pre-emption points inside "
    "allocate_sequence_number, scheduler-aware Lock/Thread stand-ins) and harness/gen_denm.py (ast pass producing "
    "Generated/Denm.lean); the step from CPython bytecode to the micro-blocks `rd`/`wrA`/`wrL` of "
    "FlexModel/Fac/DenmConc.lean (one block per access to self.sequence_number) is by inspection",
    "harness/gen_denm.py analyse_body (ast pass: stores through self / parameters / globals, instance attributes read, "
    "argument of self.transmit_denm in the methods reachable from the three entry points) and the step from the "
    "statements of the repetition body to the six accesses new / fill id / fill position / encode / latitude / "
    "longitude+hand-over of FlexModel/Fac/DenmRep.lean (by inspection; what the fill methods and the coder do to "
    "objects OTHER than the message of the repetition is not analysed - they receive only locals and read-only "
    "collaborators as long as the regenerated facts hold)",
    "the LDM's collection (`collect_trash`) is abstract in the C17 model (deletion test `del`, modelled in detail by "
    "C12); the harness classifies the new record with `kf1_region` / `in_area_of_maintenance`",
]
ASSUMPTIONS = [
    "virtual time: a repetition thread runs only when the scheduler resumes it; sleep(d) wakes exactly d later",
    "events of one station are requested in the order of their start times (sequence numbers are allocated when the "
    "repetition thread starts)",
    "fewer than 65536 events of one station are alive at the same time",
    "thread scenarios (harness/dsched.py): `time.sleep` is a yield point and the clock stands still - cadence and "
    "reference times are judged in the virtual-time scenarios, identity / position / circle centre / count per event "
    "in the thread scenarios; pre-emption happens before attribute accesses and calls INSIDE the methods of "
    "DENMTransmissionManagement reachable from its three entry points, the message class's fill methods and the coder "
    "are entered and left without pre-emption",
    "self.vehicle_data of the transmission management is not rebound while an event repeats (nothing in the "
    "repository does; the code re-reads it at every repetition, the model reads the station id once per event)",
    "slow hand-overs (round 6): only btp_router.btp_data_request takes (virtual) time, for whole milliseconds and "
    "without raising; building and encoding a DENM take no virtual time; slow hand-overs are not combined with "
    "injected failures or a caller overwriting its dictionary in the same event",
    "failure injection: a repetition 'fails' by btp_router.btp_data_request or denm_coder.encode raising an ordinary "
    "Exception; the one-shot send_collision_risk_warning_denm reports such a failure to its caller (not injected)",
    "known finding C17-KF1 (= C12-KF1, pinned by tests/.../test_ldm_maintenance.py): a received DENM whose event "
    "position is next to the LDM position is deleted by the collection triggered by its own add_provider_data",
]

ITS_SUB = 1072915200000 - 5000   # unix ms -> ITS ms
T0 = 1_700_000_000_000
_COD = DENMCoder()


class _Stop(Exception):
    pass


class _Kill(BaseException):
    """raised inside a parked repetition thread the harness gives up on (a thread blocked for ever in `acquire()`);
    a BaseException so that the `except Exception` of the repetition loop cannot swallow it"""


class RepetitionStalled(Exception):
    """the HARNESS thread (a synchronous caller: send_collision_risk_warning_denm, a direct trigger_denm_messages)
    blocks in `acquire()` of a lock that nothing can release any more"""


HANG_S = 30.0          # real seconds a repetition thread may run without yielding before it is judged `hung`
_HUNG = {"n": 0}       # hung threads seen in this process (each costs HANG_S: the generators stop after the second)


class _Task:
    def __init__(self, sched, tag, target, args):
        self.sched, self.tag, self.target, self.args = sched, tag, target, args
        self.sem = threading.Semaphore(0)
        self.ending = None
        self.sleeps = 0
        self.blocked_on = None      # CoopLock this thread is parked on
        self.killed = False
        self.abandoned = False      # did not yield within HANG_S: the scheduler no longer waits for it
        self.real = threading.Thread(target=self._body, daemon=True)

    def _body(self):
        self.sem.acquire()
        try:
            if self.killed:
                raise _Kill()
            self.target(*self.args)
            self.ending = self.ending or "fin"
        except _Stop:
            self.ending = "stopped"
        except _Kill:
            pass                     # `ending` was set by the scheduler (stalled / hung)
        except Exception as e:  # noqa: BLE001 - recorded, judged by the oracle
            self.ending = type(e).__name__
        finally:
            if not self.abandoned:
                self.sched.ctrl.release()


class CoopLock:
    """threading.Lock / RLock as seen by the transmission-management module under the cooperative scheduler (round 5).
    A repetition thread that finds the lock held PARKS (the scheduler goes on with the other threads and the clock);
    `release()` hands the lock to the longest waiting thread, which becomes runnable at the current virtual time.
    A thread still parked when nothing is left to run can never be resumed: `Sched.finish` reports it as
    'stalled' (watchdog) - the harness never blocks on a real lock."""

    def __init__(self, sched, reentrant=False):
        self.sched, self.reentrant = sched, reentrant
        self.owner, self.depth, self.waiters = None, 0, []

    def _me(self):
        return self.sched.by_ident.get(threading.get_ident()) or "harness"

    def acquire(self, blocking=True, timeout=-1):
        me = self._me()
        if self.owner is None or (self.reentrant and self.owner is me):
            self.owner, self.depth = me, self.depth + 1
            return True
        if not blocking:
            return False
        if timeout is not None and timeout >= 0:     # acquire(timeout=..): wait (virtual time), then one more try
            self.sched.sleep(timeout)
            if self.owner is None:
                self.owner, self.depth = me, 1
                return True
            return False
        if me == "harness":
            # a synchronous caller blocks: the other threads go on until the lock is free - or nothing is left to run
            while self.owner is not None:
                if not self.sched.heap:
                    raise RepetitionStalled("blocked for ever in acquire(): the lock is held by "
                                            + self.sched.who(self.owner) + " and nothing is left that could release it")
                self.sched.step()
            self.owner, self.depth = me, 1
            return True
        self.waiters.append(me)
        me.blocked_on = self
        self.sched.ctrl.release()
        me.sem.acquire()
        if me.killed or me.abandoned:
            raise _Kill()
        return True                                   # `release` made this thread the owner

    def release(self):
        if self.owner is None:
            raise RuntimeError("release unlocked lock")
        self.depth -= 1
        if self.depth > 0:
            return
        self.owner = None
        if self.waiters:
            w = self.waiters.pop(0)
            w.blocked_on, self.owner, self.depth = None, w, 1
            heapq.heappush(self.sched.heap, (self.sched.clock.ms, self.sched.order, w))
            self.sched.order += 1

    def locked(self):
        return self.owner is not None

    __enter__ = acquire

    def __exit__(self, *a):
        self.release()


class Sched:
    """deterministic cooperative scheduler: exactly one repetition thread (or the harness) runs at a time.
    Round 5: `Thread.start()` only REGISTERS the thread (it is runnable at the current virtual time and runs when the
    harness next lets the scheduler run: thread-start latency - the caller goes on first); locks are `CoopLock`s;
    watchdog: a thread parked on a lock when nothing is left to run is `stalled`, a thread that does not yield within
    HANG_S real seconds is `hung` - both are OUTCOMES of the code under test, judged by the oracle, not harness errors."""

    def __init__(self, clock, max_sleeps=None):
        self.clock = clock
        self.heap, self.order = [], 0
        self.ctrl = threading.Semaphore(0)
        self.cur = None
        self.next_tag = 0
        self.by_ident = {}
        self.tasks = []
        self.max_sleeps = max_sleeps
        self.main_sleeps = 0
        self.drift = {}        # round 6: per event tag, virtual ms its thread has spent blocked in slow hand-overs

    def spawn(self, target, args, defer=False):
        th = _Task(self, self.next_tag, target, args)
        self.tasks.append(th)
        th.real.start()
        self.by_ident[th.real.ident] = th
        if defer:
            heapq.heappush(self.heap, (self.clock.ms, self.order, th))
            self.order += 1
        else:
            self._resume(th)
        return th

    def who(self, owner):
        return "the harness thread" if owner == "harness" else f"the thread of event {owner.tag}"

    def _resume(self, th):
        prev, self.cur = self.cur, th.tag
        th.sem.release()
        limit = HANG_S if _HUNG["n"] == 0 else HANG_S / 6
        if not self.ctrl.acquire(timeout=limit):
            # watchdog: the thread neither finished nor reached a sleep / a lock of the scheduler
            th.abandoned, th.ending = True, f"hung (no progress within {limit:.0f} s of real time)"
            _HUNG["n"] += 1
        self.cur = prev

    def sleep(self, seconds):
        if seconds < 0:
            raise ValueError("sleep length must be non-negative")
        ms = int(round(seconds * 1000))
        th = self.by_ident.get(threading.get_ident())
        if th is None:            # direct call from the harness thread
            self.main_sleeps += 1
            if self.max_sleeps is not None and self.main_sleeps > self.max_sleeps:
                raise _Stop()
            self.clock.ms += ms
            return
        if th.abandoned:
            raise _Kill()
        th.sleeps += 1
        if self.max_sleeps is not None and th.sleeps > self.max_sleeps:
            raise _Stop()
        heapq.heappush(self.heap, (self.clock.ms + ms, self.order, th))
        self.order += 1
        self.ctrl.release()
        th.sem.acquire()
        if th.killed or th.abandoned:
            raise _Kill()

    def block(self, ms):
        """round 6: the running thread is BLOCKED for `ms` of virtual time inside a collaborator (a hand-over to the
        transport layer that takes time): it is parked, the other threads and the clock go on, and when it is resumed
        `time.monotonic()` / `time.time()` of the module show that the time has passed.  Not a `time.sleep` of the code
        under test: not counted in `sleeps`."""
        th = self.by_ident.get(threading.get_ident())
        if th is None:
            self.clock.ms += ms
            return
        if th.abandoned:
            raise _Kill()
        self.drift[th.tag] = self.drift.get(th.tag, 0) + ms
        heapq.heappush(self.heap, (self.clock.ms + ms, self.order, th))
        self.order += 1
        self.ctrl.release()
        th.sem.acquire()
        if th.killed or th.abandoned:
            raise _Kill()

    def step(self):
        wake, _, th = heapq.heappop(self.heap)
        self.clock.ms = max(self.clock.ms, wake)
        self._resume(th)

    def run_until(self, t_ms=None):
        while self.heap and (t_ms is None or self.heap[0][0] <= t_ms):
            self.step()
        if t_ms is not None:
            self.clock.ms = max(self.clock.ms, t_ms)

    def finish(self):
        """run everything that can run; then the watchdog: a thread still parked on a lock can never be resumed"""
        self.run_until(None)
        for th in self.tasks:
            if th.blocked_on is not None and th.ending is None:
                lk = th.blocked_on
                th.ending = ("stalled (blocked for ever in acquire(): the lock is held by " + self.who(lk.owner)
                             + " and nothing is left that could release it)")
                if th in lk.waiters:
                    lk.waiters.remove(th)
                th.blocked_on, th.killed = None, True
                self._resume(th)       # unwinds with _Kill and ends


class InjectedTransportError(OSError):
    """raised by the capturing transport when a scenario asks repetition k of an event to fail below the DEN service"""


class InjectedEncodeError(ValueError):
    """raised by the coder stand-in when a scenario asks repetition k of an event to be unencodable"""


def fault_of(evs, sched):
    """fault requested by the scenario for the repetition that is running now: 't' / 'e' / None.  The repetition index
    is derived from the virtual clock (k = elapsed / interval), not from a call counter, so that it does not depend on
    how the code under test reacts to earlier faults."""
    tag = sched.cur
    if evs is None or tag is None or not (0 <= tag < len(evs)):
        return None
    e = evs[tag]
    if not e.get("faults") or e["i"] <= 0:
        return None
    k = (sched.clock.ms - T0 - e["start"] - sched.drift.get(tag, 0)) // e["i"]
    return e["faults"].get(str(k))


class CaptureBTP:
    """capturing BTP router: records (virtual ms, event tag, BTPDataRequest, transport raised?)"""

    def __init__(self, sched, evs=None):
        self.sched, self.log, self.cb, self.evs = sched, [], {}, evs
        self.nth = {}

    def btp_data_request(self, request):
        failed = fault_of(self.evs, self.sched) == "t"
        tag = self.sched.cur
        nth = self.nth.get(tag, 0)        # this is the nth hand-over of the event (0-based)
        self.nth[tag] = nth + 1
        self.log.append((self.sched.clock.ms, tag, request, failed))
        if failed:
            raise InjectedTransportError("injected: transport layer refuses the DENM")
        if self.evs is not None and tag is not None and 0 <= tag < len(self.evs):
            ms = (self.evs[tag].get("slow") or {}).get(str(nth))
            if ms:
                # round 6: the hand-over TAKES TIME (congested link layer): the calling thread is blocked for `ms` of
                # virtual time, then btp_data_request returns normally
                self.sched.block(int(ms))

    def register_indication_callback_btp(self, port, callback):
        self.cb[port] = callback


class FaultyCoder:
    """the repository's DENM coder; `encode` raises for the repetitions the scenario marks 'e'"""

    def __init__(self, inner, sched, evs):
        self.inner, self.sched, self.evs = inner, sched, evs

    def encode(self, denm):
        if fault_of(self.evs, self.sched) == "e":
            raise InjectedEncodeError("injected: DENM cannot be encoded")
        return self.inner.encode(denm)

    def decode(self, data):
        return self.inner.decode(data)


class _Patched:
    """time / threading of the transmission-management module replaced by scheduler-aware stand-ins"""

    def __init__(self, sched):
        self.sched = sched

    def __enter__(self):
        sched = self.sched
        self.o_time, self.o_thr = tm_mod.time, tm_mod.threading
        ft = types.SimpleNamespace(**{k: getattr(self.o_time, k) for k in dir(self.o_time) if not k.startswith("__")})
        ft.sleep = sched.sleep
        ft.time = lambda: sched.clock.ms / 1000.0
        ft.monotonic = ft.time

        class FakeThread:
            def __init__(self, target=None, args=(), kwargs=None, daemon=None, **_):
                self.target, self.args, self.daemon = target, tuple(args), daemon
                self.task = None

            def start(self):
                # registered, not run: the caller returns from start() first (thread-start latency)
                self.task = sched.spawn(self.target, self.args, defer=True)

            def join(self, timeout=None):
                pass

            def is_alive(self):
                return self.task is not None and self.task.ending is None

        fth = types.SimpleNamespace(**{k: getattr(self.o_thr, k) for k in dir(self.o_thr) if not k.startswith("__")})
        fth.Thread = FakeThread
        fth.Lock = lambda: CoopLock(sched)
        fth.RLock = lambda: CoopLock(sched, reentrant=True)
        tm_mod.time, tm_mod.threading = ft, fth
        # compiling the DENM ASN.1 takes seconds: every DEN service of the run shares one (stateless) coder
        self.o_coder, den_mod.DENMCoder = den_mod.DENMCoder, (lambda: _COD)
        return self

    def __exit__(self, *a):
        tm_mod.time, tm_mod.threading = self.o_time, self.o_thr
        den_mod.DENMCoder = self.o_coder


def event_position(lat, lon, alt=800001):
    return {"latitude": lat, "longitude": lon,
            "positionConfidenceEllipse": {"semiMajorConfidence": 4095, "semiMinorConfidence": 4095,
                                          "semiMajorOrientation": 3601},
            "altitude": {"altitudeValue": alt, "altitudeConfidence": "unavailable"}}


def run_scenario(sc, max_sleeps=None):
    """run one scenario on the real code.  Returns per-event observation lists + endings.
    Optional per-event keys: `faults` {"k": "t"|"e"} (repetition k: transport raises / coder raises),
    `mutate` {"at": ms after the request, "lat", "lon"} (the CALLER overwrites the position dictionary it passed;
    with `"window": "start"` it does so right after `request_denm_sending` has returned and BEFORE the event thread has
    executed its first statement - the thread-start latency window; otherwise after the repetitions due at `at`)."""
    evs = sc["events"]
    for e in evs:
        if e["kind"] not in ("direct", "eva", "crw"):
            raise Infra(f"unknown event kind {e['kind']}")
    with rs.VClock(T0) as clock:
        sched = Sched(clock, max_sleeps)
        btp = CaptureBTP(sched, evs)
        with _Patched(sched):
            den = DecentralizedEnvironmentalNotificationService(btp, VehicleData(station_id=sc["station"], station_type=5))
            tmm = den.denm_transmission_management
            if any(e.get("faults") for e in evs):
                tmm.denm_coder = FaultyCoder(tmm.denm_coder, sched, evs)
            if sc.get("seq0"):
                tmm.sequence_number = sc["seq0"]
            state = {"eva": None}
            held = {}
            errors = {}
            actions = [(evs[j]["start"], 0, j, "start") for j in range(len(evs))]
            actions += [(evs[j]["start"] + evs[j]["mutate"]["at"], 1, j, "mutate") for j in range(len(evs))
                        if evs[j].get("mutate") and evs[j]["mutate"].get("window") != "start"]
            actions.sort(key=lambda a: (a[0], a[1], a[2]))

            def start_event(j):
                e = evs[j]
                sched.next_tag = j
                if e["kind"] == "direct":
                    held[j] = event_position(e["lat"], e["lon"])
                    req = DENRequest(denm_interval=e["i"], time_period=e["T"], detection_time=clock.ms - ITS_SUB,
                                     event_position=held[j],
                                     relevance_distance="lessThan200m", relevance_traffic_direction="upstreamTraffic",
                                     rhs_cause_code="emergencyVehicleApproaching95", rhs_subcause_code=1,
                                     rhs_event_speed=30, rhs_vehicle_type=0)
                    if e.get("sync"):
                        tmm.trigger_denm_messages(req)
                    else:
                        tmm.request_denm_sending(req)
                        if (e.get("mutate") or {}).get("window") == "start":
                            # the application re-uses its dictionary as soon as the request call has returned; the
                            # event thread is registered but has not executed a single statement yet
                            held[j]["latitude"], held[j]["longitude"] = e["mutate"]["lat"], e["mutate"]["lon"]
                elif e["kind"] == "eva":
                    if state["eva"] is None:
                        state["eva"] = EmergencyVehicleApproachingService(den, duration=e["T"])
                    eva = state["eva"]
                    eva.denm_duration, eva.denm_interval = e["T"], e["i"]
                    eva.trigger_denm_sending({"lat": e["lat"] / 1e7, "lon": e["lon"] / 1e7, "altHAE": 12.5})
                elif e["kind"] == "crw":
                    req = DENRequest.with_collision_risk_warning(
                        TimestampIts(clock.ms - ITS_SUB),
                        ReferencePosition(e["lat"], e["lon"], PositionConfidenceEllipse(4095, 4095, 3601),
                                          Altitude(800001, "unavailable")))
                    tmm.send_collision_risk_warning_denm(req)

            for (t, _, j, what) in actions:
                sched.run_until(T0 + t)
                if what == "mutate":
                    if j in held:       # the application re-uses its dictionary for something else
                        held[j]["latitude"], held[j]["longitude"] = evs[j]["mutate"]["lat"], evs[j]["mutate"]["lon"]
                    continue
                # the application's call runs as a scheduler task of its own (tag = the event), at once and under the
                # watchdog: the harness thread itself never enters the code under test (a synchronous call that blocks -
                # send_collision_risk_warning_denm on a lock that is never released - parks / is timed out like any
                # other thread instead of hanging the check)
                sched.next_tag = j
                sched.spawn(start_event, (j,))
                sched.run_until(clock.ms)      # the threads started by this action run up to their first sleep
            sched.finish()
    obs = [[] for _ in evs]
    for (t, tag, rq, failed) in btp.log:
        d = _COD.decode(rq.data)
        m = d["denm"]["management"]
        ar, ptt = rq.gn_area, rq.gn_packet_transport_type
        rec = {"t": t - T0, "station": d["header"]["stationId"],
               "aid": [m["actionId"]["originatingStationId"], m["actionId"]["sequenceNumber"]],
               "ref": m["referenceTime"], "pos": [m["eventPosition"]["latitude"], m["eventPosition"]["longitude"]],
               "port": rq.destination_port, "ht": ptt.header_type.name, "hst": getattr(ptt.header_subtype, "name", str(ptt.header_subtype)),
               "hst_is_circle": ptt.header_type == HeaderType.GEOBROADCAST and ptt.header_subtype == GeoBroadcastHST.GEOBROADCAST_CIRCLE,
               "area": [ar.latitude, ar.longitude, ar.a, ar.b, ar.angle], "data": rq.data, "failed": failed}
        if tag is None or not (0 <= tag < len(evs)):
            raise Infra(f"emission outside any event (tag {tag})")
        obs[tag].append(rec)
    endings = {}
    for th in sched.tasks:       # per event: the caller's task and the repetition thread it started - the worse of the two
        if endings.get(th.tag, "fin") == "fin":
            endings[th.tag] = th.ending
    endings.update(errors)
    return obs, endings


def is_stall(ending):
    return isinstance(ending, str) and (ending.startswith("stalled") or ending.startswith("hung"))


# ---------------------------------------------------------------------------------------------- oracle

def ceil_div(a, b):
    return -((-a) // b)


def oracle_event(e, log, station):
    """property text for one event with interval i > 0 (repetition kinds) or the one-shot CRW request"""
    bad = []
    i, T, start = e["i"], e["T"], e["start"]
    want_n = 1 if e["kind"] == "crw" else (ceil_div(T, i) if T > 0 else 0)
    faults = e.get("faults") or {}
    # a repetition whose DENM cannot be encoded has nothing to hand over; every other repetition of the schedule is
    # handed to the transport layer (whether or not the transport then raises)
    want_ks = [k for k in range(want_n) if faults.get(str(k)) != "e"]
    if len(log) != len(want_ks):
        bad.append(f"count {len(log)} != ceil(T/i) {want_n}" + (f" minus {want_n - len(want_ks)} unencodable" if len(want_ks) != want_n else "")
                   + (f" (repetitions failing below the service: {faults})" if faults else ""))
    # round 6: hand-overs that TAKE TIME (`slow` {"n": ms}: the nth hand-over of the event blocks for ms).  The count is
    # unchanged; message k is never early and at most as late as the time the earlier hand-overs took (an implementation
    # may or may not make up for it)
    slow = e.get("slow") or {}
    late = 0
    for n, (k, r) in enumerate(zip(want_ks, log)):
        if not (start + k * i <= r["t"] <= start + k * i + late):
            bad.append(f"message {k} at offset {r['t'] - start} ms, schedule says {k * i}"
                       + (f" (+ at most {late} ms spent in slow hand-overs)" if late else ""))
            break
        late += int(slow.get(str(n), 0))
    if log:
        if any(r["aid"] != log[0]["aid"] for r in log):
            bad.append("action id changes within the event")
        if any(r["station"] != station or r["aid"][0] != station for r in log):
            bad.append("station identity differs from the originating station")
        if any(a["ref"] > b["ref"] for a, b in zip(log, log[1:])):
            bad.append("reference time decreases")
    tol = 1 if e["kind"] == "eva" else 0
    skips = 0
    for r in log:
        if not r["hst_is_circle"] or r["port"] != 2002:
            bad.append(f"not a geo-broadcast circle to port 2002 ({r['ht']}/{r['hst']}/{r['port']})")
            break
        if r["area"][2] <= 0:
            bad.append("circle radius not positive")
            break
        dl, dn = abs(r["area"][0] - e["lat"]), abs(r["area"][1] - e["lon"])
        dl2, dn2 = abs(r["pos"][0] - e["lat"]), abs(r["pos"][1] - e["lon"])
        if max(dl, dn, dl2, dn2) > tol:
            bad.append(f"circle centre {r['area'][:2]} / DENM event position {r['pos']} != event position {[e['lat'], e['lon']]}")
            break
        if max(dl, dn, dl2, dn2) > 0:
            skips += 1
    return bad, skips


def oracle_scenario(sc, obs):
    bad = []
    ids = {}
    for j, log in enumerate(obs):
        if log:
            ids.setdefault(tuple(log[0]["aid"]), []).append(j)
    for aid, js in ids.items():
        if len(js) > 1:
            bad.append(f"events {js} of one station share action id {list(aid)}")
    return bad


# ---------------------------------------------------------------------------------------------- model

_TX_VARIANTS = None


def tx_variants():
    """which loop / request handling does the tree under test have?  Probed on the real code so that the MODEL side of
    the correspondence follows the code (the oracle does not: on a tree without the repairs the violations are
    reported).  loop: 'skip' (C17-F3 repaired: a failing repetition is skipped) / 'abort' (the thread dies);
    pos: 'copy' (C17-F4 repaired: position taken at request time) / 'ref' (read by reference at every repetition)."""
    global _TX_VARIANTS
    if _TX_VARIANTS is None:
        # three separate probes (a tree that stalls after a failed repetition must not blur the other two answers)
        sc_pos = {"station": 1, "seq0": 0, "events": [
            {"kind": "direct", "i": 100, "T": 200, "lat": 3000, "lon": 4000, "start": 0, "mutate": {"at": 50, "lat": 7000, "lon": 8000}}]}
        # round 5: WHERE is the snapshot taken - when the request is accepted (caller's thread) or later (event thread)?
        sc_snap = {"station": 1, "seq0": 0, "events": [
            {"kind": "direct", "i": 100, "T": 100, "lat": 3000, "lon": 4000, "start": 0,
             "mutate": {"at": 0, "window": "start", "lat": 7000, "lon": 8000}}]}
        sc_loop = {"station": 1, "seq0": 0, "events": [
            {"kind": "direct", "i": 100, "T": 200, "lat": 1, "lon": 2, "start": 0, "faults": {"0": "t"}}]}
        v, stall = {}, None
        for key, sc in (("pos", sc_pos), ("snap", sc_snap), ("loop", sc_loop)):
            obs, endings = run_scenario(sc)
            if key == "pos":
                v[key] = "copy" if len(obs[0]) == 2 and obs[0][1]["pos"] == [3000, 4000] else "ref"
            elif key == "snap":
                v[key] = "request" if len(obs[0]) == 1 and obs[0][0]["pos"] == [3000, 4000] else "late"
            else:
                v[key] = "skip" if len(obs[0]) == 2 else "abort"
            if stall is None and any(is_stall(x) for x in endings.values()):
                stall = (strip(sc), len(obs[0]), next(x for x in endings.values() if is_stall(x)))
        v["stall"] = stall      # a probe that never finishes is an outcome to be REPORTED (check_scenarios does)
        _TX_VARIANTS = v
    return _TX_VARIANTS


def model_lines(sc):
    evs = sc["events"]
    lines = [f"tm {sc['station']} {sc.get('seq0', 0)}"]
    order = sorted(range(len(evs)), key=lambda j: (evs[j]["start"], j))
    for j in order:
        e = evs[j]
        if e["kind"] == "crw":
            lines.append(f"crw {T0 + e['start']} {ITS_SUB} {e['lat']} {e['lon']}")
        elif e.get("faults"):
            toks = " ".join(f"{v}{k}" for k, v in sorted(e["faults"].items(), key=lambda kv: int(kv[0])))
            lines.append(f"eventf {tx_variants()['loop']} {T0 + e['start']} {ITS_SUB} {e['i']} {e['T']} {e['lat']} {e['lon']} {toks}")
        elif e.get("mutate") and e["kind"] == "direct" and e["mutate"].get("window") == "start":
            # the model follows the tree under test (the oracle does not): snapshot at request time -> the request's
            # position; snapshot / read later -> the position the caller wrote before the event thread ran
            mu = e["mutate"]
            la, lo = (e["lat"], e["lon"]) if tx_variants()["snap"] == "request" else (mu["lat"], mu["lon"])
            lines.append(f"event {T0 + e['start']} {ITS_SUB} {e['i']} {e['T']} {la} {lo}")
        elif e.get("mutate") and e["kind"] == "direct" and tx_variants()["pos"] == "ref":
            mu = e["mutate"]
            lines.append(f"eventref {T0 + e['start']} {ITS_SUB} {e['i']} {e['T']} {e['lat']} {e['lon']} "
                         f"{T0 + e['start'] + mu['at']} {mu['lat']} {mu['lon']}")
        else:
            lines.append(f"event {T0 + e['start']} {ITS_SUB} {e['i']} {e['T']} {e['lat']} {e['lon']}")
    return lines, order


def parse_model_event(line):
    parts = line.split()
    ending, n = parts[0], int(parts[1][2:])
    msgs = []
    for tok in parts[2:]:
        f = tok.split(":")
        msgs.append({"off": int(f[0]), "ref": int(f[1]), "aid": [int(f[2]), int(f[3])], "station": int(f[4]),
                     "port": int(f[5]), "shape": f[6], "area": [int(f[10]), int(f[11]), int(f[7]), int(f[8]), int(f[9])],
                     "pos": [int(f[12]), int(f[13])], "failed": len(f) > 14 and f[14] == "x"})
    if n != len(msgs):
        raise Infra("model line malformed: " + line[:200])
    return ending, msgs


def compare_model(ctx, sc, obs, endings, out, order):
    evs = sc["events"]
    for j, line in zip(order, out[1:]):
        e = evs[j]
        ending, msgs = parse_model_event(line)
        real_end = endings.get(j, "fin")
        want_end = {"fin": "fin", "sleeperr": "ValueError", "nonterm": "stopped"}.get(ending)
        if ending.startswith("aborted"):      # old loop: the thread died at the failing repetition
            want_end = {"t": "InjectedTransportError", "e": "InjectedEncodeError"}.get((e.get("faults") or {}).get(ending[7:]))
        log = obs[j]
        if ending == "nonterm":
            continue   # compared by check_degenerate (prefix of an infinite stream)
        if e.get("faults") and e.get("mutate") and (tx_variants()["loop"], tx_variants()["pos"]) != ("skip", "copy"):
            ctx.cover("model_skips_faults_and_mutation_on_unrepaired_tree")   # no combined OLD variant in the model
            continue
        ok = real_end == want_end and len(msgs) == len(log)
        tol = 1 if e["kind"] == "eva" else 0
        if ok:
            # round 6: the model's loop counts nominal intervals (`loop`); with hand-overs that take time the real
            # emission times are those of `loopDrift` (Props.C17 drift_same_count_never_early): offset and reference
            # time of message n are shifted by the time the earlier hand-overs of the event took
            slow, late = e.get("slow") or {}, 0
            for n, (m0, r) in enumerate(zip(msgs, log)):
                m = dict(m0, off=m0["off"] + late, ref=m0["ref"] + late)
                late += int(slow.get(str(n), 0))
                if (m["off"] != r["t"] - e["start"] or m["aid"] != r["aid"] or m["station"] != r["station"]
                        or m["port"] != r["port"] or (m["shape"] == "circle") != r["hst_is_circle"]
                        or m["area"][2:] != r["area"][2:]
                        or max(abs(m["area"][0] - r["area"][0]), abs(m["area"][1] - r["area"][1]),
                               abs(m["pos"][0] - r["pos"][0]), abs(m["pos"][1] - r["pos"][1])) > tol
                        or abs(m["ref"] - r["ref"]) > 1 or m["failed"] != r["failed"]):
                    ok = False
                    break
                if m["ref"] != r["ref"]:
                    ctx.cover("tolerance_skips_ref_1ms")
        if not ok:
            ctx.mismatch("denm.event", {"scenario": strip(sc), "event": j},
                         {"ending": real_end, "n": len(log), "first": [{k: v for k, v in r.items() if k != "data"} for r in log[:3]]},
                         line[:400])


def strip(sc):
    return {"kind": "scenario", "station": sc["station"], "seq0": sc.get("seq0", 0), "events": sc["events"]}


def check_scenarios(ctx, scs):
    lines_all, metas, results = [], [], []
    done = []
    st = tx_variants().get("stall")
    if st and not ctx.__dict__.get("_c17_probe_stall_reported"):
        ctx.__dict__["_c17_probe_stall_reported"] = True
        e = st[0]["events"][0]
        ctx.violation(f"repetition stalled: event 0 ({e['kind']}, i={e['i']} ms, T={e['T']} ms, start {e['start']}, "
                      f"faults {e.get('faults') or {}}) handed over {st[1]} DENM(s), then {st[2]}", st[0])
        ctx.cover("watchdog_repetition_stalled")
    for sc in scs:
        if _HUNG["n"] >= 2:
            ctx.note(f"{len(scs) - len(done)} scenarios not run: two repetition threads already hung ({HANG_S:.0f} s each)")
            break
        obs, endings = run_scenario(sc)
        done.append(sc)
        results.append((obs, endings))
        ctx.evals(sum(len(o) for o in obs) + 1)
        # oracle on the real trace
        for j, e in enumerate(sc["events"]):
            real_end = endings.get(j, "fin")
            if is_stall(real_end):
                # watchdog of the scheduler: the thread of this event can never be resumed - no further DENM of the event
                ctx.violation(f"repetition stalled: event {j} ({e['kind']}, i={e['i']} ms, T={e['T']} ms, start {e['start']}, "
                              f"faults {e.get('faults') or {}}) handed over {len(obs[j])} DENM(s), then {real_end}", strip(sc))
                ctx.cover("watchdog_repetition_stalled")
            elif real_end != "fin":
                ctx.violation(f"event {j} ({e['kind']}, i={e['i']} ms, T={e['T']} ms{slow_txt(e)}): the repetition thread died with "
                              f"{real_end} after {len(obs[j])} DENM(s)", strip(sc))
            bad, skips = oracle_event(e, obs[j], sc["station"])
            if skips:
                ctx.cover("tolerance_skips_pos_1unit", skips)
            if bad:
                ctx.violation(f"event {j} ({e['kind']}, i={e['i']} ms, T={e['T']} ms, start {e['start']}{slow_txt(e)}): " + "; ".join(bad[:3]),
                              strip(sc), classify(sc, bad))
            ctx.cover(f"kind_{e['kind']}")
            for v in (e.get("faults") or {}).values():
                ctx.cover("fault_injected_transport" if v == "t" else "fault_injected_encode")
            for n, ms in (e.get("slow") or {}).items():
                ctx.cover("slow_handover_shorter_than_interval" if ms < e["i"] else
                          ("slow_handover_equal_to_interval" if ms == e["i"] else "slow_handover_longer_than_interval"))
            if len(e.get("slow") or {}) > 1:
                ctx.cover("slow_handover_several_in_one_event")
            if e.get("mutate"):
                ctx.cover("caller_mutates_position_dict_before_thread_runs" if e["mutate"].get("window") == "start"
                          else "caller_mutates_position_dict")
            ctx.cover("T_zero" if e["T"] == 0 else ("T_multiple_of_i" if e["T"] % e["i"] == 0 else "T_not_multiple_of_i"))
            ctx.nontrivial(("ev", e["kind"], e["i"], e["T"], len(obs[j]), tuple(sorted((e.get("faults") or {}).items())), bool(e.get("mutate")),
                            tuple(sorted((e.get("slow") or {}).items()))))
        bad = oracle_scenario(sc, obs)
        if bad:
            ctx.violation("; ".join(bad[:3]), strip(sc), classify(sc, bad))
        ctx.cover(f"events_per_station_{len(sc['events'])}")
        if overlapping(sc):
            ctx.cover("overlapping_events")
        ls, order = model_lines(sc)
        metas.append((len(lines_all), len(ls), order))
        lines_all += ls
    scs = done
    v = tx_variants()
    ctx.cover(f"variant_loop_{v['loop']}")
    ctx.cover(f"variant_position_{v['pos']}")
    ctx.cover(f"variant_snapshot_{v['snap']}")
    if ctx.model_ok and lines_all:
        out = ctx.model("Denm", lines_all)
        for sc, (obs, endings), (a, n, order) in zip(scs, results, metas):
            compare_model(ctx, sc, obs, endings, out[a:a + n], order)
    if scs:
        sc, (obs, _) = scs[0], results[0]
        ctx.sample("scenario", {"scenario": strip(sc), "emissions": [[(r["t"], r["aid"], r["ref"]) for r in o[:3]] for o in obs]})
    return results


def slow_txt(e):
    return f", hand-overs taking time {e['slow']} (nth: ms)" if e.get("slow") else ""


def overlapping(sc):
    iv = [(e["start"], e["start"] + max(e["T"], 0)) for e in sc["events"] if e["kind"] != "crw"]
    return any(a[0] < b[1] and b[0] < a[1] for x, a in enumerate(iv) for b in iv[x + 1:])


def classify(sc, bad):
    return None   # no status:"known" entry: both defects are repaired by fixes/C17-*.diff


# ---------------------------------------------------------------------------------------------- generators

def gen_event(rng, horizon, kinds):
    kind = rng.choice(kinds)
    i = rng.choice([100, 100, 101, 250, 333, 500, 1000, 1000, 2500, 9999, 10000, rng.randrange(100, 10001)])
    mode = rng.randrange(8)
    if mode == 0:
        T = rng.choice([0, 1, 99, 100, 101])
    elif mode == 1:
        T = max(0, i + rng.choice([-1, 0, 1]))
    elif mode in (2, 3):
        T = min(60000, i * rng.randrange(1, 40) + rng.choice([-1, 0, 0, 1]))
    elif mode == 4:
        T = rng.choice([59999, 60000, 60000 - i, 30000])
    else:
        T = rng.randrange(0, min(60001, i * 60 + 1))
    lat = rng.choice([rng.randrange(-900000000, 900000001), 415000000 + rng.randrange(-10 ** 6, 10 ** 6), -337000000, 0, 900000000, -900000000])
    lon = rng.choice([rng.randrange(-1800000000, 1800000001), 21000000 + rng.randrange(-10 ** 6, 10 ** 6), -703000000, 0, 1800000000, -1800000000])
    if kind == "crw":
        i, T = 100, 0
    ev = {"kind": kind, "i": i, "T": T, "lat": lat, "lon": lon, "start": rng.randrange(0, horizon + 1)}
    n = ceil_div(T, i) if T > 0 else 0
    if kind != "crw" and n >= 1 and rng.random() < 0.2:
        # failure injection below the service: the transport raises / the coder raises at some repetitions
        ks = {rng.choice([0, 1, n - 1, n // 2, rng.randrange(n)]) for _ in range(rng.choice([1, 1, 2, 3]))}
        ev["faults"] = {str(k): rng.choice(["t", "t", "e"]) for k in sorted(ks) if 0 <= k < n}
    if kind == "direct" and n >= 1 and rng.random() < 0.2:
        # the caller overwrites the position dictionary it handed over: while the event still repeats, or (round 5)
        # right after request_denm_sending returned - before the event thread has executed a single statement
        if n < 2 or rng.random() < 0.35:
            ev["mutate"] = {"at": 0, "window": "start"}
        else:
            ev["mutate"] = {"at": rng.choice([0, 1, i // 2, i - 1, i, i + 1, (n - 1) * i - 1, rng.randrange(0, (n - 1) * i)])}
        ev["mutate"].update(lat=-lat // 2 + 12345, lon=-lon // 2 - 54321)
        if abs(ev["mutate"]["lat"] - lat) < 10 and abs(ev["mutate"]["lon"] - lon) < 10:
            ev["mutate"]["lat"] = lat - 100000 if lat > 0 else lat + 100000
    if kind != "crw" and n >= 1 and not ev.get("faults") and not ev.get("mutate") and rng.random() < 0.12:
        ev["slow"] = gen_slow(rng, i, n)
    return ev


def gen_slow(rng, i, n):
    """round 6: which hand-overs of an event take time, and how long (ms of virtual time): shorter than / exactly /
    slightly more than / several times the interval, at the first / last / any repetition, one to three of them"""
    ns = {rng.choice([0, 1, n - 1, n // 2, rng.randrange(n)]) for _ in range(rng.choice([1, 1, 2, 3]))}
    return {str(k): rng.choice([i, i + 1, i - 1, i // 2, 1, 2 * i + 50, 250, 1500, rng.randrange(1, 3 * i + 1)])
            for k in sorted(ns) if 0 <= k < n}


def gen_slow_scenario(rng):
    """one to three events of one station, at least one of them with hand-overs that take time"""
    sc = gen_scenario(rng)
    sc["events"] = sc["events"][:rng.choice([1, 1, 2, 3])]
    for e in sc["events"]:
        e.pop("slow", None)
    cands = [e for e in sc["events"] if e["kind"] != "crw" and e["T"] > 0]
    if not cands:
        e = sc["events"][0]
        e.update(kind="direct", i=rng.choice([100, 250, 1000]), T=rng.choice([450, 1000, 3000]))
        cands = [e]
    for e in cands[:rng.choice([1, 1, 2])]:
        e.pop("faults", None)
        e.pop("mutate", None)
        e["slow"] = gen_slow(rng, e["i"], ceil_div(e["T"], e["i"]))
    return sc


def gen_scenario(rng):
    n = rng.choice([1, 2, 2, 2, 3, 3, 4, 4, 6])
    kinds = rng.choice([["direct"], ["eva"], ["direct", "eva"], ["direct", "eva", "crw"], ["eva", "crw"]])
    horizon = rng.choice([0, 50, 500, 3000, 20000])
    evs = [gen_event(rng, horizon, kinds) for _ in range(n)]
    # keep positions of different events clearly apart (tolerance of 1 unit must not hide a swap)
    for a in range(n):
        for b in range(a):
            if abs(evs[a]["lat"] - evs[b]["lat"]) < 10 and abs(evs[a]["lon"] - evs[b]["lon"]) < 10:
                evs[a]["lat"] = (evs[a]["lat"] + 1000 * (a + 1)) % 900000000
    return {"station": rng.choice([0, 1, 4294967295, rng.randrange(2 ** 32)]),
            "seq0": rng.choice([0, 0, 0, 65533, 65534, 65535, rng.randrange(65536)]), "events": evs}


FIXED_SCENARIOS = [
    # two overlapping events of one station: distinct action ids (witness of C17-F1)
    {"station": 4242, "seq0": 0, "events": [
        {"kind": "direct", "i": 1000, "T": 3000, "lat": 415000000, "lon": 21000000, "start": 0},
        {"kind": "direct", "i": 1000, "T": 3000, "lat": 415100000, "lon": 21100000, "start": 500}]},
    # two sequential (non-overlapping) events
    {"station": 7, "seq0": 0, "events": [
        {"kind": "eva", "i": 1000, "T": 2000, "lat": 415000000, "lon": 21000000, "start": 0},
        {"kind": "eva", "i": 1000, "T": 2000, "lat": 415000000, "lon": 21000000, "start": 5000}]},
    # emergency-vehicle service triggered twice while the first event still repeats (witness of C17-F2)
    {"station": 9, "seq0": 0, "events": [
        {"kind": "eva", "i": 1000, "T": 5000, "lat": 414536061, "lon": 20737073, "start": 0},
        {"kind": "eva", "i": 1000, "T": 5000, "lat": -337000000, "lon": -703000000, "start": 1500}]},
    # T not a multiple of i; T = 0; i > T
    {"station": 1, "seq0": 65535, "events": [
        {"kind": "direct", "i": 300, "T": 1000, "lat": -1, "lon": -1, "start": 0},
        {"kind": "direct", "i": 100, "T": 0, "lat": 5, "lon": 5, "start": 10},
        {"kind": "direct", "i": 10000, "T": 1, "lat": 900000000, "lon": -1800000000, "start": 20},
        {"kind": "crw", "i": 100, "T": 0, "lat": 415000000, "lon": 21000000, "start": 30}]},
    # the transport layer raises at the second of three repetitions: the third must still be handed over (witness of C17-F3)
    {"station": 11, "seq0": 0, "events": [
        {"kind": "direct", "i": 1000, "T": 3000, "lat": 415000000, "lon": 21000000, "start": 0, "faults": {"1": "t"}}]},
    # the first DENM of an event cannot be encoded, the last one is refused by the transport; a second event overlaps
    {"station": 12, "seq0": 65535, "events": [
        {"kind": "eva", "i": 500, "T": 1750, "lat": -337000000, "lon": -703000000, "start": 0, "faults": {"0": "e", "3": "t"}},
        {"kind": "direct", "i": 250, "T": 1000, "lat": 5, "lon": -5, "start": 600, "faults": {"0": "t", "1": "t", "2": "t", "3": "t"}}]},
    # the caller re-uses the position dictionary of its request while the event repeats (witness of C17-F4)
    {"station": 13, "seq0": 0, "events": [
        {"kind": "direct", "i": 1000, "T": 4000, "lat": 415000000, "lon": 21000000, "start": 0,
         "mutate": {"at": 1500, "lat": -337000000, "lon": -703000000}}]},
    # round 5: ... and right after request_denm_sending has returned, before the event thread has run at all (thread
    # start latency): the event was requested at the first position - every DENM, the first included, goes there;
    # a second event requested from the same application with the re-used dictionary overlaps
    {"station": 14, "seq0": 65535, "events": [
        {"kind": "direct", "i": 100, "T": 450, "lat": 413851000, "lon": 21734000, "start": 0,
         "mutate": {"at": 0, "window": "start", "lat": -338688000, "lon": -584173000}},
        {"kind": "direct", "i": 250, "T": 250, "lat": -338688000, "lon": -584173000, "start": 100,
         "mutate": {"at": 0, "window": "start", "lat": 1, "lon": -1}}]},
    # round 5: a hand-over / an encode fails once while other events and a one-shot warning are running or follow: the
    # failure is confined to that repetition (nothing may stay locked, flagged or half-updated behind it)
    {"station": 15, "seq0": 7, "events": [
        {"kind": "direct", "i": 100, "T": 1000, "lat": 415000000, "lon": 21000000, "start": 0, "faults": {"2": "t"}},
        {"kind": "direct", "i": 200, "T": 600, "lat": 415100000, "lon": 21100000, "start": 250},
        {"kind": "eva", "i": 500, "T": 1000, "lat": 414000000, "lon": 20000000, "start": 300, "faults": {"0": "e"}},
        {"kind": "crw", "i": 100, "T": 0, "lat": -337000000, "lon": -703000000, "start": 1600}]},
]

# round 6 (seeded change C17-m11): a hand-over to the transport layer TAKES TIME - longer than / exactly / shorter than
# the repetition interval, once or several times: the event is still announced ceil(T/i) times (later, never earlier)
SLOW_SCENARIOS = [
    {"station": 4242, "seq0": 0, "events": [
        {"kind": "direct", "i": 100, "T": 1000, "lat": 414536061, "lon": -20737073, "start": 0, "slow": {"3": 250}}]},
    {"station": 16, "seq0": 0, "events": [
        {"kind": "direct", "i": 1000, "T": 4500, "lat": 415000000, "lon": 21000000, "start": 0, "slow": {"1": 1500}}]},
    # exactly the interval / one ms more / one ms less, first and last repetition
    {"station": 17, "seq0": 65535, "events": [
        {"kind": "eva", "i": 500, "T": 2000, "lat": -337000000, "lon": -703000000, "start": 0, "slow": {"0": 500}},
        {"kind": "direct", "i": 250, "T": 1001, "lat": 5, "lon": -5, "start": 5000, "slow": {"2": 251, "4": 249}}]},
    # several slow hand-overs in one event while a second event and a one-shot warning overlap (their cadence is untouched)
    {"station": 18, "seq0": 3, "events": [
        {"kind": "direct", "i": 100, "T": 650, "lat": 415000000, "lon": 21000000, "start": 0, "slow": {"0": 101, "1": 99, "5": 1000}},
        {"kind": "direct", "i": 200, "T": 1000, "lat": 415100000, "lon": 21100000, "start": 50},
        {"kind": "crw", "i": 100, "T": 0, "lat": -337000000, "lon": -703000000, "start": 400}]},
    # a single repetition (T <= i) whose hand-over outlasts the interval; long interval
    {"station": 19, "seq0": 0, "events": [
        {"kind": "direct", "i": 100, "T": 100, "lat": 1, "lon": 2, "start": 0, "slow": {"0": 5000}},
        {"kind": "eva", "i": 10000, "T": 30000, "lat": 414000000, "lon": 20000000, "start": 10, "slow": {"1": 10001}}]},
]


# ---------------------------------------------------------------------------------------------- degenerate intervals

def check_degenerate(ctx):
    """interval 0 (non-termination branch) and negative interval (ValueError after one DENM): correspondence only —
    the property's quantifier starts at 100 ms"""
    N = 25
    sc = {"station": 3, "seq0": 0, "events": [{"kind": "direct", "i": 0, "T": 5, "lat": 1, "lon": 2, "start": 0, "sync": True}]}
    obs, endings = run_scenario(sc, max_sleeps=N - 1)
    n = len(obs[0])
    stuck = all(r["t"] == 0 for r in obs[0])
    ctx.evals(n)
    ctx.cover("interval_zero_nonterminating" if (endings.get(0) == "stopped" and stuck) else "interval_zero_other")
    sc2 = {"station": 3, "seq0": 0, "events": [{"kind": "direct", "i": -5, "T": 5, "lat": 1, "lon": 2, "start": 0}]}
    obs2, endings2 = run_scenario(sc2)
    ctx.evals(1)
    ctx.cover("interval_negative_" + str(endings2.get(0)))
    if ctx.model_ok:
        out = ctx.model("Denm", ["tm 3 0", "event 0 0 0 5 1 2", f"stuck {N}", "tm 3 0", f"event {T0} {ITS_SUB} -5 5 1 2"])
        real0 = ("nonterm" if endings.get(0) == "stopped" and stuck and n == N else f"{endings.get(0)} n={n}")
        if out[1].split()[0] != real0 or out[2].split() != [str(r["t"]) for r in obs[0]]:
            ctx.mismatch("denm.interval0", strip(sc), real0, out[1] + " | " + out[2])
        e2, m2 = parse_model_event(out[4])
        if (e2, len(m2)) != ({"ValueError": "sleeperr"}.get(endings2.get(0), endings2.get(0)), len(obs2[0])):
            ctx.mismatch("denm.interval_negative", strip(sc2), [endings2.get(0), len(obs2[0])], out[4])
    ctx.note(f"interval 0: real loop emitted {n} DENMs at offset 0 until the harness stopped it after {N} sleeps (non-terminating); "
             f"interval -5: {len(obs2[0])} DENM then {endings2.get(0)}")


# ---------------------------------------------------------------------------------------------- reception -> LDM

class StubLDM:
    """recording stub of the LDM interface used by DENMReceptionManagement"""

    def __init__(self):
        self.registered, self.added = [], []
        self.if_ldm_3 = self

    def register_data_provider(self, req):
        self.registered.append(req)

    def add_provider_data(self, req):
        self.added.append(req)
        return None


RX_OPT = ("termination", "awarenessDistance", "trafficDirection", "validityDuration", "transmissionInterval")
RX_SUBSETS = [tuple(n for b, n in enumerate(RX_OPT) if mask >> b & 1) for mask in range(32)]
# the LDM of the reception check: LDMFactory default (dictionary data base, reactive maintenance) around this position.
# `location_builder_circle` always sets RelevanceDistance(1) (`value < 100`), compared with the RAW coordinate distance
LDM_LAT, LDM_LON, LDM_ALT, LDM_REL = 415000000, 21000000, 0, 100
LDM_MAX_ALT = 15


def gen_rx_denm(rng, station=None, subset=None, near=False):
    """a DENM as another vendor's station may send it: `subset` = the optional management fields present
    (None: each with probability 1/2); `near`: event position within the LDM's tiny area of maintenance"""
    lat = rng.choice([rng.randrange(-900000000, 900000002), 415000000, -337000000, 0, 900000001])
    lon = rng.choice([rng.randrange(-1800000000, 1800000002), 21000000, -703000000, 0, 1800000001])
    alt = rng.choice([-100000, 0, 16350, 800000, 800001, rng.randrange(-100000, 800002)])
    if near:
        lat, lon = LDM_LAT + rng.choice([0, 1, -70, 99, 100, -101]), LDM_LON + rng.choice([0, -1, 70, 5, 0, 0])
        alt = LDM_ALT + rng.choice([0, 1, 2, 3, 12, 13, 14, 15, 16, 17, -1, -2, -3, -4, -16, -17])
    station = rng.randrange(2 ** 32) if station is None else station
    m = {"actionId": {"originatingStationId": rng.choice([station, rng.randrange(2 ** 32)]), "sequenceNumber": rng.choice([0, 1, 65535, rng.randrange(65536)])},
         "detectionTime": rng.randrange(0, 4398046511104), "referenceTime": rng.choice([0, 4398046511103, rng.randrange(0, 4398046511104)]),
         "eventPosition": event_position(lat, lon, alt), "stationType": rng.randrange(0, 256)}
    def has(name, p):
        return (name in subset) if subset is not None else rng.random() < p

    if has("termination", 0.5):
        m["termination"] = rng.choice(["isCancellation", "isNegation"])
    if has("awarenessDistance", 0.5):
        m["awarenessDistance"] = rng.choice(["lessThan50m", "lessThan100m", "lessThan200m", "lessThan500m", "lessThan1000m", "lessThan5km", "lessThan10km", "over10km"])
    if has("trafficDirection", 0.5):
        m["trafficDirection"] = rng.choice(["allTrafficDirections", "sameAsReferenceDirection-upstreamOfReferencePosition",
                                            "sameAsReferenceDirection-downstreamOfReferencePosition", "oppositeToReferenceDirection"])
    if has("validityDuration", 0.6):
        m["validityDuration"] = rng.choice([0, 600, 86400, rng.randrange(0, 86401)])
    if has("transmissionInterval", 0.5):
        m["transmissionInterval"] = rng.choice([1, 100, 10000, rng.randrange(1, 10001)])
    return {"header": {"protocolVersion": 2, "messageId": 1, "stationId": station}, "denm": {"management": m}}


def rx_one(denm_bytes_list, real_ldm=False):
    """feed encoded DENMs to a real DENMReceptionManagement on the recording LDM-interface stub.
    Returns list of (error, stored (app, lat, lon, alt, radius, obj), number of add calls).  The real LDM: `rx_maint`."""
    if real_ldm:
        raise Infra("rx_one: the real LDM is exercised by rx_maint (maintenance running)")
    btp = CaptureBTP(None)
    ldm = StubLDM()
    DENMReceptionManagement(_COD, btp, ldm)
    res = []
    for data in denm_bytes_list:
        n0 = len(ldm.added)
        try:
            btp.cb[2002](BTPDataIndication(data=data, length=len(data), destination_port=2002))
            err = None
        except Exception as e:  # noqa: BLE001
            err = type(e).__name__
        new = ldm.added[n0:]
        res.append((err, [(q.application_id, q.location.reference_position.latitude, q.location.reference_position.longitude,
                           q.location.reference_position.altitude.altitude_value,
                           q.location.reference_area.geometric_area.circle.radius, q.data_object) for q in new], len(ldm.added)))
    return res


def in_area_of_maintenance(lat, lon, alt):
    """EN 302 895 5.3.2 for the configuration above: inside the area of maintenance = within the relevance distance
    of the LDM position and within the altitude band (squared difference below the constant)"""
    return (lat - LDM_LAT) ** 2 + (lon - LDM_LON) ** 2 < LDM_REL ** 2 and (alt - LDM_ALT) ** 2 < LDM_MAX_ALT


def kf1_region(lat, lon, alt):
    """signature of C17-KF1 (= C12-KF1 seen through DENM reception): where the area collection of the code AS IT IS
    deletes - objects NEAR the LDM position, altitude difference `^ 2` evaluated as XOR"""
    return (lat - LDM_LAT) ** 2 + (lon - LDM_LON) ** 2 < LDM_REL ** 2 and ((alt - LDM_ALT) ^ 2) < LDM_MAX_ALT


def _fresh_ldm():
    return LDMFactory().create_ldm(Location.location_builder_circle(latitude=LDM_LAT, longitude=LDM_LON, altitude=LDM_ALT, radius=5000))


class _MaintClock:
    """time.monotonic of ldm_maintenance_reactive on the virtual clock, in exact binary fractions of a second"""

    def __init__(self, clock):
        self.clock = clock

    def __enter__(self):
        self.old = ldm_mr_mod.time
        mono = lambda: (self.clock.ms - T0) / 1000.0   # noqa: E731 - multiples of 125 ms: exact floats
        ldm_mr_mod.time = types.SimpleNamespace(monotonic=mono, time=mono, sleep=lambda s: None)
        return self

    def __exit__(self, *a):
        ldm_mr_mod.time = self.old


_LDM_VARIANT = None


def ldm_area_variant():
    """which objects does the area collection of the tree under test delete?  'as-is' (objects near the LDM position:
    C12-KF1) or 'repaired' (objects outside the area of maintenance).  Probed on the real LDM."""
    global _LDM_VARIANT
    if _LDM_VARIANT is None:
        with rs.VClock(T0) as clock, _MaintClock(clock):
            ldm = _fresh_ldm()
            mk = lambda la, lo: AddDataProviderReq(   # noqa: E731
                application_id=DENM_APP_ID, timestamp=TimestampIts.initialize_with_utc_timestamp_seconds(),
                location=Location.location_builder_circle(latitude=la, longitude=lo, altitude=LDM_ALT, radius=0),
                data_object={"denm": {}}, time_validity=TimeValidity(3))
            ldm.ldm_maintenance.add_provider_data(mk(LDM_LAT, LDM_LON))
            ldm.ldm_maintenance.add_provider_data(mk(LDM_LAT + 10 ** 7, LDM_LON))
            clock.ms += 1000
            ldm.ldm_maintenance.add_provider_data(mk(LDM_LAT + 2 * 10 ** 7, LDM_LON))
            lats = sorted(v["location"]["referencePosition"]["latitude"] - LDM_LAT for v in ldm.ldm_maintenance.data_containers.database.values())
        _LDM_VARIANT = {(10 ** 7, 2 * 10 ** 7): "as-is", (0,): "repaired"}.get(tuple(lats), f"other{lats}")
    return _LDM_VARIANT


def rx_maint(items):
    """feed (encoded DENM, gap ms before it) to a real DENMReceptionManagement on the LDM built by LDMFactory with its
    reactive maintenance RUNNING on the virtual clock.  Per DENM: (error, new records present after the callback,
    was a collection due at this add, number of records)"""
    btp = CaptureBTP(None)
    res = []
    with rs.VClock(T0) as clock, _MaintClock(clock):
        ldm = _fresh_ldm()
        rm = DENMReceptionManagement(_COD, btp, ldm)   # noqa: F841
        last = clock.ms
        for data, gap in items:
            clock.ms += gap
            due = clock.ms - last >= 1000
            if due:
                last = clock.ms
            before = dict(ldm.ldm_maintenance.data_containers.database)
            try:
                btp.cb[2002](BTPDataIndication(data=data, length=len(data), destination_port=2002))
                err = None
            except Exception as e:  # noqa: BLE001
                err = type(e).__name__
            after = ldm.ldm_maintenance.data_containers.database
            new = [v for k, v in after.items() if k not in before]
            res.append((err, [(n["application_id"], n["location"]["referencePosition"]["latitude"],
                               n["location"]["referencePosition"]["longitude"],
                               n["location"]["referencePosition"]["altitude"]["altitudeValue"],
                               n["location"]["referenceArea"]["geometricArea"]["circle"]["radius"], n["dataObject"]) for n in new],
                        len(after), due))
    return res


def oracle_rx_maint(denm, stored):
    """a received DENM is stored in the LDM at its event position - the LDM may legitimately drop an object that lies
    outside its area of maintenance at a collection (EN 302 895 5.3.2), nothing else.  Returns (violations, finding id)"""
    err, new, _, due = stored
    ep = denm["denm"]["management"]["eventPosition"]
    if err or new:
        return oracle_rx(denm, stored[:3]), None
    lat, lon, alt = ep["latitude"], ep["longitude"], ep["altitude"]["altitudeValue"]
    if due and not in_area_of_maintenance(lat, lon, alt):
        return [], "legit"
    what = (f"received DENM is not in the LDM after reception (collection due: {due}; event position "
            f"{(lat, lon, alt)} is {'inside' if in_area_of_maintenance(lat, lon, alt) else 'outside'} the area of maintenance)")
    return [what], ("C17-KF1" if due and kf1_region(lat, lon, alt) else None)


def oracle_rx(denm, stored):
    """a received DENM is stored in the LDM at its event position"""
    bad = []
    err, new, _ = stored
    ep = denm["denm"]["management"]["eventPosition"]
    if err:
        return [f"reception raised {err}"]
    if len(new) != 1:
        return [f"{len(new)} LDM entries added for one received DENM"]
    app, lat, lon, alt, radius, obj = new[0]
    if (lat, lon) != (ep["latitude"], ep["longitude"]):
        bad.append(f"stored at {(lat, lon)}, event position {(ep['latitude'], ep['longitude'])}")
    if app != DENM_APP_ID:
        bad.append(f"stored under application id {app}")
    om = obj.get("denm", {}).get("management", {})
    if om.get("actionId") != denm["denm"]["management"]["actionId"] or obj.get("header", {}).get("stationId") != denm["header"]["stationId"]:
        bad.append("stored data object is not the received DENM")
    return bad


RX_GAPS = [0, 0, 125, 500, 875, 1000, 1125, 2000, 3000, 3125, 5000]


def check_rx(ctx, denms, gaps=None):
    """reception: every DENM through the real coder into (a) a recording stub of the LDM interface and (b) the LDM built
    by LDMFactory with its reactive maintenance running on the virtual clock (collections become due between DENMs)"""
    datas = [_COD.encode(d) for d in denms]
    if gaps is None:
        gaps = [ctx.rng.choice(RX_GAPS) for _ in denms]
    variant = ldm_area_variant()
    ctx.cover("ldm_area_collection_" + variant)
    with rs.VClock(T0):
        stub = rx_one(datas, False)
    real = rx_maint(list(zip(datas, gaps)))
    lines = ["ldmreset"]
    for d, r in zip(denms, real):
        m = d["denm"]["management"]
        ep = m["eventPosition"]
        key = f"{m['actionId']['originatingStationId']} {m['actionId']['sequenceNumber']} {m['referenceTime']} {ep['latitude']} {ep['longitude']} {ep['altitude']['altitudeValue']}"
        lines.append("rx " + key)
        pos = (ep["latitude"], ep["longitude"], ep["altitude"]["altitudeValue"])
        sel = kf1_region(*pos) if variant == "as-is" else not in_area_of_maintenance(*pos)
        lines.append(f"rxm {key} {int(r[3])} {int(sel)}")
    out = ctx.model("Denm", lines)[1:] if ctx.model_ok else [None] * (2 * len(denms))
    for n, (d, s, r) in enumerate(zip(denms, stub, real)):
        mo, mm = out[2 * n], out[2 * n + 1]
        ctx.evals(2)
        m = d["denm"]["management"]
        bad = oracle_rx(d, s)
        if bad:
            ctx.violation("received DENM (LDM interface stub): " + "; ".join(bad), {"kind": "rx", "denm": d})
        bad, fid = oracle_rx_maint(d, r)
        if fid == "legit":
            ctx.cover("rx_outside_area_of_maintenance_collected")
        elif bad:
            ctx.violation("received DENM (LDM with running maintenance): " + "; ".join(bad),
                          {"kind": "rx", "denm": d, "due": r[3]}, fid)
        ctx.nontrivial(("rx", tuple(sorted(m.keys())), m["eventPosition"]["latitude"] < 0, m["eventPosition"]["longitude"] < 0, r[3]))
        ctx.cover("rx_mgmt_optional_fields_%d" % len([k for k in RX_OPT if k in m]))
        ctx.cover("rx_collection_due" if r[3] else "rx_no_collection")
        if kf1_region(m["eventPosition"]["latitude"], m["eventPosition"]["longitude"], m["eventPosition"]["altitude"]["altitudeValue"]):
            ctx.cover("rx_event_position_next_to_station")
        if mo is not None and not s[0] and len(s[1]) == 1:
            app, lat, lon, alt, radius, obj = s[1][0]
            om = obj["denm"]["management"]
            realline = f"{s[2]} {app} {lat} {lon} {alt} {radius} {om['actionId']['originatingStationId']} {om['actionId']['sequenceNumber']} {om['referenceTime']}"
            if realline != mo:
                ctx.mismatch("denm.rx", {"kind": "rx", "denm": d}, realline, mo)
        if mm is not None and not r[0]:
            if r[1]:
                app, lat, lon, alt, radius, obj = r[1][0]
                om = obj["denm"]["management"]
                realline = f"stored {app} {lat} {lon} {alt} {radius} {om['actionId']['originatingStationId']} {om['actionId']['sequenceNumber']} {om['referenceTime']}"
            else:
                realline = "collected"
            if len(r[1]) > 1 or realline != mm:
                ctx.mismatch("denm.rx.maintenance", {"kind": "rx", "denm": d, "due": r[3]}, realline, mm)
    if denms:
        ctx.sample("rx", {"denm": denms[0], "stored": [list(x[:5]) for x in stub[0][1]]})


def rx_cases(rng, n_random):
    """every subset of the optional management fields (x3, one of them next to the station), then random ones"""
    out = []
    for sub in RX_SUBSETS:
        out += [gen_rx_denm(rng, subset=sub), gen_rx_denm(rng, subset=sub), gen_rx_denm(rng, subset=sub, near=True)]
    out += [gen_rx_denm(rng, near=(k % 10 == 0)) for k in range(n_random)]
    return out


def check_loopback(ctx, results, scs):
    """DENMs emitted by the transmission side are received by a second station and land at the event position"""
    pairs = []
    for sc, (obs, _) in zip(scs, results):
        for log in obs:
            for r in log[:2]:
                pairs.append(r)
    pairs = pairs[:ctx.scale(150, 3000)]
    if not pairs:
        return
    with rs.VClock(T0):
        stored = rx_one([r["data"] for r in pairs], False)
    for r, st in zip(pairs, stored):
        ctx.evals()
        d = {"header": {"stationId": r["station"]}, "denm": {"management": {
            "actionId": {"originatingStationId": r["aid"][0], "sequenceNumber": r["aid"][1]},
            "eventPosition": {"latitude": r["pos"][0], "longitude": r["pos"][1]}}}}
        bad = oracle_rx(d, st)
        if bad:
            dec = _COD.decode(r["data"])   # management container only: JSON-safe (no CHOICE tuples), enough for the LDM feed
            ctx.violation("loopback of an emitted DENM: " + "; ".join(bad),
                          {"kind": "rx", "denm": {"header": dec["header"], "denm": {"management": dec["denm"]["management"]}}})
    ctx.cover("loopback_tx_to_rx", len(pairs))


# ---------------------------------------------------------------------------------------------- concurrent origination

class _SThread:
    """threading.Thread as seen by the transmission-management module under harness/dsched.py: `start()` registers a
    scheduler-managed thread (it may run at any later point the policy chooses)"""

    def __init__(self, target=None, args=(), kwargs=None, daemon=None, **_):
        self.target, self.args, self.kwargs = target, tuple(args), dict(kwargs or {})

    def start(self):
        s = dsched._active
        if s is None or s.me() is None:
            raise Infra("Thread started outside a scheduled run")
        cur = s.__dict__.setdefault("c17_event_of", {})
        ev = cur.get(s.me().tid)          # the event the requesting thread is originating right now

        def body():
            cur[s.me().tid] = ev          # every DENM this thread hands over belongs to THAT event
            self.target(*self.args, **self.kwargs)
        s.spawn(body, name=f"rep{len(s.threads)}[{s.me().name}]")
        s.yield_point("start")

    def join(self, timeout=None):
        pass

    def is_alive(self):
        return False


def _alloc_lat(idx):
    return 1000000 * (idx + 1)


def _alloc_lon(idx):
    return -(2000000 * (idx + 1) + 5)     # signed, different for every event


def body_codes():
    """code objects of the repetition body (fill -> encode -> GBC request): pre-emption before every attribute access /
    call inside them when a scenario says `body`"""
    cls = tm_mod.DENMTransmissionManagement
    try:
        names = gen_denm.analyse_body()["reach"]          # the methods the regenerated facts are about
    except Exception:   # noqa: BLE001 - the generator failure is reported by the pipeline; fall back to the entry points
        names = ["trigger_denm_messages", "transmit_denm", "send_collision_risk_warning_denm"]
    return [getattr(cls, n).__code__ for n in names if hasattr(getattr(cls, n, None), "__code__")]


class _AllocDead(Exception):
    """a thread scenario timed out (a thread blocked for real, outside the scheduler's lock stand-ins): threads of that
    run may still be alive inside traced code - no further thread scenario is run in this process"""


_ALLOC_DEAD = [False]


class AllocRun:
    """several application threads originate events of ONE station at the same time, on the real
    DENMTransmissionManagement under harness/dsched.py: pre-emption before every attribute access / call inside
    `allocate_sequence_number` (opcode level), at lock acquire / release, at thread start and at every `time.sleep`;
    scenarios marked `body` (round 4) additionally pre-empt before every attribute access / call inside the REPETITION
    BODY (`trigger_denm_messages`, `transmit_denm`, `send_collision_risk_warning_denm`: build/fill -> encode -> GBC
    request), so that the repetitions of two overlapping events interleave at every point.
    ops: ["rep", n] trigger_denm_messages on the calling thread (n repetitions), ["req", n] request_denm_sending
    (starts its own repetition thread), ["reqm", n] the same and the caller overwrites the position dictionary of the
    request right after the call has returned (round 5), ["crw"] send_collision_risk_warning_denm.
    Every DENM handed to the transport layer is attributed to the event of the THREAD that hands it over (the
    application thread's current op, inherited by the repetition thread it starts) - never by its content - and is
    judged against THAT event: its action id, its event position, its circle centre."""

    def __init__(self, sc, policy, max_steps=20000):
        if _ALLOC_DEAD[0] or _HUNG["n"]:
            # (a thread hung INSIDE the module's code and opcode tracing of the same code objects do not go together)
            raise _AllocDead()
        self.sc = sc
        log = self.log = []
        event_of = {}

        class Cap:
            def btp_data_request(self_, request):      # noqa: N805
                d = _COD.decode(request.data)
                m = d["denm"]["management"]
                sch = dsched._active
                me = sch.me() if sch is not None else None
                log.append((event_of.get(me.tid) if me is not None else None,
                            (m["eventPosition"]["latitude"], m["eventPosition"]["longitude"]), d["header"]["stationId"],
                            (m["actionId"]["originatingStationId"], m["actionId"]["sequenceNumber"]),
                            (request.gn_area.latitude, request.gn_area.longitude)))

            def register_indication_callback_btp(self_, port, callback):   # noqa: N805
                pass

        def vsleep(_seconds):
            if dsched._active is not None and dsched._active.me() is not None:
                dsched._active.yield_point("op")

        o_time, o_coder = tm_mod.time, den_mod.DENMCoder
        ft = types.SimpleNamespace(**{k: getattr(o_time, k) for k in dir(o_time) if not k.startswith("__")})
        ft.sleep = vsleep
        with rs.VClock(T0) as clock:
            tm_mod.time, den_mod.DENMCoder = ft, (lambda: _COD)
            try:
                with dsched.patched([tm_mod], extra={"Thread": _SThread}):
                    den = DecentralizedEnvironmentalNotificationService(Cap(), VehicleData(station_id=sc["station"], station_type=5))
                    tmm = den.denm_transmission_management
                    tmm.sequence_number = sc.get("seq0", 0)
                    if sc.get("nolock"):        # self-test hook of the HARNESS only: emulate a dropped `with`
                        tmm._sequence_number_lock = dsched.NoLock()
                    codes = [type(tmm).allocate_sequence_number.__code__] + (body_codes() if sc.get("body") else [])
                    s = dsched.DSched(policy, line_files=(), opcode_codes=codes, max_steps=max_steps)
                    s.c17_event_of = event_of
                    idx = 0
                    for ti, ops in enumerate(sc["threads"]):
                        calls = []
                        for op in ops:
                            lat, lon = _alloc_lat(idx), _alloc_lon(idx)
                            if op[0] == "crw":
                                req = DENRequest.with_collision_risk_warning(
                                    TimestampIts(clock.ms - ITS_SUB),
                                    ReferencePosition(lat, lon, PositionConfidenceEllipse(4095, 4095, 3601), Altitude(800001, "unavailable")))
                                calls.append((idx, tmm.send_collision_risk_warning_denm, req))
                            else:
                                req = DENRequest(denm_interval=100, time_period=100 * op[1], detection_time=clock.ms - ITS_SUB,
                                                 event_position=event_position(lat, lon), relevance_distance="lessThan200m",
                                                 relevance_traffic_direction="upstreamTraffic",
                                                 rhs_cause_code="emergencyVehicleApproaching95", rhs_subcause_code=1,
                                                 rhs_event_speed=30, rhs_vehicle_type=0)
                                calls.append((idx, tmm.trigger_denm_messages if op[0] == "rep" else tmm.request_denm_sending, req,
                                              op[0] == "reqm"))
                            idx += 1

                        def body(calls=calls):
                            for j, fn, req, *reuse in calls:
                                event_of[s.me().tid] = j
                                fn(req)
                                if reuse and reuse[0]:
                                    # round 5: the application re-uses the position dictionary of its request as soon as
                                    # request_denm_sending has returned; WHEN the event thread runs relative to this
                                    # write is the schedule's choice (thread start is a yield point)
                                    req.event_position["latitude"], req.event_position["longitude"] = -_alloc_lat(j) - 77, -_alloc_lon(j) + 77
                            event_of[s.me().tid] = None
                        s.spawn(body, name=f"T{ti}")
                    self.n_events = idx
                    with rs.quiet():
                        s.run(timeout=30.0)
                    self.final = tmm.sequence_number
            finally:
                tm_mod.time, den_mod.DENMCoder = o_time, o_coder
        self.s = s
        if s.abort_reason == "timeout":
            _ALLOC_DEAD[0] = True
        self.steps = s.steps
        self.choices = [c[0] for c in s.steps]
        self.excs = sorted((t.name, type(t.exc).__name__) for t in s.threads if t.exc is not None)

    def want(self):
        """messages per event (in op order)"""
        return [1 if op[0] == "crw" else op[1] for ops in self.sc["threads"] for op in ops]

    def per_event(self):
        """DENMs handed over by the thread(s) of each event: (station, action id, DENM event position, circle centre)"""
        out = [[] for _ in range(self.n_events)]
        self.stray = []
        for ev, pos, station, aid, centre in self.log:
            if ev is None or not (0 <= ev < self.n_events):
                self.stray.append((pos, aid))
            else:
                out[ev].append((station, aid, pos, centre))
        return out

    def outcome(self):
        pe = self.per_event()
        return (tuple(sorted(m[0][1][1] for m in pe if m)), self.final, self.s.abort_reason, tuple(self.excs))

    def judge(self):
        """property text, every DENM judged against the event of the thread that handed it over: the event's count, one
        action id for all its DENMs, the originating station, DENM event position and circle centre = the position the
        event was requested with; different events of one station -> different action ids"""
        bad = []
        if self.s.abort_reason:
            bad.append(f"run aborted: {self.s.abort_reason} {self.s.deadlock or ''}")
        for name, exc in self.excs:
            bad.append(f"thread {name} raised {exc}")
        pe = self.per_event()
        if self.stray:
            bad.append(f"DENM handed over outside any event's thread: {self.stray[:2]}")
        ids = {}
        for j, (msgs, n) in enumerate(zip(pe, self.want())):
            here = (_alloc_lat(j), _alloc_lon(j))
            if len(msgs) != n:
                bad.append(f"event {j}: {len(msgs)} DENMs handed over, {n} expected")
            if any(m[1] != msgs[0][1] for m in msgs):
                bad.append(f"event {j}: action id changes within the event {sorted({m[1] for m in msgs})}")
            if any(m[0] != self.sc["station"] or m[1][0] != self.sc["station"] for m in msgs):
                bad.append(f"event {j}: station identity differs from the originating station")
            for m in msgs:
                if m[2] != here or m[3] != here:
                    bad.append(f"event {j}: DENM of this event carries event position {list(m[2])} and is geo-broadcast to a "
                               f"circle centred on {list(m[3])}, the event position is {list(here)}")
                    break
            for aid in sorted({m[1] for m in msgs}):
                ids.setdefault(aid, []).append(j)
        for aid, js in sorted(ids.items()):
            if len(js) > 1:
                bad.append(f"events {js} originated concurrently by one station share action id {list(aid)}")
        return bad


ALLOC_SCENARIOS = [
    {"name": "two_requests", "threads": [[["req", 2]], [["req", 1]]]},
    {"name": "two_direct", "threads": [[["rep", 1]], [["rep", 2]]]},
    {"name": "repeated_vs_crw", "threads": [[["rep", 2]], [["crw"]]]},
    {"name": "one_app_two_requests_vs_crw", "threads": [[["req", 1], ["req", 1]], [["crw"]]]},
    {"name": "three_apps", "threads": [[["rep", 1]], [["crw"]], [["req", 1]]]},
    # round 4: OVERLAPPING events - pre-emption inside the repetition body (build/fill -> encode -> GBC request) as well
    {"name": "overlap_two_requests", "body": True, "threads": [[["req", 2]], [["req", 2]]]},
    {"name": "overlap_request_vs_crw", "body": True, "threads": [[["req", 2]], [["crw"]]]},
    {"name": "overlap_three_kinds", "body": True, "threads": [[["rep", 1]], [["req", 2]], [["crw"]]]},
    {"name": "overlap_warnings", "body": True, "threads": [[["crw"], ["crw"]], [["crw"]]]},
    # round 5: the caller re-uses the position dictionary of its request after request_denm_sending has returned; the
    # event thread may run its first statement before or after that write (and anywhere in between)
    {"name": "request_then_reuse_position_dict", "body": True, "threads": [[["reqm", 2]], [["req", 1]]]},
]


def alloc_scenarios(ctx):
    out = []
    for base in ALLOC_SCENARIOS:
        sc = copy.deepcopy(base)
        sc.update(kind="alloc", station=ctx.rng.choice([1, 4242, 4294967295]), seq0=ctx.rng.choice([0, 0, 65534, 65535, ctx.rng.randrange(65536)]))
        out.append(sc)
    return out


def explore_alloc(ctx, sc, bound, cap, n_pct, observed, order="any"):
    """systematic enumeration up to `bound` pre-emptions (capped), then PCT; every run is judged"""
    state = {"est": 100, "found": 0}

    def handle(run):
        ctx.evals()
        out = run.outcome()
        bad = run.judge()
        ctx.cover("conc_runs_" + sc["name"])
        ctx.cover("conc_preemptions_%d" % min(dsched.preemptions(run.steps), 4))
        ctx.nontrivial((sc["name"], out))
        if bad:
            state["found"] += 1
            if state["found"] == 1 and not _ALLOC_DEAD[0]:
                again = AllocRun(sc, dsched.Replay(run.choices))
                if again.outcome() != out:
                    ctx.note(f"{sc['name']}: schedule replay diverged ({again.outcome()} vs {out})")
            ctx.violation(f"{'overlapping events' if sc.get('body') else 'concurrent origination'} ({sc['name']}): {bad[0]}",
                          {"kind": "alloc", "scenario": sc, "schedule": run.choices, "violations": bad[:5]})
        else:
            observed.setdefault((sc["name"], sc["seq0"], run.n_events, out[:2]), run.choices)
            if sc.get("body"):
                pe = run.per_event()
                observed.setdefault(("rep", sc["name"], sc["station"], tuple(m[0][1][1] if m else -1 for m in pe),
                                     tuple(run.want())), [[(m[1][0], m[1][1]) + m[2] + m[3] for m in msgs] for msgs in pe])
        return run

    def once(prefix):
        run = handle(AllocRun(sc, dsched.Replay(prefix)))
        state["est"] = max(state["est"], run.s.nsteps)
        return run.steps

    runs, exhausted = dsched.enumerate_schedules(once, bound, cap, ctx.rng, order=order)
    ctx.cover("conc_systematic_runs", runs)
    if sc.get("body"):
        ctx.cover("conc_body_preemption_runs", runs)
    if exhausted:
        ctx.cover("conc_systematic_exhausted_bound_%d" % bound)
    for k in range(n_pct):
        handle(AllocRun(sc, dsched.PCT(ctx.rng, depth=2 + k % 3, est_steps=state["est"])))
    ctx.cover("conc_pct_runs", n_pct)
    return state["found"]


def check_alloc_model(ctx, observed):
    """every observed outcome of a violation-free run must be the sequential allocation of the Lean model in SOME
    service order (theorem alloc_linearizable): the sequence numbers handed out are seq0 .. seq0+n-1 mod 65536,
    the counter ends at seq0+n"""
    if not ctx.model_ok or not observed:
        return
    check_rep_model(ctx, {k: v for k, v in observed.items() if k[0] == "rep"})
    keys = sorted(k for k in observed if k[0] != "rep")
    out = ctx.model("Denm", [f"allocs {seq0} {n}" for (_, seq0, n, _) in keys])
    for key, line in zip(keys, out):
        name, seq0, n, (seqs, final) = key
        toks = [int(x) for x in line.split()]
        if (final, list(seqs)) != (toks[0], sorted(toks[1:])):
            ctx.mismatch("denm.alloc", {"kind": "alloc", "scenario": name, "seq0": seq0, "schedule": observed[key]},
                         [final, list(seqs)], line)


def check_rep_model(ctx, observed):
    """overlapping events: what every violation-free run of a `body` scenario handed over, per event, must be what the
    Lean model of the repetition body (FlexModel/Fac/DenmRep.lean, scope as the regenerated facts say) hands over per
    thread - under a schedule drawn here at random (theorem overlapping_events_own_identity: under EVERY schedule)"""
    keys = sorted(observed)
    if not keys:
        return
    lines = []
    for (_, name, station, seqs, reps) in keys:
        n = len(reps)
        sched = [ctx.rng.randrange(n) for _ in range(ctx.rng.randrange(0, 6 * sum(reps) + 1))]
        sched += [t for _ in range(6 * max(reps)) for t in range(n)]
        evs = " ".join(f"{seqs[j] if seqs[j] >= 0 else 0} {_alloc_lat(j)} {_alloc_lon(j)} {reps[j]}" for j in range(n))
        lines.append(f"reps src {station} {','.join(map(str, sched))} {evs}")
    out = ctx.model("Denm", lines)
    for key, line in zip(keys, out):
        toks = line.split()
        per = [[] for _ in key[4]]
        for tok in toks[2:]:
            f = [int(x) for x in tok.split(":")]
            if 0 <= f[0] < len(per):
                per[f[0]].append(tuple(f[1:]))
        real = [[tuple(m) for m in msgs] for msgs in observed[key]]
        ctx.evals()
        ctx.cover("conc_body_model_compared")
        if toks[0] != "fin" or per != real:
            ctx.mismatch("denm.overlap", {"kind": "alloc", "scenario": key[1], "station": key[2], "seqs": list(key[3])},
                         real, line[:400])


def check_alloc(ctx, search=False):
    observed = {}
    try:
        _check_alloc(ctx, search, observed)
    except _AllocDead:
        ctx.note("thread scenarios stopped: a repetition thread hung / a run timed out with a thread blocked outside the "
                 "scheduler's stand-ins (reported as a violation); the remaining thread scenarios were not run")
    check_alloc_model(ctx, observed)


def _check_alloc(ctx, search, observed):
    scs = alloc_scenarios(ctx)
    for sc in scs:
        big = len(sc["threads"]) > 2 or sum(len(t) for t in sc["threads"]) > 2
        if sc.get("body"):
            # every schedule with ONE pre-emption anywhere in the repetition bodies (fewest pre-emptions first, capped in
            # the quick tier), then two; PCT on top
            if search:
                explore_alloc(ctx, sc, 2, ctx.scale(900, 4000), ctx.scale(40, 300), observed, order="bfs")
            else:
                explore_alloc(ctx, sc, 1 if not ctx.thorough else 2, ctx.scale(80, 2500), ctx.scale(4, 150), observed, order="bfs")
            continue
        if search:
            explore_alloc(ctx, sc, 2, ctx.scale(600, 3000), ctx.scale(60, 400), observed)
        else:
            explore_alloc(ctx, sc, 2 if not big else 1, ctx.scale(30 if big else 60, 1500), ctx.scale(4, 200), observed)


# ---------------------------------------------------------------------------------------------- entry points

def run(ctx):
    ctx.extra["rule"] = ("scenarios = 1-4 events (direct DENRequest / EmergencyVehicleApproachingService / collision-risk one-shot) "
                         "of one station with random start offsets; distinct_nontrivial counts distinct (kind, interval, duration, "
                         "message count) events and distinct (management-container field set, hemisphere) receptions")
    ctx.extra["glue"] = "virtual clock + deterministic scheduler; reference time and int(lat*1e7) compared with tolerance 1"
    with rs.quiet():
        corp = [c for _, c in corpus("C17")]
        scs = [c for c in corp if c.get("kind") == "scenario"]
        rxc = [c for c in corp if c.get("kind") == "rx"]
        rxs = [c["denm"] for c in rxc]
        ctx.cover("corpus_cases", len(corp))
        check_scenarios(ctx, scs)
        if rxs:
            check_rx(ctx, rxs, [1000 if c.get("due") else 0 for c in rxc])
        check_degenerate(ctx)
        fixed = [copy.deepcopy(s) for s in FIXED_SCENARIOS]
        gen = [gen_scenario(ctx.rng) for _ in range(ctx.scale(450, 9000))]
        fixed += [copy.deepcopy(s) for s in SLOW_SCENARIOS]
        gen = [gen_slow_scenario(ctx.rng) for _ in range(ctx.scale(40, 800))] + gen
        res = check_scenarios(ctx, fixed + gen)
        check_loopback(ctx, res, fixed + gen)
        check_rx(ctx, rx_cases(ctx.rng, ctx.scale(2500, 60000)))
        ctx.cover("rx_mgmt_field_subsets_enumerated", len(RX_SUBSETS))
        for c in corp:
            if c.get("kind") == "alloc" and not _ALLOC_DEAD[0] and not _HUNG["n"]:
                r = AllocRun(c["scenario"], dsched.Replay(c.get("schedule", [])))
                ctx.evals()
                for b in r.judge()[:1]:
                    ctx.violation(f"concurrent origination (corpus {c['scenario'].get('name')}): {b}", c)
        check_alloc(ctx)


def search(ctx):
    ok = ctx.model_ok
    ctx.model_ok = False
    try:
        with rs.quiet():
            check_scenarios(ctx, [copy.deepcopy(s) for s in SLOW_SCENARIOS]
                            + [gen_slow_scenario(ctx.rng) for _ in range(ctx.scale(150, 3000))]
                            + [gen_scenario(ctx.rng) for _ in range(ctx.scale(2700, 27000))])
            check_rx(ctx, rx_cases(ctx.rng, ctx.scale(9000, 300000)))
            check_alloc(ctx, search=True)
    finally:
        ctx.model_ok = ok


def replay(ctx, obj):
    case = obj.get("case", obj)
    kind = case.get("kind")
    if kind == "scenario":
        with rs.quiet():
            obs, endings = run_scenario(case)
        bad = []
        for j, e in enumerate(case["events"]):
            if e["i"] <= 0:
                continue
            if is_stall(endings.get(j)):
                bad.append(f"repetition stalled: event {j} handed over {len(obs[j])} DENM(s), then {endings.get(j)}")
            elif endings.get(j, "fin") != "fin":
                bad.append(f"event {j}: the repetition thread died with {endings.get(j)} after {len(obs[j])} DENM(s)")
            b, _ = oracle_event(e, obs[j], case["station"])
            bad += [f"event {j}: {x}" for x in b]
        bad += oracle_scenario(case, obs)
        for j, log in enumerate(obs):
            print(f"event {j}: {[(r['t'], r['aid'], r['pos']) for r in log[:6]]}{' …' if len(log) > 6 else ''}")
        print("oracle:", bad or "ok")
        return bool(bad)
    if kind == "rx":
        with rs.quiet():
            data = _COD.encode(case["denm"])
            with rs.VClock(T0):
                st = rx_one([data], False)[0]
            bad = oracle_rx(case["denm"], st)
            for gap in ([1000] if case.get("due") else [0] if "due" in case else [0, 1000]):
                b, fid = oracle_rx_maint(case["denm"], rx_maint([(data, gap)])[0])
                bad += [] if fid == "legit" else b
        print("oracle:", bad or "ok")
        return bool(bad)
    if kind == "alloc":
        r = AllocRun(case["scenario"], dsched.Replay(case.get("schedule", [])))
        bad = r.judge()
        print("action ids per event:", [sorted({m[1] for m in msgs}) for msgs in r.per_event()], "counter:", r.final)
        print("oracle:", bad or "ok")
        return bool(bad)
    raise Infra(f"unknown replay kind {kind}")

"""C11 — Facility messages faithfully encode the sensor input they were built from.

Theorems: lean/Props/C11.lean about lean/FlexModel/Fac/Mapping.lean (report -> data-element mappings on exact
rationals, GenerationDeltaTime arithmetic), ASN.1 ranges/special codes regenerated into Generated/Asn1Ranges.lean.
Tie, per generated report and message kind (CAM, VAM, DENM event position):
  (a) the dict produced by the real builders is compared field by field with the model fed the exact rational
      (fractions.Fraction) of every double the code truncates / compares;
  (b) the message goes through the real sending path (transmission management -> capturing BTP router), the payload is
      decoded with the repository's UPER coder and compared with the intended values (silent wrapping shows here);
  (c) generation must neither raise nor skip the message.
Oracle: `oracle_fields` — the CDD definitions of each data element (TS 102 894-2), applied to the DECODED payload.
"""
from __future__ import annotations

import datetime
import logging
import math
from fractions import Fraction

from common import Infra, corpus
import realstack as rs

import flexstack.facilities.ca_basic_service.cam_transmission_management as ctm
import flexstack.facilities.vru_awareness_service.vam_transmission_management as vtm
import flexstack.facilities.decentralized_environmental_notification_service.denm_transmission_management as dtm
from flexstack.facilities.ca_basic_service.cam_coder import CAMCoder
from flexstack.facilities.vru_awareness_service.vam_coder import VAMCoder
from flexstack.facilities.decentralized_environmental_notification_service.denm_coder import DENMCoder
from flexstack.applications.road_hazard_signalling_service.emergency_vehicle_approaching_service import (
    EmergencyVehicleApproachingService)

MODULES = ["Props.C11"]
DRIVERS = ["Mapping"]
TRUSTED = [
    "modelled rather than verified: the double-precision products lat*1e7, lon*1e7, altHAE*100, track*10, speed*100, "
    "epx*100, epd*10 (the model receives their exact rational values and is assumed monotone in the factor), asn1tools "
    "UPER (every payload is decoded and compared), dateutil parsing",
    "the cluster information / operation containers of the VRU service are covered by C18 (vru_clustering.py), not here",
]
ASSUMPTIONS = [
    "reports within the stated ranges: lat -90..90, lon -180..180, altHAE -1000..10000 m, speed 0..200 m/s, track 0..360, "
    "epx/epy/epv/epd 0..hundreds, finite numbers; every subset of the optional fields",
    "resolution clause read as |encoded - scaled measurement| < 1 unit (the code truncates, the CDD rounds up)",
    "semiMajorAxisOrientation is always written as 0 by the builders (the axis is chosen, not its orientation); "
    "orientation is not judged",
]

ITS_EPOCH_MS = 1072915200000
LEAP_MS = 5000
ALT_LADDER = [(0.01, "alt-000-01"), (0.02, "alt-000-02"), (0.05, "alt-000-05"), (0.1, "alt-000-10"), (0.2, "alt-000-20"),
              (0.5, "alt-000-50"), (1, "alt-001-00"), (2, "alt-002-00"), (5, "alt-005-00"), (10, "alt-010-00"),
              (20, "alt-020-00"), (50, "alt-050-00"), (100, "alt-100-00"), (200, "alt-200-00")]   # TS 102 894-2 AltitudeConfidence
KEYS = ["lat", "lon", "altHAE", "epx", "epy", "epv", "epd", "track", "speed"]
EPS = 1e-6


def iso(ms):
    return (datetime.datetime(1970, 1, 1) + datetime.timedelta(milliseconds=ms)).isoformat(timespec="milliseconds") + "Z"


# ------------------------------------------------------------------------------------------------
# oracle: CDD definitions on the decoded message


def scaled_ok(dec, x, what, lo=None):
    """in-range measurement represented within one unit of resolution"""
    if abs(dec - x) >= 1.0 + EPS:
        return [f"{what}: encoded {dec} for scaled measurement {x:.4f} (more than one unit off)"]
    return []


def oracle_fields(kind, tpv, dec):
    bad = []
    # latitude / longitude (0.1 microdegree; 900000001 / 1800000001 unavailable)
    for key, field, unav, lim in (("lat", "lat", 900000001, 900000000), ("lon", "lon", 1800000001, 1800000000)):
        if key in tpv:
            if not -lim <= dec[field] <= lim:
                bad.append(f"{field}: {dec[field]} outside the value range for an available position")
            bad += scaled_ok(dec[field], tpv[key] * 1e7, field)
        elif dec[field] != unav:
            bad.append(f"{field}: absent in the report but encoded {dec[field]} (unavailable is {unav})")
    # altitude (0.01 m; -100000 <= -1000 m; 800000 > 7999.99 m; 800001 unavailable)
    if "altHAE" in tpv:
        x = tpv["altHAE"] * 100
        a = dec["alt"]
        if x <= -100000:
            if a != -100000:
                bad.append(f"altitude: {tpv['altHAE']} m must be negativeOutOfRange(-100000), encoded {a}")
        elif x >= 800000:
            if a != 800000:
                bad.append(f"altitude: {tpv['altHAE']} m must be positiveOutOfRange(800000), encoded {a}")
        elif a == 800001:
            bad.append(f"altitude: {tpv['altHAE']} m encoded as unavailable")
        elif a == 800000 and x <= 799999:
            bad.append(f"altitude: representable {tpv['altHAE']} m encoded as positiveOutOfRange")
        elif a == -100000 and x > -99999:
            bad.append(f"altitude: representable {tpv['altHAE']} m encoded as negativeOutOfRange")
        elif a not in (800000, -100000):
            bad += scaled_ok(a, x, "altitude")
    elif dec["alt"] != 800001:
        bad.append(f"altitude: absent but encoded {dec['alt']}")
    if kind == "denm":
        return bad
    # altitude confidence ladder
    if "epv" in tpv:
        e = tpv["epv"]
        c = dec["altconf"]
        bounds = dict((n, k) for k, n in ALT_LADDER)
        if c == "unavailable":
            bad.append(f"altitudeConfidence: epv {e} encoded as unavailable")
        elif c == "outOfRange":
            if e < 200:
                bad.append(f"altitudeConfidence: epv {e} <= 200 m encoded as outOfRange")
        else:
            k = bounds[c]
            tighter = [kk for kk, _ in ALT_LADDER if kk < k]
            if e > k:
                bad.append(f"altitudeConfidence: {c} claims <= {k} m for epv {e}")
            elif tighter and e < max(tighter):
                bad.append(f"altitudeConfidence: {c} for epv {e}, a tighter class applies")
    elif dec["altconf"] != "unavailable":
        bad.append(f"altitudeConfidence: absent but {dec['altconf']}")
    # heading value (0.1 deg, 0..3599; 3600 shall not be used; 3601 unavailable)
    if "track" in tpv:
        h = dec["heading"]
        if not 0 <= h <= 3599:
            bad.append(f"heading: track {tpv['track']} encoded as {h} (3600 must not be used, 3601 is unavailable)")
        else:
            d = abs(h - tpv["track"] * 10) % 3600
            if min(d, 3600 - d) >= 1.0 + EPS:
                bad.append(f"heading: track {tpv['track']} encoded as {h}")
    elif dec["heading"] != 3601:
        bad.append(f"heading: absent but encoded {dec['heading']}")
    # heading confidence (0.1 deg, 1..125; 126 outOfRange > 12.5; 127 unavailable)
    if "epd" in tpv:
        c = dec["hconf"]
        if tpv["epd"] > 12.5:
            if c != 126:
                bad.append(f"headingConfidence: epd {tpv['epd']} > 12.5 must be outOfRange(126), encoded {c}")
        elif not 1 <= c <= 125:
            bad.append(f"headingConfidence: epd {tpv['epd']} encoded as {c} (valid 1..125)")
        elif abs(c - tpv["epd"] * 10) >= 1.0 + EPS and not (c == 1 and tpv["epd"] * 10 < 1):
            bad.append(f"headingConfidence: epd {tpv['epd']} encoded as {c}")
    elif dec["hconf"] != 127:
        bad.append(f"headingConfidence: absent but encoded {dec['hconf']}")
    # speed (0.01 m/s; 16382 for > 163.81 m/s; 16383 unavailable)
    if "speed" in tpv:
        x = tpv["speed"] * 100
        v = dec["speed"]
        if x >= 16382:
            if v != 16382:
                bad.append(f"speed: {tpv['speed']} m/s must be outOfRange(16382), encoded {v}")
        elif v == 16383:
            bad.append(f"speed: {tpv['speed']} m/s encoded as unavailable")
        elif v == 16382 and x <= 16381:
            bad.append(f"speed: representable {tpv['speed']} m/s encoded as outOfRange")
        elif v != 16382:
            bad += scaled_ok(v, x, "speed")
    elif dec["speed"] != 16383:
        bad.append(f"speed: absent but encoded {dec['speed']}")
    # position confidence ellipse (1 cm; 1..4093; 4094 outOfRange; 4095 unavailable; 0 doNotUse)
    if "epx" in tpv and "epy" in tpv:
        mj, mn = dec["major"], dec["minor"]
        if mj < mn:
            bad.append(f"ellipse: semi-major {mj} < semi-minor {mn} (epx {tpv['epx']}, epy {tpv['epy']})")
        for val, e, nm in ((mj, max(tpv["epx"], tpv["epy"]), "semiMajor"), (mn, min(tpv["epx"], tpv["epy"]), "semiMinor")):
            x = e * 100
            if x >= 4094:
                if val != 4094:
                    bad.append(f"ellipse: {nm} {e} m must be outOfRange(4094), encoded {val}")
            elif val in (0, 4095):
                bad.append(f"ellipse: {nm} {e} m encoded as {val} (doNotUse/unavailable)")
            elif val == 4094 and x <= 4093:
                bad.append(f"ellipse: representable {nm} {e} m encoded as outOfRange")
            elif val != 4094 and abs(val - x) >= 1.0 + EPS and not (val == 1 and x < 1):
                bad.append(f"ellipse: {nm} {e} m encoded as {val}")
    elif (dec["major"], dec["minor"]) != (4095, 4095):
        bad.append(f"ellipse: epx/epy absent but encoded {dec['major']}/{dec['minor']}")
    return bad


# ------------------------------------------------------------------------------------------------
# real builders / sending paths


class Cap:
    def __init__(self):
        self.sent = []

    def btp_data_request(self, request):
        self.sent.append(request)


def fields_cam(d):
    p = d["cam"]["camParameters"]
    rp = p["basicContainer"]["referencePosition"]
    hf = p["highFrequencyContainer"][1]
    e = rp["positionConfidenceEllipse"]
    return {"lat": rp["latitude"], "lon": rp["longitude"], "major": e["semiMajorAxisLength"], "minor": e["semiMinorAxisLength"],
            "orient": e["semiMajorAxisOrientation"], "alt": rp["altitude"]["altitudeValue"],
            "altconf": rp["altitude"]["altitudeConfidence"], "heading": hf["heading"]["headingValue"],
            "hconf": hf["heading"]["headingConfidence"], "speed": hf["speed"]["speedValue"],
            "gdt": d["cam"]["generationDeltaTime"], "stype": p["basicContainer"]["stationType"]}


def fields_vam(d):
    p = d["vam"]["vamParameters"]
    rp = p["basicContainer"]["referencePosition"]
    hf = p["vruHighFrequencyContainer"]
    e = rp["positionConfidenceEllipse"]
    return {"lat": rp["latitude"], "lon": rp["longitude"], "major": e["semiMajorAxisLength"], "minor": e["semiMinorAxisLength"],
            "orient": e["semiMajorAxisOrientation"], "alt": rp["altitude"]["altitudeValue"],
            "altconf": rp["altitude"]["altitudeConfidence"], "heading": hf["heading"]["value"],
            "hconf": hf["heading"]["confidence"], "speed": hf["speed"]["speedValue"],
            "gdt": d["vam"]["generationDeltaTime"], "stype": p["basicContainer"]["stationType"]}


def fields_denm(d):
    ep = d["denm"]["management"]["eventPosition"]
    return {"lat": ep["latitude"], "lon": ep["longitude"], "alt": ep["altitude"]["altitudeValue"]}


ORDER = ["lat", "lon", "major", "minor", "orient", "alt", "altconf", "heading", "hconf", "speed"]


def canon(kind, f):
    if kind == "denm":
        return f"{f['lat']} {f['lon']} {f['alt']}"
    return " ".join(str(f[k]) for k in ORDER)


def fr(x):
    f = Fraction(x)
    return str(f.numerator) if f.denominator == 1 else f"{f.numerator}/{f.denominator}"


def model_line(kind, tpv):
    def one(key, mult=None):
        if key not in tpv:
            return "-"
        return fr(tpv[key] if mult is None else tpv[key] * mult)   # the double product, exactly
    both = "epx" in tpv and "epy" in tpv
    return " ".join(["msg", kind, one("lat", 10000000), one("lon", 10000000), one("altHAE", 100),
                     one("epx") if both else "-", one("epx", 100) if both else "-",
                     one("epy") if both else "-", one("epy", 100) if both else "-",
                     one("epv"), one("epd"), one("epd", 10), one("track", 10), one("speed", 100)])


class Stack:
    """the three real sending paths with capturing routers"""

    def __init__(self):
        self.cam_coder, self.vam_coder, self.denm_coder = CAMCoder(), VAMCoder(), DENMCoder()
        for n in ("ca_basic_service", "vru_basic_service", "denm_service"):
            logging.getLogger(n).setLevel(logging.CRITICAL + 10)

    @staticmethod
    def _decoded(built, fields, coder, payload):
        try:
            return built, fields(coder.decode(payload)), None
        except Exception as e:
            return built, None, f"the payload handed to BTP is not a decodable UPER encoding ({type(e).__name__})"

    def cam(self, tpv, stype):
        """-> (built dict fields | None, decoded fields | None, error)"""
        cap = Cap()
        vd = ctm.VehicleData(station_id=11, station_type=stype)
        try:
            m = ctm.CooperativeAwarenessMessage()
            m.fullfill_with_vehicle_data(vd)
            m.fullfill_with_tpv_data(tpv)
            built = fields_cam(m.cam)
        except Exception as e:
            return None, None, f"builder raised {type(e).__name__}"
        tm = ctm.CAMTransmissionManagement(cap, self.cam_coder, vd, None)
        tm._active = True
        try:
            tm._generate_and_send_cam(tpv, 1_700_000_000_000, 1)
        except Exception as e:
            return built, None, f"generation raised {type(e).__name__}"
        if not cap.sent:
            return built, None, "generation skipped (encoding failed, Annex B.2.5 path)"
        return self._decoded(built, fields_cam, self.cam_coder, cap.sent[0].data)

    def vam(self, tpv, stype):
        cap = Cap()
        ddp = vtm.DeviceDataProvider(station_id=12, station_type=stype)
        try:
            m = vtm.VAMMessage()
            m.fullfill_with_device_data(ddp)
            m.fullfill_with_tpv_data(tpv)
            built = fields_vam(m.vam)
        except Exception as e:
            return None, None, f"builder raised {type(e).__name__}"
        tm = vtm.VAMTransmissionManagement(cap, self.vam_coder, ddp, None, None)
        try:
            tm.location_service_callback(tpv)      # first report after activation: must send
        except Exception as e:
            return built, None, f"generation raised {type(e).__name__}"
        if not cap.sent:
            return built, None, "no VAM for the first report"
        return self._decoded(built, fields_vam, self.vam_coder, cap.sent[0].data)

    def denm(self, tpv, stype):
        cap = Cap()
        vd = ctm.VehicleData(station_id=13, station_type=stype)
        tm = dtm.DENMTransmissionManagement(cap, self.denm_coder, vd)
        built = {}

        def once(request):     # one iteration of trigger_denm_messages, synchronously (no thread, no sleep)
            new_denm = dtm.DecentralizedEnvironmentalNotificationMessage()
            new_denm.fullfill_with_vehicle_data(vd)
            new_denm.fullfill_with_denrequest(request)
            built.update(fields_denm(new_denm.denm))
            tm.transmit_denm(new_denm)

        tm.request_denm_sending = once

        class Den:
            denm_transmission_management = tm

        try:
            svc = EmergencyVehicleApproachingService(Den())
            svc.trigger_denm_sending(tpv)
        except Exception as e:
            return (built or None), None, f"generation raised {type(e).__name__}"
        if not cap.sent:
            return (built or None), None, "no DENM handed to BTP"
        return self._decoded(built, fields_denm, self.denm_coder, cap.sent[0].data)


# ------------------------------------------------------------------------------------------------
# reports


BOUNDARY = {
    "lat": [-90.0, -89.9999999, -45.5, -1e-7, 0.0, 1e-7, 41.3851234, 89.9999999, 90.0],
    "lon": [-180.0, -179.9999999, -0.00000005, 0.0, 2.1734035, 179.9999999, 180.0],
    "altHAE": [-1000.0, -999.995, -999.99, -0.01, 0.0, 0.004, 163.5, 6129.99, 6130.0, 6130.01, 7000.0, 7999.98, 7999.99,
               7999.995, 8000.0, 8000.01, 8500.0, 10000.0],
    "speed": [0.0, 0.004, 0.01, 0.011, 13.89, 163.80, 163.81, 163.815, 163.82, 163.83, 200.0],
    "track": [0.0, 0.04, 0.1, 90.0, 179.95, 359.9, 359.94, 359.99, 360.0],
    "epx": [0.0, 0.004, 0.01, 0.5, 2.5, 8.754, 40.93, 40.935, 40.94, 40.95, 50.0, 100.0, 300.0],
    "epy": [0.0, 0.004, 0.01, 0.5, 3.25, 10.597, 40.93, 40.94, 41.0, 60.0, 500.0],
    "epv": [0.0, 0.005, 0.01, 0.015, 0.02, 0.05, 0.07, 0.1, 0.2, 0.3, 0.5, 1.0, 1.5, 2.0, 5.0, 10.0, 20.0, 31.97, 50.0,
            100.0, 150.0, 199.99, 200.0, 200.01, 500.0],
    "epd": [0.0, 0.004, 0.05, 0.09, 0.1, 0.15, 1.0, 5.0, 12.4, 12.5, 12.51, 13.0, 100.0, 360.0],
}


def rand_value(rng, k):
    r = rng.random()
    if r < 0.25:
        return rng.choice(BOUNDARY[k])
    if k == "lat":
        return rng.uniform(-90, 90)
    if k == "lon":
        return rng.uniform(-180, 180)
    if k == "altHAE":
        return rng.choice([rng.uniform(-1000, 10000), rng.uniform(5900, 8200), rng.uniform(-1000, -990), round(rng.uniform(-1000, 10000), 2)])
    if k == "speed":
        return rng.choice([rng.uniform(0, 200), rng.uniform(163, 165), round(rng.uniform(0, 70), 3)])
    if k == "track":
        return rng.choice([rng.uniform(0, 360), round(rng.uniform(0, 360), 4), rng.uniform(359.8, 360)])
    if k in ("epx", "epy"):
        return rng.choice([rng.uniform(0, 12), rng.uniform(0, 60), rng.uniform(0, 400), round(rng.uniform(0, 45), 3)])
    if k == "epv":
        return rng.choice([rng.uniform(0, 3), rng.uniform(0, 60), rng.uniform(0, 400)])
    if k == "epd":
        return rng.choice([rng.uniform(0, 0.3), rng.uniform(0, 14), rng.uniform(0, 400)])
    raise KeyError(k)


def gen_report(rng, i):
    tpv = {"class": "TPV", "mode": 3, "time": iso(1_700_000_000_000 + rng.randrange(0, 10**9))}
    p_absent = rng.choice([0.0, 0.1, 0.5])
    for k in KEYS:
        if rng.random() >= p_absent:
            tpv[k] = rand_value(rng, k)
    return tpv


def systematic_reports():
    """every single boundary value of every field on an otherwise plain report; every single-field omission; the empty report"""
    base = {"class": "TPV", "mode": 3, "time": iso(1_700_000_123_456), "lat": 41.3851234, "lon": 2.1734035, "altHAE": 163.5,
            "epx": 8.754, "epy": 10.597, "epv": 31.97, "epd": 1.5, "track": 271.3, "speed": 13.89}
    out = [dict(base), {"class": "TPV", "mode": 1, "time": base["time"]}]
    for k in KEYS:
        t = dict(base)
        del t[k]
        out.append(t)
        for v in BOUNDARY[k]:
            t = dict(base)
            t[k] = v
            out.append(t)
    for ex in BOUNDARY["epx"]:
        for ey in (0.004, 3.25, 40.94, 60.0):
            out.append(dict(base, epx=ex, epy=ey))
    return out


# ------------------------------------------------------------------------------------------------


def judge(kind, tpv, stype, built, dec, err):
    """violations of the property for one message: [(what, finding-id)]"""
    out = []
    if err:
        return [(f"{kind.upper()} generation fails: {err}", None)]
    keys = ["lat", "lon", "alt"] if kind == "denm" else ORDER
    for k in keys:
        if built[k] != dec[k]:
            out.append((f"{kind.upper()} {k}: builder intended {built[k]}, the encoded payload decodes to {dec[k]} (value outside its ASN.1 constraint wrapped)", None))
    if kind != "denm" and dec["stype"] != stype:
        out.append((f"{kind.upper()} stationType {stype} decodes to {dec['stype']}", None))
    for b in oracle_fields(kind, tpv, dec):
        out.append((f"{kind.upper()} {b}", None))
    return out


def check_reports(ctx, stack, reports, tag):
    lines, expect = [], []
    for i, tpv in enumerate(reports):
        stype = ctx.rng.randrange(0, 16)
        present = tuple(k for k in KEYS if k in tpv)
        ctx.cover(f"fields_present_{len(present)}")
        for kind, fn in (("cam", stack.cam), ("vam", stack.vam), ("denm", stack.denm)):
            built, dec, err = fn(tpv, stype)
            ctx.evals()
            for what, fid in judge(kind, tpv, stype, built, dec, err)[:2]:
                ctx.violation(what + f"  [report {dict((k, tpv[k]) for k in present)}]",
                              {"kind": "report", "msg": kind, "tpv": tpv, "stype": stype}, fid)
            if built is not None:
                lines.append(model_line(kind, tpv))
                expect.append((kind, tpv, canon(kind, built)))
            if dec is not None:
                ctx.nontrivial((kind, canon(kind, dec)))
                if kind != "denm":
                    for k, code, name in (("alt", 800000, "alt_posOutOfRange"), ("alt", -100000, "alt_negOutOfRange"),
                                          ("speed", 16382, "speed_outOfRange"), ("hconf", 126, "hconf_outOfRange"),
                                          ("major", 4094, "axis_outOfRange"), ("hconf", 1, "hconf_floor"),
                                          ("heading", 0, "heading_zero"), ("altconf", "outOfRange", "altconf_outOfRange")):
                        if dec[k] == code:
                            ctx.cover(f"{kind}_{name}")
                    ctx.cover(f"{kind}_stationType_{stype}")
        if i == 0:
            ctx.sample("report", {"tpv": tpv, "cam": expect[-3][2] if len(expect) >= 3 else None})
    if ctx.model_ok and lines:
        out = ctx.model("Mapping", lines)
        for (kind, tpv, real), mo in zip(expect, out):
            if real != mo:
                ctx.mismatch(f"mapping/{kind}/{tag}", {"tpv": tpv}, real, mo)


def check_gdt(ctx, n, extra=()):
    G = ctm.GenerationDeltaTime
    stamps = list(extra) + [1_700_000_000_123, 2172654871173, 2187050824983, 1085657168896, ITS_EPOCH_MS - LEAP_MS, ITS_EPOCH_MS]
    eras = [(1_600_000_000_000, 1_900_000_000_000), (2_147_000_000_000, 2_200_000_000_000), (ITS_EPOCH_MS, 4_102_444_800_000)]
    for _ in range(n):
        lo, hi = ctx.rng.choice(eras)
        stamps.append(ctx.rng.randrange(lo, hi))
    for k in range(0, 300):        # around a wrap of generationDeltaTime
        base = 1_700_000_000_000
        base += 65536 - ((base - ITS_EPOCH_MS + LEAP_MS) % 65536)
        stamps.append(base - 150 + k)
    lines, reals = [], []
    for g in stamps:
        want = (g - ITS_EPOCH_MS + LEAP_MS) % 65536
        got = G.from_timestamp(g / 1000).msec
        ctx.evals()
        if got != want:
            ctx.violation(f"generationDeltaTime of UTC {g} ms is {got}, TimestampIts mod 65536 is {want}",
                          {"kind": "gdt", "ms": g})
        lines.append(f"gdt {g}")
        reals.append(str(got))
        # receiver side: any reception time within 65 s after generation reconstructs the generation time
        for age in (0, 1, ctx.rng.randrange(0, 65536), 65000, 65535):
            rx = g + age
            rec = G(msec=want).as_timestamp_in_certain_point(rx)
            ctx.evals()
            if rec != g:
                ctx.violation(f"receiver at {rx} ms reconstructs {rec} from generationDeltaTime {want}, generated at {g} (age {age} ms)",
                              {"kind": "rec", "ms": g, "age": age})
            lines.append(f"rec {want} {rx}")
            reals.append(str(int(rec)))
        ctx.nontrivial(("gdt", want))
    ctx.cover("gdt_stamps", len(stamps))
    if ctx.model_ok:
        for ln, r, mo in zip(lines, reals, ctx.model("Mapping", lines)):
            if r != mo:
                ctx.mismatch("gdt", ln, r, mo)


_STACK = []


def stack():
    if not _STACK:
        _STACK.append(Stack())
    return _STACK[0]


def run(ctx):
    ctx.extra["rule"] = ("reports over the stated ranges (each of 9 optional fields present/absent, 25% boundary values per "
                         "field) through the real CAM, VAM and DENM sending paths; every boundary value of every field and every "
                         "single omission systematically; distinct_nontrivial counts distinct decoded field tuples per message kind")
    st = stack()
    with rs.VClock(1_700_000_000_000):
        corp = [c.get("case", c) for _, c in corpus("C11")]
        reps = [c["tpv"] for c in corp if c.get("kind") == "report"]
        ctx.cover("corpus_cases", len(corp))
        check_reports(ctx, st, reps, "corpus")
        check_reports(ctx, st, systematic_reports(), "systematic")
        n = ctx.scale(5000, 400000)
        check_reports(ctx, st, [gen_report(ctx.rng, i) for i in range(n)], "random")
        check_gdt(ctx, ctx.scale(3000, 200000), [c["ms"] for c in corp if c.get("kind") == "gdt"])


def search(ctx):
    st = stack()
    ok = ctx.model_ok
    ctx.model_ok = False
    try:
        with rs.VClock(1_700_000_000_000):
            check_reports(ctx, st, systematic_reports(), "search-systematic")
            check_reports(ctx, st, [gen_report(ctx.rng, i) for i in range(ctx.scale(15000, 390000))], "search")
            check_gdt(ctx, ctx.scale(9000, 600000))
    finally:
        ctx.model_ok = ok


def replay(ctx, obj):
    case = obj.get("case", obj)
    st = stack()
    with rs.VClock(1_700_000_000_000):
        if case.get("kind") == "report":
            bad = []
            for kind, fn in (("cam", st.cam), ("vam", st.vam), ("denm", st.denm)):
                if case.get("msg") not in (None, kind):
                    continue
                built, dec, err = fn(case["tpv"], case.get("stype", 5))
                v = judge(kind, case["tpv"], case.get("stype", 5), built, dec, err)
                for what, _ in v:
                    print(what)
                bad += v
            print(f"{len(bad)} violations on this report")
            return bool(bad)
        if case.get("kind") == "gdt":
            g = case["ms"]
            got = ctm.GenerationDeltaTime.from_timestamp(g / 1000).msec
            want = (g - ITS_EPOCH_MS + LEAP_MS) % 65536
            print(f"gdt({g}) = {got}, expected {want}")
            return got != want
        if case.get("kind") == "rec":
            g, age = case["ms"], case["age"]
            want = (g - ITS_EPOCH_MS + LEAP_MS) % 65536
            rec = ctm.GenerationDeltaTime(msec=want).as_timestamp_in_certain_point(g + age)
            print(f"reconstructed {rec}, generated {g}")
            return rec != g
    raise Infra(f"unknown replay kind {case.get('kind')}")

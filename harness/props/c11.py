"""C11 — Facility messages faithfully encode the sensor input they were built from.

Theorems: lean/Props/C11.lean about lean/FlexModel/Fac/Mapping.lean (report -> data-element mappings on exact
rationals, GenerationDeltaTime arithmetic and clock readings, vehicle-role table and the send state an encoding
failure leaves untouched, the report cache of the CAM transmission management and the event position of the
emergency-vehicle service over HISTORIES of reports, the cluster information container under the clustering lock);
guards / operators / tables / structural facts regenerated from the source (Generated/FacConstants.lean,
Generated/FacC11.lean), ASN.1 ranges and named numbers from the repo's ASN.1 text (Generated/Asn1Ranges.lean).

Tie (all on the real code, in process):
  (a) builders vs model, field by field, on the exact Fractions of every double the code truncates / compares;
  (b) every message goes through the real sending path (transmission management -> capturing BTP router), the payload is
      decoded with the repository's UPER coder; the WHOLE decoded message is compared with the dict handed to the
      encoder (silent wrapping / dropped components show here) and the report-derived fields with the intended values;
  (c) generation must neither raise nor skip the message;
  (d) histories: several reports with varying field subsets on ONE transmission management / ONE service, each message
      compared with the model run on the same history and judged against the report it was built from;
  (e) all 16 vehicle roles x several generation attempts on one transmission management vs the model's send state;
  (f) generationDeltaTime: real from_timestamp / as_timestamp_in_certain_point vs model and vs the integer definition
      (ages 0, 1, 65535, random; gdt 0 / 65535; three eras), and the real reception managements fed the captured
      payload at generation time + age;
  (f') the Lean model of asn1tools' constrained-INTEGER encoding against asn1tools (synthetic SEQUENCE with the data
      elements' ranges; in-range values and values above the constraint);
  (h) TRAJECTORIES: many reports on one CAM transmission management; the pathHistory of every low-frequency container
      judged against the harness' own record of the positions CAMs were sent from (offsets at the limits of
      DeltaLatitude / DeltaLongitude, the 23-point and 40-entry limits, pathDeltaTime clamps, reports without position),
      every CAM of the trajectory must be handed to BTP and decode; compared with the model's `_get_path_history` +
      send state;
  (i) the VAM sending path in 17 clustering states (no manager, idle, standalone, the join / leave sub-states, passive,
      leader with members / in the break-up warning) x LDM adapter absent / stub / the repository's adapter over a real
      LDM: transmitted or silent as TS 103 300-3 says, the containers expected, the LDM fed the message that went to BTP;
      compared with the model's `vamSend`;
  (g) the cluster information container built while another thread completes a cluster break-up / switches the VRU
      role off, under harness/dsched.py (all schedules up to a pre-emption bound), outcomes compared with the model's.
  (j) REPETITIONS of one DEN request (round 5): the real `request_denm_sending` + the repetition thread it starts (the
      module's time.sleep / threading.Thread replaced: the thread body runs once the caller is back, every
      inter-repetition sleep is a pause in which the CALLER acts) while the caller goes on using the position dictionary
      it passed: item assignments at the top level and INSIDE the nested altitude / confidence-ellipse records,
      `.update`, `.clear`, `.pop`, rebinding a key to a new record, clearing and refilling the whole dictionary, a
      second request with the same dictionary - before the first and between any two repetitions.  Oracle: the harness'
      own deep copy of the dictionary taken when the request was made; every repetition must be handed to BTP and
      decode to exactly that position.  Compared with the model's `repetitions` (copy level regenerated).
Oracle: `oracle_fields` — the CDD definitions of each data element (TS 102 894-2), applied to the DECODED payload.
"""
from __future__ import annotations

import copy
import datetime
import logging
import threading
import types
import random as _random
from fractions import Fraction

from common import Infra, corpus
import realstack as rs
import dsched

import flexstack.facilities.ca_basic_service.cam_transmission_management as ctm
import flexstack.facilities.ca_basic_service.cam_reception_management as crm
import flexstack.facilities.vru_awareness_service.vam_transmission_management as vtm
import flexstack.facilities.vru_awareness_service.vam_reception_management as vrm
import flexstack.facilities.vru_awareness_service.vru_clustering as vcl
import flexstack.facilities.decentralized_environmental_notification_service.denm_transmission_management as dtm
from flexstack.facilities.ca_basic_service.cam_coder import CAMCoder
from flexstack.facilities.vru_awareness_service.vam_coder import VAMCoder
from flexstack.facilities.decentralized_environmental_notification_service.denm_coder import DENMCoder
from flexstack.applications.road_hazard_signalling_service.emergency_vehicle_approaching_service import (
    EmergencyVehicleApproachingService)
from flexstack.btp.service_access_point import BTPDataIndication
from flexstack.applications.road_hazard_signalling_service.service_access_point import DENRequest

MODULES = ["Props.C11"]
DRIVERS = ["Mapping"]
TRUSTED = [
    "modelled rather than verified: the double-precision products lat*1e7, lon*1e7, altHAE*100, track*10, speed*100, "
    "epx*100, epd*10, t*1e6 (the model receives their exact rational values; monotonicity of e -> e*100 / e*10 and the "
    "half-microsecond band of t*1e6 are explicit hypotheses of the theorems), asn1tools UPER (no encoder model: every "
    "payload is decoded and the whole message compared with the dict handed to the encoder), dateutil parsing",
    "mutual exclusion of `with self._lock` sections (Python RLock) - the interleaving model treats a lock section as one step; "
    "harness/dsched.py (schedule exploration of the real threads)",
    "the cluster state machine itself (when a VRU is leader / passive, cardinality bookkeeping) is C18's subject; C11 covers "
    "the container values, that the container is a consistent snapshot, and that the VAM reaches BTP in every state the "
    "machine can be brought into (17 recipes through its public API)",
    "path history: the double arithmetic `(h - current) * 10000000` and `(now - t) / 10` (the model receives the exact values "
    "and its theorems hold for ANY offsets), that a PathPoint outside its constraints makes asn1tools raise or emit an "
    "undecodable CAM (observed on the seeded tree), copy.deepcopy's protocol for tuple subclasses (regenerated fact "
    "CHOICE_DEEPCOPYABLE from the class definition)",
    "DENM repetitions: Python's object sharing - `copy.deepcopy` detaches the nested records, `dict()` / `.copy()` / "
    "`copy.copy` share them (the model's `shareOf`, checked against the real code per scenario); the repetition thread is "
    "driven as a sequentialised schedule (its body runs once the caller is back from request_denm_sending, the caller acts "
    "inside each `time.sleep`): a pre-emption INSIDE one repetition (between reading the position and encoding it) is not "
    "explored; the cadence / count / action ids of the repetitions are C17's subject",
]
ASSUMPTIONS = [
    "reports within the stated ranges: lat -90..90, lon -180..180, altHAE -1000..10000 m, speed 0..200 m/s, track 0..360, "
    "epx/epy/epv/epd 0..hundreds, finite numbers; every subset of these nine optional fields",
    "every report carries `time` (the instant generationDeltaTime encodes; a TPV without time has no fix); the receiver's "
    "clock is not behind the generation instant (reception instant r with g <= r < g + 65536 ms)",
    "resolution clause read as |encoded - scaled measurement| < 1 unit (the code truncates, the CDD rounds up)",
    "DENM: the event position is the report-derived part; the other DENM components are compared built-vs-decoded only",
    "path history: the intended value of a path point is the offset of an earlier CAM position from the CURRENT reference "
    "position (what the service builds; the CDD's DF Path chains every point to the previous one - not judged); an offset "
    "beyond the largest expressible one (131071 units) may be sent as `unavailable` (the element has no outOfRange code)",
    "the LDM adapter's add_provider_data_to_ldm does not raise (send_next_vam feeds it BEFORE the VAM is encoded, unguarded; "
    "exercised with a stub and with the repository's adapters over a real dictionary LDM)",
    "DENM repetitions: 'the values the service intended' = the event position the request was MADE with (the content of the "
    "caller's dictionary at the call of request_denm_sending), whatever the caller does with that dictionary afterwards; the "
    "dictionary is well-formed and within the ASN.1 constraints at the call",
]

ITS_EPOCH_MS = 1072915200000
LEAP_MS = 5000
ALT_LADDER = [(0.01, "alt-000-01"), (0.02, "alt-000-02"), (0.05, "alt-000-05"), (0.1, "alt-000-10"), (0.2, "alt-000-20"),
              (0.5, "alt-000-50"), (1, "alt-001-00"), (2, "alt-002-00"), (5, "alt-005-00"), (10, "alt-010-00"),
              (20, "alt-020-00"), (50, "alt-050-00"), (100, "alt-100-00"), (200, "alt-200-00")]   # TS 102 894-2 AltitudeConfidence
# TS 102 894-2 VehicleRole (V2.x), value = index
CDD_VEHICLE_ROLES = ["default", "publicTransport", "specialTransport", "dangerousGoods", "roadWork", "rescue", "emergency",
                     "safetyCar", "agriculture", "commercial", "military", "roadOperator", "taxi", "uvar", "rfu1", "rfu2"]
KEYS = ["lat", "lon", "altHAE", "epx", "epy", "epv", "epd", "track", "speed"]
EPS = 1e-6
T0 = 1_700_000_000_000

# known finding (pinned by the repository's tests, see known_findings.d/C11.json)
DENM_DROPPED_KEYS = {"relevanceDistance", "relevanceTrafficDirection", "TransmissionInterval"}
F_DENM_KEYS = "C11-F11"


def iso(ms):
    return (datetime.datetime(1970, 1, 1) + datetime.timedelta(milliseconds=ms)).isoformat(timespec="milliseconds") + "Z"


# ------------------------------------------------------------------------------------------------
# oracle: CDD definitions on the decoded message


def scaled_ok(dec, x, what, lo=None):
    """in-range measurement represented within one unit of resolution"""
    if abs(dec - x) >= 1.0 + EPS:
        return [f"{what}: encoded {dec} for scaled measurement {x:.4f} (more than one unit off)"]
    return []


def oracle_fields(kind, tpv, dec):
    bad = []
    # latitude / longitude (0.1 microdegree; 900000001 / 1800000001 unavailable)
    for key, field, unav, lim in (("lat", "lat", 900000001, 900000000), ("lon", "lon", 1800000001, 1800000000)):
        if key in tpv:
            if not -lim <= dec[field] <= lim:
                bad.append(f"{field}: {dec[field]} outside the value range for an available position")
            bad += scaled_ok(dec[field], tpv[key] * 1e7, field)
        elif dec[field] != unav:
            bad.append(f"{field}: absent in the report but encoded {dec[field]} (unavailable is {unav})")
    # altitude (0.01 m; -100000 <= -1000 m; 800000 > 7999.99 m; 800001 unavailable)
    if "altHAE" in tpv:
        x = tpv["altHAE"] * 100
        a = dec["alt"]
        if x <= -100000:
            if a != -100000:
                bad.append(f"altitude: {tpv['altHAE']} m must be negativeOutOfRange(-100000), encoded {a}")
        elif x >= 800000:
            if a != 800000:
                bad.append(f"altitude: {tpv['altHAE']} m must be positiveOutOfRange(800000), encoded {a}")
        elif a == 800001:
            bad.append(f"altitude: {tpv['altHAE']} m encoded as unavailable")
        elif a == 800000 and x <= 799999:
            bad.append(f"altitude: representable {tpv['altHAE']} m encoded as positiveOutOfRange")
        elif a == -100000 and x > -99999:
            bad.append(f"altitude: representable {tpv['altHAE']} m encoded as negativeOutOfRange")
        elif a not in (800000, -100000):
            bad += scaled_ok(a, x, "altitude")
    elif dec["alt"] != 800001:
        bad.append(f"altitude: absent in the report but encoded {dec['alt']} (unavailable is 800001)")
    if kind == "denm":
        return bad
    # altitude confidence (CDD: class k "equal to or less than" k "and greater than" the previous bound; outOfRange > 200)
    if "epv" in tpv:
        e = tpv["epv"]
        c = dec["altconf"]
        bounds = dict((n, k) for k, n in ALT_LADDER)
        if c == "unavailable":
            bad.append(f"altitudeConfidence: epv {e} encoded as unavailable")
        elif c == "outOfRange":
            if e <= 200:
                bad.append(f"altitudeConfidence: epv {e} <= 200 m encoded as outOfRange")
        else:
            k = bounds[c]
            tighter = [kk for kk, _ in ALT_LADDER if kk < k]
            if e > k:
                bad.append(f"altitudeConfidence: {c} claims <= {k} m for epv {e}")
            elif tighter and e <= max(tighter):
                bad.append(f"altitudeConfidence: {c} for epv {e}, the tighter class (<= {max(tighter)} m) applies")
    elif dec["altconf"] != "unavailable":
        bad.append(f"altitudeConfidence: absent in the report but {dec['altconf']}")
    # heading value (0.1 deg, 0..3599; 3600 shall not be used; 3601 unavailable)
    if "track" in tpv:
        h = dec["heading"]
        if not 0 <= h <= 3599:
            bad.append(f"heading: track {tpv['track']} encoded as {h} (3600 must not be used, 3601 is unavailable)")
        else:
            d = abs(h - tpv["track"] * 10) % 3600
            if min(d, 3600 - d) >= 1.0 + EPS:
                bad.append(f"heading: track {tpv['track']} encoded as {h}")
    elif dec["heading"] != 3601:
        bad.append(f"heading: absent in the report but encoded {dec['heading']} (unavailable is 3601)")
    # heading confidence (0.1 deg, 1..125; 126 outOfRange > 12.5; 127 unavailable)
    if "epd" in tpv:
        c = dec["hconf"]
        if tpv["epd"] > 12.5:
            if c != 126:
                bad.append(f"headingConfidence: epd {tpv['epd']} > 12.5 must be outOfRange(126), encoded {c}")
        elif not 1 <= c <= 125:
            bad.append(f"headingConfidence: epd {tpv['epd']} encoded as {c} (valid 1..125)")
        elif abs(c - tpv["epd"] * 10) >= 1.0 + EPS and not (c == 1 and tpv["epd"] * 10 < 1):
            bad.append(f"headingConfidence: epd {tpv['epd']} encoded as {c}")
    elif dec["hconf"] != 127:
        bad.append(f"headingConfidence: absent in the report but encoded {dec['hconf']} (unavailable is 127)")
    # speed (0.01 m/s; 16382 for > 163.81 m/s; 16383 unavailable)
    if "speed" in tpv:
        x = tpv["speed"] * 100
        v = dec["speed"]
        if x >= 16382:
            if v != 16382:
                bad.append(f"speed: {tpv['speed']} m/s must be outOfRange(16382), encoded {v}")
        elif v == 16383:
            bad.append(f"speed: {tpv['speed']} m/s encoded as unavailable")
        elif v == 16382 and x <= 16381:
            bad.append(f"speed: representable {tpv['speed']} m/s encoded as outOfRange")
        elif v != 16382:
            bad += scaled_ok(v, x, "speed")
    elif dec["speed"] != 16383:
        bad.append(f"speed: absent in the report but encoded {dec['speed']} (unavailable is 16383)")
    # position confidence ellipse (1 cm; 1..4093; 4094 outOfRange; 4095 unavailable; 0 doNotUse); epy = north-south
    # (latitude) error, epx = east-west: orientation of the major axis 0 resp. 900 (0.1 deg from north)
    if "epx" in tpv and "epy" in tpv:
        mj, mn = dec["major"], dec["minor"]
        if mj < mn:
            bad.append(f"ellipse: semi-major {mj} < semi-minor {mn} (epx {tpv['epx']}, epy {tpv['epy']})")
        for val, e, nm in ((mj, max(tpv["epx"], tpv["epy"]), "semiMajor"), (mn, min(tpv["epx"], tpv["epy"]), "semiMinor")):
            x = e * 100
            if x >= 4094:
                if val != 4094:
                    bad.append(f"ellipse: {nm} {e} m must be outOfRange(4094), encoded {val}")
            elif val in (0, 4095):
                bad.append(f"ellipse: {nm} {e} m encoded as {val} (doNotUse/unavailable)")
            elif val == 4094 and x <= 4093:
                bad.append(f"ellipse: representable {nm} {e} m encoded as outOfRange")
            elif val != 4094 and abs(val - x) >= 1.0 + EPS and not (val == 1 and x < 1):
                bad.append(f"ellipse: {nm} {e} m encoded as {val}")
        if mj != mn:       # (a circle has no major axis)
            want = 0 if tpv["epy"] > tpv["epx"] else 900
            if dec["orient"] != want:
                bad.append(f"ellipse: major axis is {'north-south' if want == 0 else 'east-west'} (epx {tpv['epx']} m east-west, "
                           f"epy {tpv['epy']} m north-south) but semiMajorAxisOrientation is {dec['orient']}")
        elif not 0 <= dec["orient"] <= 3599:
            bad.append(f"ellipse: semiMajorAxisOrientation {dec['orient']} for available axes")
    elif (dec["major"], dec["minor"], dec["orient"]) != (4095, 4095, 3601):
        bad.append(f"ellipse: epx/epy absent in the report but encoded {dec['major']}/{dec['minor']}/{dec['orient']} (unavailable is 4095/4095/3601)")
    return bad


# ------------------------------------------------------------------------------------------------
# real builders / sending paths


class Cap:
    def __init__(self):
        self.sent = []

    def btp_data_request(self, request):
        self.sent.append(request)

    def register_indication_callback_btp(self, port, callback):
        pass


class RecCoder:
    """the repository's coder; remembers (a normalised copy of) the dict handed to `encode`"""

    def __init__(self, real):
        self.real, self.last = real, None

    def encode(self, d):
        self.last = norm(d)          # structural copy (CHOICE tuples -> lists, bytes -> hex) taken BEFORE encoding
        return self.real.encode(d)

    def __getattr__(self, n):
        return getattr(self.real, n)


def norm(x):
    if isinstance(x, dict):
        return {k: norm(v) for k, v in x.items()}
    if isinstance(x, (list, tuple)):
        return [norm(v) for v in x]
    if isinstance(x, (bytes, bytearray)):
        return bytes(x).hex()
    return x


def tree_diff(a, b, path=""):
    """differences between the dict handed to the encoder and the decoded payload: [(path, text)]"""
    out = []
    if isinstance(a, dict) and isinstance(b, dict):
        for k in sorted(set(a) | set(b)):
            if k not in a:
                out.append((f"{path}/{k}", f"{path}/{k}: not in the message built, decoded {b[k]!r}"))
            elif k not in b:
                out.append((f"{path}/{k}", f"{path}/{k}: built {a[k]!r}, missing from the decoded payload (dropped by the encoder)"))
            else:
                out += tree_diff(a[k], b[k], f"{path}/{k}")
    elif isinstance(a, list) and isinstance(b, list) and len(a) == len(b):
        for i, (x, y) in enumerate(zip(a, b)):
            out += tree_diff(x, y, f"{path}[{i}]")
    elif a != b:
        out.append((path, f"{path}: built {a!r}, the payload decodes to {b!r}"))
    return out


def fields_cam(d):
    p = d["cam"]["camParameters"]
    rp = p["basicContainer"]["referencePosition"]
    hf = p["highFrequencyContainer"][1]
    e = rp["positionConfidenceEllipse"]
    lf = p.get("lowFrequencyContainer")
    path = None
    if lf:
        path = [(q["pathPosition"]["deltaLatitude"], q["pathPosition"]["deltaLongitude"], q["pathPosition"]["deltaAltitude"],
                 q.get("pathDeltaTime")) for q in lf[1]["pathHistory"]]
    return {"path": path, "lat": rp["latitude"], "lon": rp["longitude"], "major": e["semiMajorAxisLength"], "minor": e["semiMinorAxisLength"],
            "orient": e["semiMajorAxisOrientation"], "alt": rp["altitude"]["altitudeValue"],
            "altconf": rp["altitude"]["altitudeConfidence"], "heading": hf["heading"]["headingValue"],
            "hconf": hf["heading"]["headingConfidence"], "speed": hf["speed"]["speedValue"],
            "gdt": d["cam"]["generationDeltaTime"], "stype": p["basicContainer"]["stationType"],
            "role": (lf[1]["vehicleRole"] if lf else None)}


def fields_vam(d):
    p = d["vam"]["vamParameters"]
    rp = p["basicContainer"]["referencePosition"]
    hf = p["vruHighFrequencyContainer"]
    e = rp["positionConfidenceEllipse"]
    return {"lat": rp["latitude"], "lon": rp["longitude"], "major": e["semiMajorAxisLength"], "minor": e["semiMinorAxisLength"],
            "orient": e["semiMajorAxisOrientation"], "alt": rp["altitude"]["altitudeValue"],
            "altconf": rp["altitude"]["altitudeConfidence"], "heading": hf["heading"]["value"],
            "hconf": hf["heading"]["confidence"], "speed": hf["speed"]["speedValue"],
            "gdt": d["vam"]["generationDeltaTime"], "stype": p["basicContainer"]["stationType"], "role": None}


def fields_denm(d):
    ep = d["denm"]["management"]["eventPosition"]
    return {"lat": ep["latitude"], "lon": ep["longitude"], "alt": ep["altitude"]["altitudeValue"]}


FIELDS = {"cam": fields_cam, "vam": fields_vam, "denm": fields_denm}
ORDER = ["lat", "lon", "major", "minor", "orient", "alt", "altconf", "heading", "hconf", "speed"]


def canon(kind, f):
    if kind == "denm":
        return f"{f['lat']} {f['lon']} {f['alt']}"
    return " ".join(str(f[k]) for k in ORDER)


def fr(x):
    f = Fraction(x)
    return str(f.numerator) if f.denominator == 1 else f"{f.numerator}/{f.denominator}"


def report_tokens(tpv):
    def one(key, mult=None):
        if key not in tpv:
            return "-"
        return fr(tpv[key] if mult is None else tpv[key] * mult)   # the double product, exactly
    return " ".join([one("lat", 10000000), one("lon", 10000000), one("altHAE", 100), one("epx"), one("epx", 100),
                     one("epy"), one("epy", 100), one("epv"), one("epd"), one("epd", 10), one("track", 10), one("speed", 100)])


def model_line(kind, tpv):
    return f"msg {kind} " + report_tokens(tpv)


class Msg:
    """one message handed to BTP (or the failure to produce it)"""
    __slots__ = ("built", "dec", "err", "diffs", "payload")

    def __init__(self, built=None, dec=None, err=None, diffs=(), payload=None):
        self.built, self.dec, self.err, self.diffs, self.payload = built, dec, err, list(diffs), payload


def decode_sent(kind, rec, payload):
    """-> Msg: fields of the dict handed to the encoder, fields of the decoded payload, whole-message differences"""
    built = FIELDS[kind](rec.last)
    try:
        d = rec.real.decode(payload)
    except Exception as e:
        return Msg(built, None, f"the payload handed to BTP is not a decodable UPER encoding ({type(e).__name__})", payload=payload)
    return Msg(built, FIELDS[kind](d), None, tree_diff(rec.last, norm(d)), payload)


class CamStation:
    """ONE real CAM transmission management with a capturing BTP router"""

    def __init__(self, coder, stype, role, ldm=None):
        self.cap = Cap()
        self.rec = RecCoder(coder)
        self.ldm = ldm
        self.vd = ctm.VehicleData(station_id=11, station_type=stype, vehicle_role=role)
        self.tm = ctm.CAMTransmissionManagement(self.cap, self.rec, self.vd, ldm)
        self.tm._active = True

    def _collect(self, n0, what):
        new = self.cap.sent[n0:]
        if not new:
            return Msg(None, None, what)
        return decode_sent("cam", self.rec, new[0].data)

    def attempt(self, tpv, now_ms):
        """one generation attempt (`_generate_and_send_cam`)"""
        n0 = len(self.cap.sent)
        try:
            self.tm._generate_and_send_cam(tpv, now_ms, 1)
        except Exception as e:
            return Msg(None, None, f"generation raised {type(e).__name__}")
        return self._collect(n0, "generation skipped (construction / encoding failed, Annex B.2.5 path): no CAM for this attempt")

    def report_and_tick(self, tpv):
        """location service callback, then a T_CheckCamGen expiry"""
        n0 = len(self.cap.sent)
        try:
            self.tm.location_service_callback(tpv)
            self.tm._evaluate_and_maybe_send()
        except Exception as e:
            return Msg(None, None, f"generation raised {type(e).__name__}")
        return self._collect(n0, "no CAM handed to BTP at a T_CheckCamGen expiry more than T_GenCamMax after the previous CAM (generation skipped: it stalls while the report stays)")


class VamStation:
    def __init__(self, coder, stype, clustering=None, ldm=None):
        self.cap = Cap()
        self.rec = RecCoder(coder)
        self.ddp = vtm.DeviceDataProvider(station_id=12, station_type=stype)
        self.tm = vtm.VAMTransmissionManagement(self.cap, self.rec, self.ddp, ldm, clustering)

    def report(self, tpv):
        n0 = len(self.cap.sent)
        try:
            self.tm.location_service_callback(tpv)
        except Exception as e:
            return Msg(None, None, f"generation raised {type(e).__name__}: {str(e)[:160]}")
        new = self.cap.sent[n0:]
        if not new:
            return Msg(None, None, "no VAM for a report more than T_GenVam after the previous VAM")
        return decode_sent("vam", self.rec, new[0].data)


class DenmStation:
    def __init__(self, coder, stype):
        self.cap = Cap()
        self.rec = RecCoder(coder)
        vd = ctm.VehicleData(station_id=13, station_type=stype)
        tm = dtm.DENMTransmissionManagement(self.cap, self.rec, vd)

        def once(request):     # one iteration of trigger_denm_messages, synchronously (no thread, no sleep)
            new_denm = dtm.DecentralizedEnvironmentalNotificationMessage()
            new_denm.fullfill_with_vehicle_data(vd)
            new_denm.fullfill_with_denrequest(request)
            tm.transmit_denm(new_denm)

        tm.request_denm_sending = once

        class Den:
            denm_transmission_management = tm

        self.svc = EmergencyVehicleApproachingService(Den())

    def report(self, tpv):
        n0 = len(self.cap.sent)
        try:
            self.svc.trigger_denm_sending(tpv)
        except Exception as e:
            return Msg(None, None, f"generation raised {type(e).__name__}")
        new = self.cap.sent[n0:]
        if not new:
            return Msg(None, None, "no DENM handed to BTP")
        return decode_sent("denm", self.rec, new[0].data)


class Stack:
    def __init__(self):
        self.cam_coder, self.vam_coder, self.denm_coder = CAMCoder(), VAMCoder(), DENMCoder()
        for n in ("ca_basic_service", "vru_basic_service", "denm_service", "flexstack"):
            logging.getLogger(n).setLevel(logging.CRITICAL + 10)
        logging.getLogger(vcl.__name__).setLevel(logging.CRITICAL + 10)
        self.role_enum = self._compiled_roles()

    def _compiled_roles(self):
        """names of the VehicleRole enumeration the CAM coder compiled, by value"""
        try:
            t = self.cam_coder.asn_coder.types["BasicVehicleContainerLowFrequency"]
            for m in t.type.root_members:
                if m.name == "vehicleRole":
                    return [n for n, _ in sorted(m.root_data_to_index.items(), key=lambda kv: kv[1])]
        except Exception:
            pass
        return list(CDD_VEHICLE_ROLES)

    def one(self, kind, tpv, stype, role=0):
        """a fresh station, one report -> Msg"""
        if kind == "cam":
            return CamStation(self.cam_coder, stype, role).attempt(tpv, T0)
        if kind == "vam":
            return VamStation(self.vam_coder, stype).report(tpv)
        return DenmStation(self.denm_coder, stype).report(tpv)


# ------------------------------------------------------------------------------------------------
# reports


BOUNDARY = {
    "lat": [-90.0, -89.9999999, -45.5, -1e-7, 0.0, 1e-7, 41.3851234, 89.9999999, 90.0],
    "lon": [-180.0, -179.9999999, -0.00000005, 0.0, 2.1734035, 179.9999999, 180.0],
    "altHAE": [-1000.0, -999.995, -999.99, -0.01, 0.0, 0.004, 163.5, 6129.99, 6130.0, 6130.01, 7000.0, 7999.98, 7999.99,
               7999.995, 8000.0, 8000.01, 8500.0, 10000.0],
    "speed": [0.0, 0.004, 0.01, 0.011, 13.89, 163.80, 163.81, 163.815, 163.82, 163.83, 200.0],
    "track": [0.0, 0.04, 0.1, 90.0, 179.95, 359.9, 359.94, 359.99, 360.0],
    "epx": [0.0, 0.004, 0.01, 0.5, 2.5, 8.754, 40.93, 40.935, 40.94, 40.95, 50.0, 100.0, 300.0],
    "epy": [0.0, 0.004, 0.01, 0.5, 3.25, 10.597, 40.93, 40.94, 41.0, 60.0, 500.0],
    "epv": [0.0, 0.005, 0.01, 0.015, 0.02, 0.05, 0.07, 0.1, 0.2, 0.3, 0.5, 1.0, 1.5, 2.0, 5.0, 10.0, 20.0, 31.97, 50.0,
            100.0, 150.0, 199.99, 200.0, 200.01, 500.0],
    "epd": [0.0, 0.004, 0.05, 0.09, 0.1, 0.15, 1.0, 5.0, 12.4, 12.5, 12.51, 13.0, 100.0, 360.0],
}


def rand_value(rng, k):
    r = rng.random()
    if r < 0.25:
        return rng.choice(BOUNDARY[k])
    if k == "lat":
        return rng.uniform(-90, 90)
    if k == "lon":
        return rng.uniform(-180, 180)
    if k == "altHAE":
        return rng.choice([rng.uniform(-1000, 10000), rng.uniform(5900, 8200), rng.uniform(-1000, -990), round(rng.uniform(-1000, 10000), 2)])
    if k == "speed":
        return rng.choice([rng.uniform(0, 200), rng.uniform(163, 165), round(rng.uniform(0, 70), 3)])
    if k == "track":
        return rng.choice([rng.uniform(0, 360), round(rng.uniform(0, 360), 4), rng.uniform(359.8, 360)])
    if k in ("epx", "epy"):
        return rng.choice([rng.uniform(0, 12), rng.uniform(0, 60), rng.uniform(0, 400), round(rng.uniform(0, 45), 3)])
    if k == "epv":
        return rng.choice([rng.uniform(0, 3), rng.uniform(0, 60), rng.uniform(0, 400), float(rng.choice([1, 2, 5, 10, 20, 50, 100, 200]))])
    if k == "epd":
        return rng.choice([rng.uniform(0, 0.3), rng.uniform(0, 14), rng.uniform(0, 400)])
    raise KeyError(k)


def gen_report(rng, ms=None, p_absent=None):
    tpv = {"class": "TPV", "mode": 3, "time": iso(ms if ms is not None else T0 + rng.randrange(0, 10**9))}
    if p_absent is None:
        p_absent = rng.choice([0.0, 0.1, 0.5])
    for k in KEYS:
        if rng.random() >= p_absent:
            tpv[k] = rand_value(rng, k)
    return tpv


BASE = {"class": "TPV", "mode": 3, "time": iso(1_700_000_123_456), "lat": 41.3851234, "lon": 2.1734035, "altHAE": 163.5,
        "epx": 8.754, "epy": 10.597, "epv": 31.97, "epd": 1.5, "track": 271.3, "speed": 13.89}


def systematic_reports():
    """every single boundary value of every field on an otherwise plain report; every single-field omission; the empty report"""
    out = [dict(BASE), {"class": "TPV", "mode": 1, "time": BASE["time"]}]
    for k in KEYS:
        t = dict(BASE)
        del t[k]
        out.append(t)
        for v in BOUNDARY[k]:
            t = dict(BASE)
            t[k] = v
            out.append(t)
    for ex in BOUNDARY["epx"]:
        for ey in (0.004, 3.25, 40.94, 60.0):
            out.append(dict(BASE, epx=ex, epy=ey))
    return out


def gen_history(rng, n=None):
    """reports of one receiver, one second apart, with VARYING field subsets (3D fix -> 2D fix -> position only ...):
    each later report is a random subset, biased towards shrinking"""
    n = n or rng.randrange(2, 6)
    out = []
    keep = set(KEYS)
    lat, lon = rng.uniform(-89, 89), rng.uniform(-179, 179)
    for i in range(n):
        style = rng.random()
        if i == 0 and style < 0.7:
            keep = set(KEYS)                                  # start from a full fix
        elif style < 0.45:
            keep = {k for k in keep if rng.random() < 0.6}    # shrink
        elif style < 0.7:
            keep = {k for k in KEYS if rng.random() < 0.5}    # any subset
        elif style < 0.85:
            keep = set()                                      # nothing but the time
        else:
            keep = set(KEYS)
        tpv = {"class": "TPV", "mode": 3, "time": None}
        for k in KEYS:
            if k in keep:
                tpv[k] = rand_value(rng, k)
        if rng.random() < 0.7:          # a moving station: small steps, so that the path history is exercised
            lat += rng.uniform(-2e-4, 2e-4)
            lon += rng.uniform(-2e-4, 2e-4)
            if "lat" in tpv:
                tpv["lat"] = max(-90.0, min(90.0, lat))
            if "lon" in tpv:
                tpv["lon"] = max(-180.0, min(180.0, lon))
        out.append(tpv)
    return out


SYSTEMATIC_HISTORIES = [
    # 3D fix, then 2D fix (altitude and its error estimate missing), then position only, then the full fix again
    [dict(BASE), {k: v for k, v in BASE.items() if k not in ("altHAE", "epv")},
     {"class": "TPV", "mode": 2, "lat": 41.3872, "lon": 2.1122}, dict(BASE, lat=41.3873)],
    [dict(BASE), {"class": "TPV", "mode": 1}],
    [dict(BASE), {"class": "TPV", "mode": 2, "lon": 3.0}],
    [dict(BASE), {k: v for k, v in BASE.items() if k != "epx"}, {k: v for k, v in BASE.items() if k != "epy"}],
    [{"class": "TPV", "mode": 2, "lat": 10.0, "lon": 20.0}, {"class": "TPV", "mode": 3, "altHAE": 7000.0, "speed": 3.0},
     {"class": "TPV", "mode": 2, "track": 10.0, "epd": 0.05}],
]


# ------------------------------------------------------------------------------------------------
# judging one message


def judge(kind, tpv, stype, role, msg, stack):
    """violations of the property for one message: [(what, finding-id)]"""
    out = []
    if msg.err:
        return [(f"{kind.upper()} generation fails: {msg.err}", None)]
    built, dec = msg.built, msg.dec
    keys = ["lat", "lon", "alt"] if kind == "denm" else ORDER
    for k in keys:
        if built[k] != dec[k]:
            out.append((f"{kind.upper()} {k}: builder intended {built[k]}, the encoded payload decodes to {dec[k]} (value outside its ASN.1 constraint wrapped)", None))
    for path, text in msg.diffs:
        leaf = path.rsplit("/", 1)[-1]
        if kind == "denm" and leaf in DENM_DROPPED_KEYS and "missing from the decoded payload" in text:
            out.append((f"DENM {text}", F_DENM_KEYS))
        elif not any(text in w for w, _ in out):
            out.append((f"{kind.upper()} does not decode to the message built: {text}", None))
    if kind != "denm" and dec["stype"] != stype:
        out.append((f"{kind.upper()} stationType {stype} decodes to {dec['stype']}", None))
    if kind == "cam" and dec["role"] is not None:
        want = CDD_VEHICLE_ROLES[role]
        if dec["role"] != want:
            out.append((f"CAM vehicleRole of a station with role {role} ({want}) decodes to {dec['role']}", None))
    for b in oracle_fields(kind, tpv, dec):
        out.append((f"{kind.upper()} {b}", None))
    return out


def report_violations(ctx, viols, what_suffix, case):
    for what, fid in [v for v in viols if v[1] is None][:2]:
        ctx.violation(what + what_suffix, case, None)
    seen = set()
    for what, fid in viols:
        if fid is not None and fid not in seen:      # once per message and known finding
            seen.add(fid)
            ctx.violation(what + what_suffix, case, fid)


def present(tpv):
    return dict((k, tpv[k]) for k in KEYS if k in tpv)


def cover_fields(ctx, kind, dec):
    if kind == "denm":
        return
    for k, code, name in (("alt", 800000, "alt_posOutOfRange"), ("alt", -100000, "alt_negOutOfRange"),
                          ("speed", 16382, "speed_outOfRange"), ("hconf", 126, "hconf_outOfRange"),
                          ("major", 4094, "axis_outOfRange"), ("hconf", 1, "hconf_floor"),
                          ("heading", 0, "heading_zero"), ("altconf", "outOfRange", "altconf_outOfRange"),
                          ("orient", 900, "ellipse_east_west"), ("orient", 0, "ellipse_north_south")):
        if dec[k] == code:
            ctx.cover(f"{kind}_{name}")


def check_monotone(ctx, tpv):
    """the explicit hypotheses `hmono` of heading_confidence_spec / ellipse_major_ge_minor_cam_vam / report_encodable, asserted
    on every sample: the double products e*10, e*100 are monotone in e (and 12.5*10 = 125 exactly)"""
    if "epd" in tpv and tpv["epd"] <= 12.5 and not tpv["epd"] * 10 <= 125:
        ctx.mismatch("hypothesis-hmono", {"epd": tpv["epd"]}, tpv["epd"] * 10, "<= 125")
    if "epx" in tpv and "epy" in tpv:
        a, b = sorted((tpv["epx"], tpv["epy"]))
        if not a * 100 <= b * 100:
            ctx.mismatch("hypothesis-hmono", {"epx": tpv["epx"], "epy": tpv["epy"]}, (a * 100, b * 100), "monotone")


class ModelBatch:
    """all model lines of a run go through ONE driver process (start-up dominates); every segment that uses the driver's
    state starts with `reset`"""

    def __init__(self, ctx):
        self.ctx, self.lines, self.handlers = ctx, [], []

    def add(self, lines, handler):
        if self.ctx.model_ok and lines:
            self.handlers.append((len(self.lines), len(lines), handler))
            self.lines += lines

    def flush(self):
        if not self.ctx.model_ok or not self.lines:
            return
        out = self.ctx.model("Mapping", self.lines)
        for start, n, handler in self.handlers:
            handler(out[start:start + n])
        self.lines, self.handlers = [], []


def check_reports(ctx, mb, stack, reports, tag):
    """stateless: a fresh station per report and message kind"""
    lines, expect = [], []
    for i, tpv in enumerate(reports):
        stype = ctx.rng.randrange(0, 16)
        role = ctx.rng.randrange(0, 16)
        ctx.cover(f"fields_present_{len(present(tpv))}")
        check_monotone(ctx, tpv)
        for kind in ("cam", "vam", "denm"):
            msg = stack.one(kind, tpv, stype, role)
            ctx.evals()
            report_violations(ctx, judge(kind, tpv, stype, role, msg, stack),
                              f"  [report {present(tpv)}; stationType {stype}" + (f", vehicleRole {role}]" if kind == "cam" else "]"),
                              {"kind": "report", "msg": kind, "tpv": tpv, "stype": stype, "role": role})
            if msg.built is not None:
                lines.append(model_line(kind, tpv))
                expect.append((kind, tpv, canon(kind, msg.built)))
            if msg.dec is not None:
                ctx.nontrivial((kind, canon(kind, msg.dec)))
                cover_fields(ctx, kind, msg.dec)
                if kind != "denm":
                    ctx.cover(f"{kind}_stationType_{stype}")
                if kind == "cam":
                    ctx.cover(f"cam_role_{role}")
        if i == 0 and len(expect) >= 3:
            ctx.sample("report", {"tpv": tpv, "cam": expect[-3][2]})
    def compare(out):
        for (kind, tpv, real), mo in zip(expect, out):
            if real != mo:
                ctx.mismatch(f"mapping/{kind}/{tag}", {"tpv": tpv}, real, mo)
    mb.add(lines, compare)


def run_history(stack, kind, hist, stype, role, clk):
    """the reports of `hist` on ONE station, one second apart -> [(tpv with time, Msg)]"""
    st = {"cam": lambda: CamStation(stack.cam_coder, stype, role), "vam": lambda: VamStation(stack.vam_coder, stype),
          "denm": lambda: DenmStation(stack.denm_coder, stype)}[kind]()
    out = []
    for tpv in hist:
        clk.advance(1001 + (7 * len(out)) % 50)
        tpv = dict(tpv, time=iso(clk.ms))
        msg = st.report_and_tick(tpv) if kind == "cam" else st.report(tpv)
        out.append((tpv, msg))
    return out


def check_histories(ctx, mb, stack, hists, clk, tag):
    lines, expect = [], []
    for hi, hist in enumerate(hists):
        stype = ctx.rng.randrange(0, 16)
        role = ctx.rng.randrange(0, 16)
        ctx.cover(f"history_len_{len(hist)}")
        for kind in ("cam", "vam", "denm"):
            res = run_history(stack, kind, hist, stype, role, clk)
            lines.append("reset")
            expect.append(None)
            for i, (tpv, msg) in enumerate(res):
                ctx.evals()
                shrunk = i > 0 and not set(present(tpv)) >= set(present(res[i - 1][0]))
                if shrunk:
                    ctx.cover(f"{kind}_history_fields_dropped")
                report_violations(
                    ctx, judge(kind, tpv, stype, role, msg, stack),
                    f"  [report #{i + 1} of a history of {len(hist)} on one {'transmission management' if kind != 'denm' else 'service'}: {present(tpv)}"
                    + (f"; previous report: {present(res[i - 1][0])}]" if i else "]"),
                    {"kind": "history", "msg": kind, "reports": [t for t, _ in res], "stype": stype, "role": role})
                if kind == "cam":
                    lines += ["camrep " + report_tokens(tpv), "camtick"]
                    expect += [("ok", kind, tpv), (canon(kind, msg.built) if msg.built else "no-message", kind, tpv)]
                elif kind == "vam":
                    lines.append(model_line("vam", tpv))
                    expect.append((canon(kind, msg.built) if msg.built else "no-message", kind, tpv))
                else:
                    lines.append("denmrep " + report_tokens(tpv))
                    expect.append((canon(kind, msg.built) if msg.built else "no-message", kind, tpv))
                if msg.dec is not None:
                    ctx.nontrivial((kind, canon(kind, msg.dec)))
                    cover_fields(ctx, kind, msg.dec)
                    if kind == "cam" and i > 0 and msg.dec["role"] is not None:
                        ctx.cover("cam_lf_container_in_later_cam")
        if hi == 0:
            ctx.sample("history", {"reports": [present(t) for t in hist]})
    def compare(out):
        for e, mo in zip(expect, out):
            if e is not None and e[0] != mo:
                ctx.mismatch(f"history/{e[1]}/{tag}", {"tpv": e[2]}, e[0], mo)
    mb.add(lines, compare)


def check_roles(ctx, mb, stack, clk, rounds=1):
    """every vehicle role: several generation attempts on ONE transmission management; no attempt may be skipped, the
    low-frequency container must carry the role; sequence compared with the model's send state"""
    lines, expect = [], []
    for rnd in range(rounds):
        for role in range(16):
            stype = ctx.rng.randrange(0, 16)
            gaps = [0] + [ctx.rng.choice([100, 200, 400, 499, 500, 600, 1000]) for _ in range(3 + rnd)]
            st = CamStation(stack.cam_coder, stype, role)
            tpv = gen_report(ctx.rng, clk.ms, 0.1)
            lines.append("reset")
            expect.append(None)
            now = clk.ms
            seq = []
            for g in gaps:
                now += g
                clk.ms = now
                msg = st.attempt(dict(tpv, time=iso(now)), now)
                ctx.evals()
                seq.append(now)
                case = {"kind": "roles", "role": role, "stype": stype, "tpv": tpv, "times": list(seq)}
                report_violations(ctx, judge("cam", tpv, stype, role, msg, stack),
                                  f"  [vehicle role {role} ({CDD_VEHICLE_ROLES[role]}), generation attempt #{len(seq)} on one transmission management]", case)
                real = "skipped" if msg.err else "sent " + (msg.dec["role"] if msg.dec and msg.dec["role"] is not None else "-")
                lines.append(f"tx {role} {now}")
                expect.append((real, role))
                ctx.cover(f"role_{role}_{'sent' if not msg.err else 'skipped'}")
            ctx.nontrivial(("role", role, tuple(gaps)))
    for r in range(16):
        lines.append(f"role {r}")
        expect.append((f"{stack.role_enum[r] if r < len(stack.role_enum) else '?'} {r}", r))
    def compare(out):
        for e, mo in zip(expect, out):
            if e is not None and e[0] != mo:
                ctx.mismatch("roles", {"role": e[1]}, e[0], mo)
    mb.add(lines, compare)


# ------------------------------------------------------------------------------------------------
# path history of the CAM low-frequency container over TRAJECTORIES (several reports on one transmission management)

DELTA_MIN, DELTA_MAX, DELTA_UNAVAILABLE = -131071, 131071, 131072   # TS 102 894-2 DeltaLatitude / DeltaLongitude
DELTA_ALT_UNAVAILABLE = 12800
PDT_MIN, PDT_MAX = 1, 65535                                          # PathDeltaTime, unit 10 ms
LF_PATH_MAX = 23                                                     # EN 302 637-2: pathHistory of up to 23 points
PATH_STORE = 40
DE_LIMITS = [-131073, -131072, -131071, -131070, 131070, 131071, 131072, 131073]


def read_ms(clk):
    """the millisecond the transmission management reads from the clock (`int(TimeService.time() * 1000)`)"""
    return int((clk.ms / 1000.0) * 1000)


def oracle_path(tpv, now_ms, earlier, path):
    """CDD reading of the decoded pathHistory against the harness' own record `earlier` = [(lat, lon, t_ms)] (oldest first)
    of the reports for which a CAM was handed to BTP.  Intent of the service: point i = the i-th newest earlier position
    as an offset from the position of this CAM, its age in 10 ms; deltaAltitude unavailable (altitude is not tracked)."""
    bad = []
    if path is None:
        return bad
    if len(path) > LF_PATH_MAX:
        bad.append(f"{len(path)} path points, the low-frequency container allows {LF_PATH_MAX}")
    if path and ("lat" not in tpv or "lon" not in tpv):
        return bad + [f"{len(path)} path points in a CAM whose report has no position"]
    prev = list(reversed(earlier))
    if len(path) > len(prev):
        bad.append(f"{len(path)} path points but only {len(prev)} earlier CAM positions")
    for i, (dlat, dlon, dalt, pdt) in enumerate(path[:len(prev)]):
        hlat, hlon, ht = prev[i]
        for name, d, h, c in (("deltaLatitude", dlat, hlat, tpv["lat"]), ("deltaLongitude", dlon, hlon, tpv["lon"])):
            exact = (Fraction(h) - Fraction(c)) * 10_000_000      # the offset of the two reported doubles, exactly
            if not DELTA_MIN <= d <= DELTA_UNAVAILABLE:
                bad.append(f"point {i}: {name} {d} outside the constraint {DELTA_MIN}..{DELTA_UNAVAILABLE}")
            elif d == DELTA_UNAVAILABLE:
                if exact <= DELTA_MAX:
                    bad.append(f"point {i}: {name} is `unavailable` for a representable offset of {float(exact):.3f} units")
            elif abs(d - exact) >= 1 + EPS:
                bad.append(f"point {i}: {name} {d} for an offset of {float(exact):.3f} units to the CAM position {i + 1} back "
                           f"({h!r} seen from {c!r})")
        if dalt != DELTA_ALT_UNAVAILABLE:
            bad.append(f"point {i}: deltaAltitude {dalt} although no altitude history is kept (unavailable is {DELTA_ALT_UNAVAILABLE})")
        age = (now_ms - ht) / 10.0
        if pdt is None or not PDT_MIN <= pdt <= PDT_MAX:
            bad.append(f"point {i}: pathDeltaTime {pdt} outside {PDT_MIN}..{PDT_MAX}")
        elif abs(pdt - min(max(age, PDT_MIN), PDT_MAX)) > 1.2 and not (age >= PDT_MAX - 1 and pdt >= PDT_MAX - 1):
            bad.append(f"point {i}: pathDeltaTime {pdt} (x 10 ms) for a position {age * 10:.0f} ms old")
    return bad


def run_trajectory(stack, steps, stype, role, clk, ldm_kind="none"):
    """`steps` = [(gap_ms, tpv)] on ONE CAM transmission management: after each report one generation (a T_CheckCamGen
    expiry when the gap exceeds T_GenCamMax, else a direct generation attempt: dynamics triggered).
    The transmission management has the LDM adapter `ldm_kind` (none / stub / the repository's adapter over a real LDM).
    -> (station, [(tpv, now_gen, now_read, msg, earlier, store_len)])"""
    st = CamStation(stack.cam_coder, stype, role, make_ldm(ldm_kind, "cam"))
    earlier, out = [], []
    for gap, tpv in steps:
        clk.advance(gap)
        tpv = dict(tpv, time=iso(clk.ms))
        snap = list(earlier)
        n0 = len(st.cap.sent)
        if gap >= 1001:
            now_gen = read_ms(clk)
            msg = st.report_and_tick(tpv)
        else:
            now_gen = clk.ms
            msg = st.attempt(tpv, now_gen)
        if len(st.cap.sent) > n0 and "lat" in tpv and "lon" in tpv:
            earlier.append((tpv["lat"], tpv["lon"], now_gen))
        if st.ldm is not None and not msg.err:
            want = len(st.cap.sent)
            if len(st.ldm.fed) != want:
                msg.diffs.append(("/ldm", f"{len(st.ldm.fed)} messages fed to the LDM adapter after {want} CAMs handed to BTP"))
            elif want > n0:
                d = tree_diff(st.ldm.fed[-1], st.rec.last)
                if d:
                    msg.diffs.append(("/ldm", f"the message fed to the LDM adapter is not the CAM handed to BTP: {d[0][1]}"))
        out.append((tpv, now_gen, read_ms(clk), msg, snap, len(st.tm._path_history)))
    return st, out


def show_path(path):
    return " ".join([str(len(path))] + [f"{a},{b},{c},{d}" for a, b, c, d in path])


def _base(rng):
    lat, lon = rng.uniform(-89, 89), rng.uniform(-179, 179)
    if rng.random() < 0.5:
        lat, lon = round(lat, rng.choice([0, 4, 7])), round(lon, rng.choice([0, 4, 7]))
    return lat, lon


def _moving(rng, lat, lon, extra=True):
    t = {"class": "TPV", "mode": 3, "lat": lat, "lon": lon, "speed": rng.choice([0.0, 13.9, 91.4]), "track": rng.choice([0.0, 90.0, 271.3])}
    if extra and rng.random() < 0.3:
        for k in ("altHAE", "epx", "epy", "epv", "epd"):
            if rng.random() < 0.5:
                t[k] = rand_value(rng, k)
    return t


def traj_limit(rng, axis=None, d=None, n_mid=None, still=None, base=None):
    """a CAM at P, `n_mid` CAMs on the way, then the vehicle stands at Q from where P is seen at a rounded offset of `d`
    units (a limit of DeltaLatitude / DeltaLongitude or a neighbour) on `axis`"""
    lat0, lon0 = base or _base(rng)
    axis = axis or rng.choice(["lat", "lon", "both"])
    d = d if d is not None else rng.choice(DE_LIMITS)
    n_mid = rng.randrange(0, 4) if n_mid is None else n_mid
    still = rng.randrange(1, 5) if still is None else still
    other = rng.randrange(-3000, 3000)
    dlat = d if axis in ("lat", "both") else other
    dlon = (d if axis != "both" else rng.choice([d, -d, other])) if axis in ("lon", "both") else other
    qlat, qlon = lat0 - dlat * 1e-7, lon0 - dlon * 1e-7
    pts = [(lat0, lon0)] + [(lat0 + (qlat - lat0) * k / (n_mid + 1), lon0 + (qlon - lon0) * k / (n_mid + 1)) for k in range(1, n_mid + 1)]
    pts += [(qlat, qlon)] * (1 + still)
    gaps = [rng.choice([1001, 1001, 1500, 600])] * len(pts)
    return [(g, _moving(rng, la, lo, extra=False)) for g, (la, lo) in zip(gaps, pts)]


def traj_uniform(rng):
    """uniform motion: after k equal steps the first CAM position is `total` units away, then standstill"""
    lat0, lon0 = _base(rng)
    k = rng.choice([1, 2, 4, 8, 16, rng.randrange(1, 23)])
    total = rng.choice(DE_LIMITS)
    axis = rng.choice(["lat", "lon"])
    step = total / k * 1e-7
    pts = [(lat0 - i * step, lon0) if axis == "lat" else (lat0, lon0 - i * step) for i in range(k + 1)]
    pts += [pts[-1]] * rng.randrange(1, 4)
    return [(1001, _moving(rng, la, lo, extra=False)) for la, lo in pts]


def traj_walk(rng, n=None, holes=0.0, gaps=(100, 300, 499, 500, 600, 1001, 1500)):
    """a random walk with mixed generation gaps; `holes`: probability that a report lacks lat and/or lon"""
    lat, lon = _base(rng)
    n = n or rng.randrange(3, 9)
    big = rng.random() < 0.3
    out = []
    for _ in range(n):
        t = _moving(rng, lat, lon)
        if rng.random() < holes:
            for k in rng.choice([("lat",), ("lon",), ("lat", "lon")]):
                del t[k]
        out.append((rng.choice(gaps), t))
        s = 60000 if big else 3000
        lat = max(-89.9, min(89.9, lat + rng.randrange(-s, s + 1) * 1e-7))
        lon = max(-179.9, min(179.9, lon + rng.randrange(-s, s + 1) * 1e-7))
    return out


def gen_trajectory(rng):
    r = rng.random()
    if r < 0.35:
        return traj_limit(rng)
    if r < 0.55:
        return traj_uniform(rng)
    if r < 0.75:
        return traj_walk(rng)
    if r < 0.85:
        return traj_walk(rng, holes=0.35)
    if r < 0.93:
        return traj_walk(rng, n=rng.randrange(3, 6), gaps=(1001, 5000, 60_000, 655_000, 655_340, 655_350, 700_000, 10_000_000))
    return traj_walk(rng, n=rng.randrange(24, 48))


def systematic_trajectories():
    """every limit of DeltaLatitude / DeltaLongitude and its neighbours, on each axis, reached directly and over two CAMs on
    the way, followed by a standstill; a store longer than the low-frequency container and longer than the store itself"""
    rng = _random.Random(11)
    out = []
    for axis in ("lat", "lon"):
        for d in DE_LIMITS:
            for n_mid in (0, 2):
                out.append(traj_limit(rng, axis, d, n_mid, 3, base=(41.3851234, 2.1734035) if n_mid else (60.0, 2.0)))
    out.append(traj_walk(_random.Random(12), n=46, gaps=(1001,)))
    out.append([(1001, {"class": "TPV", "mode": 3, "lat": 10.0, "lon": 20.0}), (1001, {"class": "TPV", "mode": 1}),
                (1001, {"class": "TPV", "mode": 3, "lat": 10.001, "lon": 20.0}), (1001, {"class": "TPV", "mode": 2, "lat": 10.001})])
    return out


def judge_trajectory_step(tpv, now_read, msg, earlier, stype, role, stack):
    viols = judge("cam", tpv, stype, role, msg, stack)
    if msg.dec is not None:
        viols += [(f"CAM pathHistory: {b}", None) for b in oracle_path(tpv, now_read, earlier, msg.dec["path"])]
    return viols


def check_trajectories(ctx, mb, stack, trajs, clk, tag):
    lines, expect = [], []
    for ti, steps in enumerate(trajs):
        stype = ctx.rng.randrange(0, 16)
        role = ctx.rng.randrange(0, 16)
        ldm_kind = LDM_KINDS[ti % 3]
        st, res = run_trajectory(stack, steps, stype, role, clk, ldm_kind)
        ctx.cover(f"cam_ldm_{ldm_kind}")
        lines.append("reset")
        expect.append(None)
        case = {"kind": "trajectory", "steps": [[g, {k: v for k, v in t.items() if k != "time"}] for g, t in steps], "stype": stype,
                "role": role, "ldm": ldm_kind}
        ctx.cover("trajectory_len_%s" % ("41+" if len(steps) > 40 else "24..40" if len(steps) >= 24 else len(steps)))
        for i, (tpv, now_gen, now_read, msg, earlier, store_len) in enumerate(res):
            ctx.evals()
            pos = "lat" in tpv and "lon" in tpv
            viols = judge_trajectory_step(tpv, now_read, msg, earlier, stype, role, stack)
            report_violations(ctx, viols,
                              f"  [report #{i + 1} of a trajectory of {len(steps)} reports on one transmission management: "
                              f"{ {k: tpv[k] for k in ('lat', 'lon') if k in tpv} }; CAMs sent before: {len(earlier)}"
                              + (f", the last at {earlier[-1][:2]}]" if earlier else "]"), case)
            # model: the store as the harness recorded it, seen from the reported position by the code's double arithmetic
            offs = []
            if pos:
                for hlat, hlon, ht in list(reversed(earlier))[:PATH_STORE]:
                    offs.append(f"{fr((hlat - tpv['lat']) * 10_000_000)}:{fr((hlon - tpv['lon']) * 10_000_000)}:{fr((now_read - ht) / 10)}")
                    for dd in (round((hlat - tpv["lat"]) * 10_000_000), round((hlon - tpv["lon"]) * 10_000_000)):
                        if dd in DE_LIMITS:
                            ctx.cover(f"path_offset_{dd}")
            lines.append(f"phtick {now_gen} {1 if pos else 0} " + " ".join(offs))
            if msg.payload is None:
                real = f"skipped hist={store_len}"
                ctx.cover("trajectory_cam_skipped")
            else:
                path = msg.built["path"] if msg.built else None
                real = "sent " + ("-" if path is None else show_path(path)) + f" hist={store_len}"
                if path is not None:
                    ctx.cover("path_points_%s" % (len(path) if len(path) < 3 else "3..22" if len(path) < LF_PATH_MAX else LF_PATH_MAX))
                    if pos and len(path) < min(len(earlier), LF_PATH_MAX):
                        ctx.cover("path_cut_at_range_limit")
                    if any(p[3] in (1, 65534) for p in path):
                        ctx.cover("path_delta_time_clamped")
                if msg.dec is not None:
                    ctx.nontrivial(("path", tuple(msg.dec["path"] or ())))
            if store_len >= PATH_STORE:
                ctx.cover("path_store_full")
            expect.append((real, tpv))
        if ti == 0:
            ctx.sample("trajectory", case)

    def compare(out):
        for e, mo in zip(expect, out):
            if e is not None and e[0] != mo:
                ctx.mismatch(f"trajectory/{tag}", {"tpv": present(e[1])}, e[0], mo)
    mb.add(lines, compare)


# ------------------------------------------------------------------------------------------------
# generationDeltaTime, sender and receiver side

AGES = (0, 1, 2, 65000, 65534, 65535)


def wrap_base(base=T0):
    """the first instant >= base whose generationDeltaTime is 0"""
    return base + (65536 - ((base - ITS_EPOCH_MS + LEAP_MS) % 65536)) % 65536


def check_gdt(ctx, mb, n, extra=()):
    G = ctm.GenerationDeltaTime
    stamps = list(extra) + [1_700_000_000_123, 2172654871173, 2172654871002, 2187050824983, 1085657168896, ITS_EPOCH_MS - LEAP_MS, ITS_EPOCH_MS]
    eras = [(1_600_000_000_000, 1_900_000_000_000), (2_147_000_000_000, 2_200_000_000_000), (ITS_EPOCH_MS, 4_102_444_800_000)]
    for _ in range(n):
        lo, hi = ctx.rng.choice(eras)
        stamps.append(ctx.rng.randrange(lo, hi))
    for base in (wrap_base(), wrap_base(2_172_000_000_000)):
        for k in range(-150, 150):        # around a wrap of generationDeltaTime (gdt 65535 -> 0)
            stamps.append(base + k)
    lines, reals = [], []
    for g in stamps:
        want = (g - ITS_EPOCH_MS + LEAP_MS) % 65536
        got = G.from_timestamp(g / 1000).msec
        ctx.evals()
        if got != want:
            ctx.violation(f"generationDeltaTime of UTC {g} ms is {got}, TimestampIts mod 65536 is {want}",
                          {"kind": "gdt", "ms": g})
        lines.append(f"gdt {g}")
        reals.append(str(got))
        lines.append(f"ms {fr((g / 1000) * 1_000_000)}")          # the model's reading of the same float of seconds
        reals.append(("ms", got))
        if len(stamps) and ctx.rng.random() < 0.1:                 # a timestamp between two milliseconds
            t = (g + ctx.rng.choice([0.25, 0.5, 0.75, 0.999])) / 1000
            lines.append(f"ms {fr(t * 1_000_000)}")
            reals.append(("ms", G.from_timestamp(t).msec))
            ctx.cover("gdt_sub_millisecond_stamps")
        if want in (0, 65535):
            ctx.cover(f"gdt_value_{want}")
        # receiver side: any reception time within 65.536 s after generation reconstructs the generation time
        for age in AGES + (ctx.rng.randrange(0, 65536),):
            rx = g + age
            rec = G(msec=want).as_timestamp_in_certain_point(rx)
            ctx.evals()
            if age in (0, 1, 65535):
                ctx.cover(f"rec_age_{age}")
            if rec != g:
                ctx.violation(f"receiver at {rx} ms reconstructs {rec} from generationDeltaTime {want}, generated at {g} (age {age} ms, error {rec - g} ms)",
                              {"kind": "rec", "ms": g, "age": age})
            lines.append(f"rec {want} {rx}")
            reals.append(str(int(rec)))
        ctx.nontrivial(("gdt", want))
    ctx.cover("gdt_stamps", len(stamps))
    def compare(out):
        for ln, r, mo in zip(lines, reals, out):
            if isinstance(r, tuple):        # model's millisecond -> its generationDeltaTime must be the real one
                mo, r = str((int(mo) - ITS_EPOCH_MS + LEAP_MS) % 65536), str(r[1])
            if r != mo:
                ctx.mismatch("gdt", ln, r, mo)
    mb.add(lines, compare)


def rx_once(stack, kind, g, age, clk, ldm_kind="real"):
    """a CAM / VAM generated at UTC ms `g` (clock and report time), its payload handed to the real reception management
    (with the repository's LDM adapter over a real LDM) when the clock shows g + age
    -> (reconstructed utc_timestamp | None, error)"""
    tpv = {"class": "TPV", "mode": 3, "time": iso(g), "lat": 41.0, "lon": 2.0, "speed": 1.0}
    clk.ms = g
    msg = stack.one(kind, tpv, 5 if kind == "cam" else 1, 0)
    if msg.err or msg.payload is None:
        return None, msg.err or "no payload"
    got = []
    ldm = make_ldm(ldm_kind, kind)
    try:
        if kind == "cam":
            rx = crm.CAMReceptionManagement(stack.cam_coder, Cap(), ldm)
            rx.add_application_callback(lambda cam: got.append(cam["utc_timestamp"]))
        else:
            rx = vrm.VAMReceptionManagement(stack.vam_coder, Cap(), ldm, None)
        clk.ms = g + age
        rx.reception_callback(BTPDataIndication(data=msg.payload, length=len(msg.payload)))
    except Exception as e:
        return None, f"reception raised {type(e).__name__}: {str(e)[:160]}"
    if ldm is not None:
        if len(ldm.fed) != 1:
            return None, f"the reception management fed {len(ldm.fed)} messages to the LDM adapter"
        fed = ldm.fed[0]
        if "utc_timestamp" not in fed:
            return None, "the message fed to the LDM carries no utc_timestamp"
        body = {k: v for k, v in fed.items() if k != "utc_timestamp"}
        d = tree_diff(norm(stack.cam_coder.decode(msg.payload) if kind == "cam" else stack.vam_coder.decode(msg.payload)), body)
        if d:
            return None, f"the message fed to the LDM is not the message received: {d[0][1]}"
        if got and int(got[0]) != int(fed["utc_timestamp"]):
            return None, f"LDM dated {fed['utc_timestamp']}, application callback {got[0]}"
        got = got or [fed["utc_timestamp"]]
    if not got:
        return None, "the reception management delivered nothing"
    return int(got[0]), None


def check_rx(ctx, mb, stack, clk, n, extra=()):
    """the real reception path: the receiver's own clock reading is inside the tie"""
    stamps = [2172654871002, 2172654871005, T0, wrap_base(), wrap_base() - 1] + [c for c in extra]
    eras = [(1_600_000_000_000, 1_900_000_000_000), (2_147_000_000_000, 2_200_000_000_000)]
    for _ in range(n):
        lo, hi = ctx.rng.choice(eras)
        stamps.append(ctx.rng.randrange(lo, hi))
    lines, reals = [], []
    for i, g in enumerate(stamps):
        for kind in ("cam", "vam"):
            for age in (0, 1, 65535) if i < 8 else (0, ctx.rng.choice([1, 65535, ctx.rng.randrange(0, 65536)])):
                rec, err = rx_once(stack, kind, g, age, clk)
                ctx.evals()
                ctx.cover(f"rx_{kind}")
                case = {"kind": "rx", "msg": kind, "ms": g, "age": age}
                if err:
                    ctx.violation(f"{kind.upper()} generated at {g} ms, received {age} ms later: {err}", case)
                    continue
                if rec != g:
                    ctx.violation(f"{kind.upper()} generated at UTC {g} ms ({iso(g)}) and received {age} ms later: the reception management "
                                  f"reconstructs generation time {rec} ms (error {rec - g} ms)", case)
                r = g + age
                t = r / 1000.0
                lines.append(f"rxrec {kind} {(g - ITS_EPOCH_MS + LEAP_MS) % 65536} {fr(t * 1000)} {fr(t * 1_000_000)}")
                reals.append(str(rec))

    def compare(out):
        for ln, r, mo in zip(lines, reals, out):
            if r != mo:
                ctx.mismatch("rx", ln, r, mo)
    mb.add(lines, compare)


# ------------------------------------------------------------------------------------------------
# the VAM between construction and BTP: clustering state x LDM adapter


class LdmRecorder:
    """an LDM adapter that records what it is fed; `inner` = the repository's own adapter over a real LDM (None: stub)"""

    def __init__(self, inner=None):
        self.inner, self.fed = inner, []

    def add_provider_data_to_ldm(self, msg):
        self.fed.append(norm(msg))
        if self.inner is not None:
            self.inner.add_provider_data_to_ldm(msg)


LDM_KINDS = ("none", "stub", "real")


def make_ldm(kind, which):
    """which = "vam" | "cam": the repository's VRUBasicServiceLDM / CABasicServiceLDM over an LDM facility (dictionary
    data base, reactive maintenance and service: no threads, no files), as VRUAwarenessService / CABasicService wire it"""
    if kind == "none":
        return None
    if kind == "stub":
        return LdmRecorder()
    from flexstack.facilities.local_dynamic_map.factory import LDMFactory
    from flexstack.facilities.local_dynamic_map.ldm_classes import Location, AccessPermission
    logging.getLogger("local_dynamic_map").setLevel(logging.CRITICAL + 10)
    ldm = LDMFactory().create_ldm(Location.initializer(latitude=413851234, longitude=21734035), "Reactive", "Reactive", "Dictionary")
    if which == "vam":
        from flexstack.facilities.vru_awareness_service.vam_ldm_adaptation import VRUBasicServiceLDM
        return LdmRecorder(VRUBasicServiceLDM(ldm, (AccessPermission.VAM,), 5))
    from flexstack.facilities.ca_basic_service.cam_ldm_adaptation import CABasicServiceLDM
    return LdmRecorder(CABasicServiceLDM(ldm, (AccessPermission.CAM,), 5))


def _leader_vam(coder, sid, cid, g, op=None):
    """a cluster VAM of a neighbouring leader (through the repository's coder, as the reception management delivers it)"""
    m = vtm.VAMMessage()
    m.fullfill_with_device_data(vtm.DeviceDataProvider(station_id=sid, station_type=1))
    m.fullfill_with_tpv_data({"time": iso(g), "lat": 41.00001, "lon": 2.0, "speed": 1.0, "track": 90.0})
    params = m.vam["vam"]["vamParameters"]
    params["vruClusterInformationContainer"] = {"vruClusterInformation": {
        "clusterId": cid, "clusterBoundingBoxShape": ("circular", {"radius": 5}), "clusterCardinalitySize": 3}}
    if op:
        params["vruClusterOperationContainer"] = op
    return coder.decode(coder.encode(m.vam))


def _member_vam(coder, sid, g, op):
    m = vtm.VAMMessage()
    m.fullfill_with_device_data(vtm.DeviceDataProvider(station_id=sid, station_type=1))
    m.fullfill_with_tpv_data({"time": iso(g), "lat": 41.00002, "lon": 2.0, "speed": 1.0, "track": 90.0})
    m.vam["vam"]["vamParameters"]["vruClusterOperationContainer"] = op
    return coder.decode(coder.encode(m.vam))


CID, JOIN_CID = 77, 55
R = vcl.ClusterLeaveReason
B = vcl.ClusterBreakupReason


def _to_leader(stack, cm, now):
    for k in range(3):
        cm.on_received_vam(_neighbour_vam(stack.vam_coder, 100 + k, 41.0 + 1e-6 * k, 2.0, T0))
    if not cm.try_create_cluster(41.0, 2.0):
        raise Infra("cluster recipe: try_create_cluster refused")


def _to_waiting(stack, cm, now):
    if not cm.initiate_join(JOIN_CID):
        raise Infra("cluster recipe: initiate_join refused")
    now[0] += 3.0
    cm.update(41.0, 2.0, 1.0, 90.0)


def _to_passive(stack, cm, now):
    _to_waiting(stack, cm, now)
    cm.on_received_vam(_leader_vam(stack.vam_coder, 200, JOIN_CID, T0))
    if cm.state is not vcl.VBSState.VRU_PASSIVE:
        raise Infra("cluster recipe: the join was not completed")


def _r_idle(stack, cm, now):
    cm.set_vru_role_off()


def _r_idle_on(stack, cm, now):
    cm.set_vru_role_off()
    cm.set_vru_role_on()


def _r_join_notify(stack, cm, now):
    if not cm.initiate_join(JOIN_CID):
        raise Infra("cluster recipe: initiate_join refused")
    now[0] += 1.0


def _r_join_cancelled(stack, cm, now):
    _r_join_notify(stack, cm, now)
    cm.cancel_join()


def _r_join_failed(stack, cm, now):
    _to_waiting(stack, cm, now)
    now[0] += 0.5
    cm.update(41.0, 2.0, 1.0, 90.0)


def _r_passive_leave(stack, cm, now):
    _to_passive(stack, cm, now)
    cm.trigger_leave_cluster(R.SAFETY_CONDITION)


def _r_leader_lost(stack, cm, now):
    _to_passive(stack, cm, now)
    now[0] += 2.0
    cm.update(41.0, 2.0, 1.0, 90.0)


def _r_disbanded(stack, cm, now):
    _to_passive(stack, cm, now)
    cm.on_received_vam(_leader_vam(stack.vam_coder, 200, JOIN_CID, T0, {"clusterBreakupInfo": {
        "clusterBreakupReason": "clusteringPurposeCompleted", "breakupTime": 4}}))


def _r_leader_members(stack, cm, now):
    _to_leader(stack, cm, now)
    for sid in (301, 302):
        cm.on_received_vam(_member_vam(stack.vam_coder, sid, T0, {"clusterJoinInfo": {"clusterId": CID, "joinTime": 4}}))


def _r_leader_member_left(stack, cm, now):
    _r_leader_members(stack, cm, now)
    cm.on_received_vam(_member_vam(stack.vam_coder, 301, T0, {"clusterLeaveInfo": {"clusterId": CID, "clusterLeaveReason": "notProvided"}}))


def _r_breakup(stack, cm, now):
    _to_leader(stack, cm, now)
    if not cm.trigger_breakup_cluster(B.ENTERING_LOW_RISK_AREA):
        raise Infra("cluster recipe: trigger_breakup_cluster refused")
    now[0] += 1.0


def _r_breakup_done(stack, cm, now):
    _r_breakup(stack, cm, now)
    now[0] += 2.5
    cm.update(41.0, 2.0, 1.0, 90.0)


def _info(card):
    return {"id": CID, "radius": 5, "card": card}


# name -> (preparation of a fresh clustering manager | None: no manager, what TS 103 300-3 clause 5.4 / 6 asks of the next
# VAM: transmitted?, cluster information container, cluster operation container)
VAM_STATES = {
    "no_manager": (None, True, None, None),
    "standalone": (lambda *a: None, True, None, None),
    "idle": (_r_idle, False, None, None),
    "idle_then_role_on": (_r_idle_on, True, None, None),
    "join_notify": (_r_join_notify, True, None, {"clusterJoinInfo": {"clusterId": JOIN_CID, "joinTime": 8}}),
    "join_waiting": (_to_waiting, True, None, None),
    "join_cancelled": (_r_join_cancelled, True, None, {"clusterLeaveInfo": {"clusterId": JOIN_CID, "clusterLeaveReason": "cancelledJoin"}}),
    "join_failed": (_r_join_failed, True, None, {"clusterLeaveInfo": {"clusterId": JOIN_CID, "clusterLeaveReason": "failedJoin"}}),
    "passive": (_to_passive, False, None, None),
    "passive_leaving": (_r_passive_leave, True, None, {"clusterLeaveInfo": {"clusterId": JOIN_CID, "clusterLeaveReason": "safetyCondition"}}),
    "passive_leader_lost": (_r_leader_lost, True, None, {"clusterLeaveInfo": {"clusterId": JOIN_CID, "clusterLeaveReason": "clusterLeaderLost"}}),
    "passive_disbanded": (_r_disbanded, True, None, {"clusterLeaveInfo": {"clusterId": JOIN_CID, "clusterLeaveReason": "clusterDisbandedByLeader"}}),
    "leader": (_to_leader, True, _info(1), None),
    "leader_two_joining": (_r_leader_members, True, _info(3), None),
    "leader_one_left": (_r_leader_member_left, True, _info(2), None),
    "leader_breakup_warning": (_r_breakup, True, _info(1), {"clusterBreakupInfo": {"clusterBreakupReason": "enteringLowRiskAreaBasedOnMaps", "breakupTime": 8}}),
    "leader_breakup_done": (_r_breakup_done, True, None, None),
}

_VBS_NAMES = {"VRU_IDLE": "idle", "VRU_ACTIVE_STANDALONE": "standalone", "VRU_ACTIVE_CLUSTER_LEADER": "leader", "VRU_PASSIVE": "passive"}


def cl_tokens(cm):
    """what the model's `ClState` abstracts of the manager (read from its attributes)"""
    if cm is None:
        return "none 0 0 none 0"
    cl = cm._cluster
    return " ".join([_VBS_NAMES[cm._state.name], "1" if cl is not None else "0",
                     "1" if cl is not None and cl.breakup_started is not None else "0", cm._join_substate.name.lower(),
                     "1" if cm._leave_substate is vcl._LeaveSubstate.NOTIFY else "0"])


def vam_state_run(stack, state, ldm_kind, reports, stype, clk):
    """a fresh VAM transmission management with the clustering manager brought into `state` and the LDM adapter
    `ldm_kind`; `reports` one after the other (T_GenVam apart) -> [(tpv, Msg, fed messages, model tokens)]"""
    prep = VAM_STATES[state][0]
    now = [1000.0]
    cm = None
    if prep is not None:
        saved = vcl.random
        vcl.random = _FixedRandom(CID)
        try:
            cm = vcl.VBSClusteringManager(own_station_id=12, time_fn=lambda: now[0])
            prep(stack, cm, now)
        finally:
            vcl.random = saved
    ldm = make_ldm(ldm_kind, "vam")
    st = VamStation(stack.vam_coder, stype, cm, ldm)
    out = []
    for tpv in reports:
        clk.advance(1001)
        tpv = dict(tpv, time=iso(clk.ms))
        tokens = cl_tokens(cm)
        n0 = len(ldm.fed) if ldm else 0
        msg = st.report(tpv)
        out.append((tpv, msg, (ldm.fed[n0:] if ldm else []), tokens))
    return out


def containers_of(d):
    """(cluster information, cluster operation) of a VAM dict in a comparable form"""
    if d is None:
        return None, None
    p = d["vam"]["vamParameters"]
    info = p.get("vruClusterInformationContainer")
    if info is not None:
        ci = info["vruClusterInformation"]
        shape = ci.get("clusterBoundingBoxShape")
        info = {"id": ci.get("clusterId"), "radius": shape[1].get("radius") if shape and shape[0] == "circular" else None,
                "card": ci.get("clusterCardinalitySize")}
    return info, p.get("vruClusterOperationContainer")


def judge_vam_state(state, ldm_kind, tpv, msg, fed, stype, stack, decoded):
    """TS 103 300-3: who transmits (Table 1 / clause 6.3), which containers the VAM carries (clauses 7.3.5, 7.3.6), and the
    property's own clauses for the report-derived part; the LDM adapter is fed the message that went to BTP"""
    _, tx, want_info, want_op = VAM_STATES[state]
    tag = f"VAM of a VRU in clustering state `{state}` with LDM adapter `{ldm_kind}`"
    if not tx:
        if msg.payload is not None:
            return [(f"{tag}: a VAM was transmitted although the state forbids it", None)]
        if msg.err and "raised" in msg.err:
            return [(f"{tag}: {msg.err}", None)]
        return []
    out = [(f"{tag}: {w}", f) for w, f in judge("vam", tpv, stype, 0, msg, stack)]
    if decoded is None:
        return out
    info, op = containers_of(decoded)
    if info != want_info:
        out.append((f"{tag}: cluster information container {info}, expected {want_info}", None))
    if (op is None) != (want_op is None) or (op is not None and set(op) != set(want_op)):
        out.append((f"{tag}: cluster operation container {op}, expected {want_op}", None))
    elif op is not None:
        for k, w in want_op.items():
            for f, v in w.items():
                got = op[k].get(f)
                ok = abs(got - v) <= 1 and 1 <= got <= 127 if f in ("joinTime", "breakupTime") and isinstance(got, int) else got == v
                if not ok:
                    out.append((f"{tag}: {k}.{f} is {got!r}, expected {v!r}", None))
    if ldm_kind != "none":
        if len(fed) != 1:
            out.append((f"{tag}: the LDM adapter was fed {len(fed)} messages for one VAM", None))
        else:
            body = {k: v for k, v in fed[0].items() if k != "utc_timestamp"}
            d = tree_diff(body, norm(decoded))
            if d:
                out.append((f"{tag}: the message fed to the LDM differs from the VAM handed to BTP: {d[0][1]}", None))
    return out


def check_vam_states(ctx, mb, stack, clk, rounds=1, states=None):
    lines, expect = [], []
    for rnd in range(rounds):
        for state in (states or VAM_STATES):
            for ldm_kind in LDM_KINDS:
                stype = ctx.rng.randrange(0, 16)
                reports = [dict(BASE) if rnd == 0 else gen_report(ctx.rng, None, 0.1), gen_report(ctx.rng, None, ctx.rng.choice([0.0, 0.3]))]
                try:
                    res = vam_state_run(stack, state, ldm_kind, reports, stype, clk)
                except Infra:
                    raise
                for i, (tpv, msg, fed, tokens) in enumerate(res):
                    ctx.evals()
                    decoded = None
                    if msg.payload is not None and not msg.err:
                        decoded = stack.vam_coder.decode(msg.payload)
                    case = {"kind": "vamstate", "state": state, "ldm": ldm_kind, "stype": stype,
                            "reports": [{k: v for k, v in t.items() if k != "time"} for t, _, _, _ in res[:i + 1]]}
                    report_violations(ctx, judge_vam_state(state, ldm_kind, tpv, msg, fed, stype, stack, decoded),
                                      f"  [report #{i + 1}: {present(tpv)}]", case)
                    if msg.payload is not None:
                        info, op = containers_of(decoded) if decoded else (None, None)
                        real = f"sent {1 if info else 0} {1 if op else 0} {1 if fed else 0}"
                    elif msg.err and "raised" in msg.err:
                        real = "fail"
                    else:
                        real = "silent"
                    ctx.cover(f"vam_state_{state}")
                    ctx.cover(f"vam_ldm_{ldm_kind}_{real.split()[0]}")
                    ctx.nontrivial(("vamstate", state, ldm_kind, real))
                    lines.append(f"vamsend {tokens} {0 if ldm_kind == 'none' else 1}")
                    expect.append((real, state, ldm_kind))

    def compare(out):
        for e, mo in zip(expect, out):
            if e[0] != mo:
                ctx.mismatch("vam-send", {"state": e[1], "ldm": e[2]}, e[0], mo)
    mb.add(lines, compare)


# ------------------------------------------------------------------------------------------------
# the model of asn1tools' constrained-INTEGER encoding vs asn1tools

UPER_FIELDS = [("lat", -900000000, 900000001), ("lon", -1800000000, 1800000001), ("major", 0, 4095), ("minor", 0, 4095),
               ("orient", 0, 3601), ("alt", -100000, 800001), ("heading", 0, 3601), ("hconf", 1, 127), ("speed", 0, 16383),
               ("gdt", 0, 65535), ("stype", 0, 255), ("radius", 0, 4095), ("card", 0, 255), ("one", 5, 5)]
_UPER = []


def uper_spec():
    if not _UPER:
        import asn1tools
        body = ", ".join(f"{n} INTEGER ({lo}..{hi})" for n, lo, hi in UPER_FIELDS)
        _UPER.append(asn1tools.compile_string(f"M DEFINITIONS AUTOMATIC TAGS ::= BEGIN S ::= SEQUENCE {{ {body} }} END", codec="uper"))
    return _UPER[0]


def check_uper(ctx, mb, n):
    """`encodeInts` (Lean) against asn1tools on a SEQUENCE of constrained INTEGERs with the ranges of the data elements:
    in-range values (the theorem's case) and one value above its constraint (the witness' case: no check, spills over)"""
    spec = uper_spec()
    lines, reals = [], []
    for i in range(n):
        vals = {}
        over = ctx.rng.randrange(1, len(UPER_FIELDS)) if i % 4 == 3 else None   # (not the first field: nothing to spill into)
        for j, (name, lo, hi) in enumerate(UPER_FIELDS):
            r = ctx.rng.random()
            vals[name] = lo if r < 0.15 else hi if r < 0.3 else ctx.rng.randint(lo, hi)
            if j == over:
                vals[name] = hi + ctx.rng.choice([1, 2, 905, (hi - lo + 1), 3 * (hi - lo + 1) + 7])
        try:
            enc = spec.encode("S", vals)
        except Exception as e:
            raise Infra(f"asn1tools refused the synthetic SEQUENCE: {type(e).__name__}: {e}")
        ctx.evals()
        ctx.cover("uper_overflow_cases" if over is not None else "uper_in_range_cases")
        if over is None and spec.decode("S", enc) != vals:
            ctx.violation(f"asn1tools does not round-trip in-range constrained integers {vals}", {"kind": "uper", "vals": vals})
        lines.append("uper " + " ".join(f"{lo}:{hi}:{vals[name]}" for name, lo, hi in UPER_FIELDS))
        reals.append(bytes(enc).hex())
    def compare(out):
        for ln, real, mo in zip(lines, reals, out):
            value, nb = (int(x) for x in mo.split())
            pad = (8 - nb % 8) % 8
            got = hex((value << pad) | (0x80 << (nb + pad)))[4:] if nb else ""     # Encoder.as_bytearray
            if got != real:
                ctx.mismatch("uper", ln, real, got)
    mb.add(lines, compare)


# ------------------------------------------------------------------------------------------------
# cluster information container under concurrency (dsched)


class _FixedRandom:
    def __init__(self, v):
        self.v = v

    def randint(self, a, b):
        return self.v

    def __getattr__(self, n):
        return getattr(_random, n)


def _neighbour_vam(coder, sid, lat, lon, g):
    m = vtm.VAMMessage()
    m.fullfill_with_device_data(vtm.DeviceDataProvider(station_id=sid, station_type=1))
    m.fullfill_with_tpv_data({"time": iso(g), "lat": lat, "lon": lon, "speed": 1.0, "track": 90.0})
    return coder.decode(coder.encode(m.vam))


CLUSTER_VARIANTS = ("breakup", "role_off", "steady")


def cluster_run(stack, variant, policy, cid=77):
    """the VRU is cluster leader; thread `tx` handles a position report (-> VAM with the cluster containers) while thread
    `upd` runs the maintenance step that completes the break-up (variant breakup), switches the VRU role off (role_off) or
    changes nothing (steady).  -> (sched, outcome dict)"""
    now = [1000.0]
    saved = vcl.random
    vcl.random = _FixedRandom(cid)
    cap = Cap()
    try:
        with dsched.patched([vcl, vtm]):
            cm = vcl.VBSClusteringManager(own_station_id=12, time_fn=lambda: now[0])
            for k in range(3):
                cm.on_received_vam(_neighbour_vam(stack.vam_coder, 100 + k, 41.0 + 1e-6 * k, 2.0, T0))
            if not cm.try_create_cluster(41.0, 2.0):
                raise Infra("cluster scenario: try_create_cluster refused")
            if variant == "breakup":
                if not cm.trigger_breakup_cluster():
                    raise Infra("cluster scenario: trigger_breakup_cluster refused")
                now[0] += 3.0            # the warning period is over: the next update() disbands the cluster
            rec = RecCoder(stack.vam_coder)
            tm = vtm.VAMTransmissionManagement(cap, rec, vtm.DeviceDataProvider(station_id=12, station_type=1), None, cm)
            tpv = {"class": "TPV", "mode": 3, "time": iso(T0 + 3000), "lat": 41.0, "lon": 2.0, "speed": 1.0, "track": 90.0}
            M = vcl.VBSClusteringManager
            sched = dsched.DSched(policy, line_files={vcl.__file__},
                                  opcode_codes={M.get_cluster_information_container.__code__, M.get_cluster_operation_container.__code__,
                                                M.should_transmit_vam.__code__}, max_steps=60000)
            tx = sched.spawn(lambda: tm.location_service_callback(tpv), "tx")
            if variant == "role_off":
                upd = sched.spawn(cm.set_vru_role_off, "upd")
            else:
                upd = sched.spawn(lambda: cm.update(41.0, 2.0, 1.0, 90.0), "upd")
            sched.run(timeout=60)
    finally:
        vcl.random = saved
    out = {"tx_exc": type(tx.exc).__name__ + ": " + str(tx.exc) if tx.exc else None,
           "upd_exc": type(upd.exc).__name__ + ": " + str(upd.exc) if upd.exc else None,
           "sent": len(cap.sent), "abort": sched.abort_reason, "info": None, "diffs": []}
    if cap.sent:
        try:
            d = stack.vam_coder.decode(cap.sent[0].data)
            out["diffs"] = [t for _, t in tree_diff(rec.last, norm(d))]
            ci = d["vam"]["vamParameters"].get("vruClusterInformationContainer")
            if ci is not None:
                ci = ci["vruClusterInformation"]
                shape = ci.get("clusterBoundingBoxShape")
                out["info"] = [ci.get("clusterId"), shape[1].get("radius") if shape and shape[0] == "circular" else None,
                               ci.get("clusterCardinalitySize")]
        except Exception as e:
            out["tx_exc"] = out["tx_exc"] or f"undecodable VAM ({type(e).__name__})"
    return sched, out


def cluster_judge(variant, out, cid=77):
    """the report must produce one VAM; its cluster information container is a consistent snapshot: the cluster as it
    was (id, radius 5 m, cardinality 1) or - when the maintenance step won - no container (role_off: no VAM at all is
    also legitimate, a VRU-IDLE station does not transmit)"""
    bad = []
    if out["abort"]:
        bad.append(f"schedule aborted: {out['abort']}")
    if out["tx_exc"]:
        bad.append(f"VAM generation failed for the report: {out['tx_exc']}")
    if out["upd_exc"]:
        bad.append(f"maintenance step raised {out['upd_exc']}")
    if not out["tx_exc"]:
        if out["sent"] == 0 and variant != "role_off":
            bad.append("no VAM handed to BTP for the report")
        if out["sent"] > 1:
            bad.append(f"{out['sent']} VAMs for one report")
        if out["info"] is not None and out["info"] != [cid, 5, 1]:
            bad.append(f"cluster information container {out['info']} is not the leader's cluster (id {cid}, radius 5, cardinality 1)")
        if out["info"] is None and out["sent"] and variant == "steady":
            bad.append("cluster leader sent a VAM without the cluster information container")
        for t in out["diffs"]:
            bad.append(f"VAM does not decode to the message built: {t}")
    return bad


def check_cluster(ctx, mb, stack, bound, cap_runs, n_pct=0, variants=CLUSTER_VARIANTS):
    outcomes = set()
    for variant in variants:
        def once(prefix, variant=variant):
            sched, out = cluster_run(stack, variant, dsched.Replay(prefix))
            ctx.evals()
            ctx.cover(f"cluster_{variant}_schedules")
            ctx.cover("cluster_preemptions_%d" % min(dsched.preemptions(sched.steps), 3))
            bad = cluster_judge(variant, out)
            if bad:
                ctx.violation(f"cluster {variant}: {bad[0]}  [threads: tx = location_service_callback(report) on a cluster leader, "
                              f"upd = {'set_vru_role_off()' if variant == 'role_off' else 'update()'}; schedule {[s[0] for s in sched.steps]}]",
                              {"kind": "cluster", "variant": variant, "schedule": [s[0] for s in sched.steps]})
            key = "fail" if out["tx_exc"] else ("absent" if out["info"] is None else "info " + " ".join(map(str, out["info"])))
            outcomes.add((variant, key))
            ctx.nontrivial(("cluster", variant, key, out["sent"]))
            return sched.steps
        runs, exhausted = dsched.enumerate_schedules(once, bound, cap_runs, ctx.rng)
        ctx.cover(f"cluster_{variant}_exhausted_bound{bound}" if exhausted else f"cluster_{variant}_capped")
        for i in range(n_pct):
            sched, out = cluster_run(stack, variant, dsched.PCT(ctx.rng, depth=2 + i % 3, est_steps=120))
            ctx.evals()
            bad = cluster_judge(variant, out)
            if bad:
                ctx.violation(f"cluster {variant}: {bad[0]}  [schedule {[s[0] for s in sched.steps]}]",
                              {"kind": "cluster", "variant": variant, "schedule": [s[0] for s in sched.steps]})
    # the model's outcomes over all its schedules of the two threads
    scheds = ["1", "01", "10", "101", "011", "110", "0", "11"]
    lines = [f"conc 1 1 77 5 1 {s}" for s in scheds]

    def compare(out):
        allowed = {"breakup": set(out), "role_off": set(out), "steady": {out[0]}}
        for variant, key in sorted(outcomes):
            if key not in allowed[variant]:
                ctx.mismatch("cluster", {"variant": variant}, key, sorted(allowed[variant]))
    mb.add(lines, compare)


# ------------------------------------------------------------------------------------------------
# (j) the repetitions of a DEN request while the caller goes on using the position dictionary it passed (round 5)

ALT_CONF_NAMES = [n for _, n in ALT_LADDER] + ["outOfRange", "unavailable"]       # AltitudeConfidence, value = index
ELL, ALT = "positionConfidenceEllipse", "altitude"
POS_LEAVES = [("latitude",), ("longitude",), (ELL, "semiMajorConfidence"), (ELL, "semiMinorConfidence"),
              (ELL, "semiMajorOrientation"), (ALT, "altitudeValue"), (ALT, "altitudeConfidence")]
POS_RANGE = {"latitude": (-900000000, 900000000, [-900000000, 0, 900000000, 900000001]),
             "longitude": (-1800000000, 1800000000, [-1800000000, 0, 1800000000, 1800000001]),
             "semiMajorConfidence": (1, 4093, [1, 4093, 4094, 4095]), "semiMinorConfidence": (1, 4093, [1, 4093, 4094, 4095]),
             "semiMajorOrientation": (0, 3599, [0, 900, 3599, 3601]),
             "altitudeValue": (-100000, 800000, [-100000, 0, 800000, 800001])}


def gen_leaf(rng, leaf, avoid=None):
    """a value inside the constraint of the data element (25% special codes / limits), different from `avoid`"""
    for _ in range(50):
        if leaf == "altitudeConfidence":
            v = rng.choice(ALT_CONF_NAMES)
        else:
            lo, hi, special = POS_RANGE[leaf]
            v = rng.choice(special) if rng.random() < 0.25 else rng.randint(lo, hi)
        if v != avoid:
            return v
    raise Infra("gen_leaf")


def leaf_of(pos, path):
    for k in path:
        pos = pos[k]
    return pos


def gen_position(rng, other=None):
    """an event position; every leaf differs from the same leaf of `other`"""
    pos = {"latitude": None, "longitude": None, ELL: {}, ALT: {}}
    for path in POS_LEAVES:
        tgt = pos
        for k in path[:-1]:
            tgt = tgt[k]
        tgt[path[-1]] = gen_leaf(rng, path[-1], leaf_of(other, path) if other else None)
    return pos


class _StopReps(BaseException):
    """raised by the sleep stand-in when a repetition thread pauses far more often than any schedule allows"""


class RepRun:
    """ONE scenario on the real DENM transmission management.

    sc = {"pos": event position, "interval": ms, "period": ms, "stype": n,
          "acts": [{"at": g, "op": ...}, ...]}     g = index of the PAUSE in which the caller performs the action: pause 0 =
    the caller is back from request_denm_sending and no repetition thread has run yet; every later pause is one
    `time.sleep` of a repetition thread (for a single event: pause k = after its k-th repetition).
    ops: set(path, value) | update(key, values) | rebind(key, values) | clear(key) | pop(path) | reset(values) |
         request(interval, period)  (a further request with the SAME dictionary)."""

    def __init__(self, stack, sc, clk):
        self.sc, self.clk = sc, clk
        self.coder = RecCoder(stack.denm_coder)
        self.pos = copy.deepcopy(sc["pos"])             # the caller's own dictionary
        self.events, self.log, self.pending, self.running, self.loose = [], [], [], [], []
        self.pauses, self.next_tag, self.stalled, self.real_threads = 0, 0, False, []
        self.acts_at = {}
        for a in sc.get("acts", []):
            self.acts_at.setdefault(a["at"], []).append(a)
        drv = self

        class Router:
            def btp_data_request(self, request):
                drv.on_denm(request)

            def register_indication_callback_btp(self, port, callback):
                pass

        self.tm = dtm.DENMTransmissionManagement(Router(), self.coder, ctm.VehicleData(station_id=14, station_type=sc.get("stype", 5)))

    # -- stand-ins for the module's `time` and `threading`
    def _patched(self):
        drv = self
        o_time, o_thr = dtm.time, dtm.threading
        ft = types.SimpleNamespace(**{k: getattr(o_time, k) for k in dir(o_time) if not k.startswith("__")})
        ft.sleep = self.pause

        class FakeThread:
            def __init__(self, group=None, target=None, name=None, args=(), kwargs=None, daemon=None, **_):
                self.target, self.args, self.kwargs, self.daemon, self.name = target, tuple(args), dict(kwargs or {}), daemon, name
                self.started = self.done = False

            def start(self):
                self.started = True
                drv.pending.append((drv.next_tag, self))

            def run(self):
                if self.target is not None:
                    self.target(*self.args, **self.kwargs)

            def join(self, timeout=None):
                pass

            def is_alive(self):
                return self.started and not self.done

        fth = types.SimpleNamespace(**{k: getattr(o_thr, k) for k in dir(o_thr) if not k.startswith("__")})
        fth.Thread = FakeThread
        dtm.time, dtm.threading = ft, fth
        return o_time, o_thr

    def go(self):
        n_expected = -(-self.sc["period"] // self.sc["interval"]) + sum(
            -(-a["period"] // a["interval"]) for a in self.sc.get("acts", []) if a["op"] == "request")
        self.limit = 4 * n_expected + 16
        o_time, o_thr = self._patched()
        try:
            self.request(self.sc["interval"], self.sc["period"])
            self.pause(0)
            for t in self.real_threads:                  # code that started a real thread after all: wait for it
                t.join(10)
                if t.is_alive():
                    self.stalled = True
        except _StopReps:
            self.stalled = True
        finally:
            dtm.time, dtm.threading = o_time, o_thr
        return self

    def request(self, interval, period):
        e = len(self.events)
        ev = {"snap": copy.deepcopy(self.pos), "interval": interval, "period": period, "n": -(-period // interval),
              "denms": [], "err": None}
        self.events.append(ev)
        self.log.append(("accept", e, None))
        self.next_tag = e
        req = DENRequest(denm_interval=interval, time_period=period, detection_time=self.clk.ms - ITS_EPOCH_MS,
                         event_position=self.pos, relevance_distance="lessThan200m",
                         relevance_traffic_direction="upstreamTraffic", rhs_cause_code="emergencyVehicleApproaching95",
                         rhs_subcause_code=1, rhs_event_speed=30, rhs_vehicle_type=0)
        before = set(threading.enumerate())
        try:
            self.tm.request_denm_sending(req)
        except _StopReps:
            raise
        except Exception as ex:
            ev["err"] = f"request_denm_sending raised {type(ex).__name__}: {str(ex)[:120]}"
        self.real_threads += [t for t in threading.enumerate() if t not in before]

    def pause(self, seconds=0):
        g = self.pauses
        self.pauses += 1
        if self.pauses > self.limit:
            raise _StopReps()
        try:
            self.clk.advance(max(0, int(round(float(seconds) * 1000))))
        except (TypeError, ValueError, OverflowError):
            pass
        for act in self.acts_at.get(g, []):
            self.apply(act)
        self.run_pending()

    def run_pending(self):
        while self.pending:
            tag, th = self.pending.pop(0)
            self.running.append(tag)
            try:
                th.run()
            except _StopReps:
                raise
            except Exception as ex:
                self.events[tag]["err"] = f"the repetition thread ended with {type(ex).__name__}: {str(ex)[:120]}"
            finally:
                th.done = True
                self.running.pop()

    def apply(self, act):
        op, p = act["op"], self.pos
        if op == "request":
            self.request(act["interval"], act["period"])
            return
        if op in ("set", "pop"):
            tgt = p
            for k in act["path"][:-1]:
                tgt = tgt[k]
            if op == "set":
                tgt[act["path"][-1]] = copy.deepcopy(act["value"])
            else:
                tgt.pop(act["path"][-1], None)
        elif op == "update":
            p[act["key"]].update(act["values"])
        elif op == "rebind":
            p[act["key"]] = dict(act["values"])
        elif op == "clear":
            p[act["key"]].clear()
        elif op == "reset":
            p.clear()
            p.update(copy.deepcopy(act["values"]))
        else:
            raise Infra(f"unknown caller action {op}")
        self.log.append(("act", act, copy.deepcopy(p)))

    def on_denm(self, request):
        tag = self.running[-1] if self.running else (0 if len(self.events) == 1 else None)
        rec = {"err": None, "pos": None, "diffs": [], "caller": copy.deepcopy(self.pos)}
        try:
            d = self.coder.real.decode(request.data)
            rec["pos"] = norm(d["denm"]["management"]["eventPosition"])
            rec["diffs"] = [t for pth, t in tree_diff(self.coder.last, norm(d)) if pth.rsplit("/", 1)[-1] not in DENM_DROPPED_KEYS]
        except Exception as ex:
            rec["err"] = f"the payload handed to BTP is not a decodable UPER DENM ({type(ex).__name__})"
        if tag is None:
            self.loose.append(rec)
        else:
            self.events[tag]["denms"].append(rec)
            self.log.append(("denm", tag, None))


def pos_diffs(want, got):
    out = []
    for path in POS_LEAVES:
        try:
            g = leaf_of(got, path)
        except (KeyError, TypeError):
            g = "<missing>"
        w = leaf_of(want, path)
        if g != w:
            out.append(("/".join(path), w, g))
    if isinstance(got, dict) and set(got) - {"latitude", "longitude", ELL, ALT}:
        out.append(("<extra components>", None, sorted(set(got) - {"latitude", "longitude", ELL, ALT})))
    return out


def judge_reps(run):
    """every repetition of every request handed to BTP, decodable, and decoding to the position the request was MADE with
    (the harness' deep copy taken at the call) -> [violation text]"""
    out = []
    many = len(run.events) > 1
    if run.stalled:
        out.append(f"DENM generation stalls: a repetition thread does not end (more than {run.limit} inter-repetition pauses / still alive)")
    for e, ev in enumerate(run.events):
        tag = f" (request #{e + 1} of the {len(run.events)} made with one dictionary)" if many else ""
        if ev["err"]:
            out.append(f"DENM generation fails{tag}: {ev['err']}")
        for k, rec in enumerate(ev["denms"]):
            if rec["err"]:
                out.append(f"DENM repetition #{k + 1} of {ev['n']}{tag}: {rec['err']}")
                continue
            d = pos_diffs(ev["snap"], rec["pos"])
            if d:
                def cur(pth):
                    try:
                        return leaf_of(rec["caller"], pth.split("/"))
                    except (KeyError, TypeError):
                        return None
                mixed = len(d) < len(POS_LEAVES) and all(g == cur(pth) for pth, w, g in d)
                out.append(f"DENM repetition #{k + 1} of {ev['n']}{tag} does not decode to the event position the DENM was requested with: "
                           + ", ".join(f"{pth} {g!r} (requested {w!r})" for pth, w, g in d)
                           + (" - the values the caller wrote into its own dictionary AFTER the request was accepted, while the other "
                              "components are still the requested ones: a position mixing two reports" if mixed else ""))
            for t in rec["diffs"][:2]:
                out.append(f"DENM repetition #{k + 1} of {ev['n']}{tag} does not decode to the message built: {t}")
        if len(ev["denms"]) < ev["n"] and not run.stalled:
            out.append(f"DENM generation fails{tag}: {len(ev['denms'])} of the {ev['n']} repetitions (interval {ev['interval']} ms, "
                       f"duration {ev['period']} ms) handed to BTP - a repetition was skipped")
    for rec in run.loose:         # emitted outside any repetition thread the harness knows: must be SOME requested position
        if rec["err"]:
            out.append(f"DENM: {rec['err']}")
        elif all(pos_diffs(ev["snap"], rec["pos"]) for ev in run.events):
            out.append(f"DENM decodes to event position {rec['pos']}, which no request was made with")
    return out


def show_reqpos(pos):
    try:
        e, a = pos[ELL], pos[ALT]
        return (f"{pos['latitude']} {pos['longitude']} {e['semiMajorConfidence']} {e['semiMinorConfidence']} "
                f"{e['semiMajorOrientation']} {a['altitudeValue']} {ALT_CONF_NAMES.index(a['altitudeConfidence'])}")
    except (KeyError, TypeError, ValueError):
        return None


def reps_model_lines(run):
    """per request: (model line, what the real repetitions decoded to) or None when the scenario has no model
    counterpart (records emptied / keys removed: the encoder input is malformed then)"""
    out = []
    for e, ev in enumerate(run.events):
        start = show_reqpos(ev["snap"])
        if start is None or ev["err"] or any(r["err"] for r in ev["denms"]):
            return None
        toks, seen = [], False
        for kind, x, after in run.log:
            if kind == "accept":
                seen = seen or x == e
                continue
            if not seen:
                continue
            if kind == "denm":
                if x == e:
                    toks.append("rep")
                continue
            act = x
            full = show_reqpos(after)
            if full is None:
                return None
            la, lo, mj, mn, ori, av, ac = full.split()
            ell_t, alt_t = f"{mj}:{mn}:{ori}", f"{av}:{ac}"
            if act["op"] == "set" and len(act["path"]) == 1:
                k = act["path"][0]
                toks.append({"latitude": f"lat:{la}", "longitude": f"lon:{lo}", ELL: "nell:" + ell_t, ALT: "nalt:" + alt_t}[k])
            elif act["op"] == "set":
                toks.append(("ell:" + ell_t) if act["path"][0] == ELL else ("alt:" + alt_t))
            elif act["op"] == "update":
                toks.append(("ell:" + ell_t) if act["key"] == ELL else ("alt:" + alt_t))
            elif act["op"] == "rebind":
                toks.append(("nell:" + ell_t) if act["key"] == ELL else ("nalt:" + alt_t))
            elif act["op"] == "reset":
                toks += [f"lat:{la}", f"lon:{lo}", "nell:" + ell_t, "nalt:" + alt_t]
            else:
                return None
        real = [show_reqpos(r["pos"]) for r in ev["denms"]]
        if any(r is None for r in real):
            return None
        out.append((f"denmsnap {start} " + " ".join(toks), " | ".join(real)))
    return out


REP_BASE = {"latitude": 413851234, "longitude": 21734035,
            ELL: {"semiMajorConfidence": 1059, "semiMinorConfidence": 875, "semiMajorOrientation": 0},
            ALT: {"altitudeValue": 16350, "altitudeConfidence": "alt-050-00"}}
REP_NEXT = {"latitude": 413918770, "longitude": 21200110,
            ELL: {"semiMajorConfidence": 900, "semiMinorConfidence": 300, "semiMajorOrientation": 900},
            ALT: {"altitudeValue": 6480, "altitudeConfidence": "alt-002-00"}}


def refresh_acts(at, new):
    """the caller processes its next report and refreshes its record IN PLACE"""
    return [{"at": at, "op": "set", "path": ["latitude"], "value": new["latitude"]},
            {"at": at, "op": "set", "path": ["longitude"], "value": new["longitude"]},
            {"at": at, "op": "update", "key": ALT, "values": dict(new[ALT])},
            {"at": at, "op": "update", "key": ELL, "values": dict(new[ELL])}]


def systematic_rep_scenarios():
    """3 repetitions; in every pause (before the 1st, after the 1st, after the 2nd repetition) every kind of caller action
    on every component, one at a time; the in-place refresh; the refresh followed by a second request"""
    out = []
    for at in (0, 1, 2):
        acts = []
        for path in POS_LEAVES:
            acts.append([{"at": at, "op": "set", "path": list(path), "value": leaf_of(REP_NEXT, path)}])
            if len(path) == 2:
                acts.append([{"at": at, "op": "pop", "path": list(path)}])
        for key in (ELL, ALT):
            acts.append([{"at": at, "op": "update", "key": key, "values": dict(REP_NEXT[key])}])
            acts.append([{"at": at, "op": "rebind", "key": key, "values": dict(REP_NEXT[key])}])
            acts.append([{"at": at, "op": "set", "path": [key], "value": dict(REP_NEXT[key])}])
            acts.append([{"at": at, "op": "clear", "key": key}])
        acts.append(refresh_acts(at, REP_NEXT))
        acts.append([{"at": at, "op": "reset", "values": REP_NEXT}])
        acts.append(refresh_acts(at, REP_NEXT) + [{"at": at, "op": "request", "interval": 100, "period": 200}])
        acts.append([{"at": at, "op": "request", "interval": 50, "period": 100}] + refresh_acts(at + 1, REP_NEXT))
        for a in acts:
            out.append({"pos": copy.deepcopy(REP_BASE), "interval": 100, "period": 300, "stype": 5, "acts": a})
    out.append({"pos": copy.deepcopy(REP_BASE), "interval": 100, "period": 300, "stype": 5, "acts": []})
    return out


def gen_rep_scenario(rng):
    interval = rng.choice([50, 100, 250, 1000])
    n = rng.randrange(1, 7)
    period = n * interval - rng.choice([0, 0, interval // 2, interval - 1])
    pos = gen_position(rng)
    acts = []
    destructive = rng.random() < 0.15
    cur = copy.deepcopy(pos)
    for _ in range(rng.randrange(1, 6)):
        at = rng.randrange(0, n + 1)
        r = rng.random()
        if r < 0.35:
            path = rng.choice(POS_LEAVES)
            acts.append({"at": at, "op": "set", "path": list(path), "value": gen_leaf(rng, path[-1], leaf_of(pos, path))})
        elif r < 0.55:
            key = rng.choice([ELL, ALT])
            new = gen_position(rng, pos)[key]
            sub = {k: v for k, v in new.items() if rng.random() < 0.7} or new
            acts.append({"at": at, "op": "update", "key": key, "values": sub})
        elif r < 0.65:
            key = rng.choice([ELL, ALT])
            acts.append({"at": at, "op": rng.choice(["rebind", "set"]), "key": key, "path": [key],
                         "values": gen_position(rng, pos)[key], "value": gen_position(rng, pos)[key]})
        elif r < 0.8:
            acts += refresh_acts(at, gen_position(rng, pos))
        elif r < 0.87:
            acts.append({"at": at, "op": "reset", "values": gen_position(rng, pos)})
        elif destructive:
            key = rng.choice([ELL, ALT])
            if rng.random() < 0.5:
                acts.append({"at": at, "op": "clear", "key": key})
            else:
                acts.append({"at": at, "op": "pop", "path": [key, rng.choice(sorted(pos[key]))]})
        else:
            i2 = rng.choice([50, 100, 250])
            acts.append({"at": at, "op": "request", "interval": i2, "period": i2 * rng.randrange(1, 4)})
    del cur
    if destructive:                       # a further request would be made with a malformed dictionary: not a valid input
        acts = [a for a in acts if a["op"] != "request"]
    acts.sort(key=lambda a: a["at"])
    return {"pos": pos, "interval": interval, "period": period, "stype": rng.randrange(0, 16), "acts": acts}


def describe_acts(sc):
    def one(a):
        if a["op"] == "set":
            return f"pause {a['at']}: pos[{']['.join(repr(k) for k in a['path'])}] = {a['value']!r}"
        if a["op"] == "pop":
            return f"pause {a['at']}: del pos[{']['.join(repr(k) for k in a['path'])}]"
        if a["op"] in ("update", "rebind"):
            return f"pause {a['at']}: pos[{a['key']!r}]" + (f".update({a['values']!r})" if a["op"] == "update" else f" = {a['values']!r}")
        if a["op"] == "clear":
            return f"pause {a['at']}: pos[{a['key']!r}].clear()"
        if a["op"] == "reset":
            return f"pause {a['at']}: pos.clear(); pos.update({a['values']!r})"
        return f"pause {a['at']}: request_denm_sending again with the same dictionary ({a['interval']} ms / {a['period']} ms)"
    return "; ".join(one(a) for a in sc.get("acts", []))


def check_reps(ctx, mb, stack, scs, clk, tag):
    lines, expect = [], []
    for si, sc in enumerate(scs):
        run = RepRun(stack, sc, clk).go()
        n_denm = sum(len(ev["denms"]) for ev in run.events) + len(run.loose)
        ctx.evals(max(1, n_denm))
        for a in sc.get("acts", []):
            nested = a["op"] in ("update", "clear") or (a["op"] in ("set", "pop") and len(a["path"]) == 2)
            ctx.cover(f"denmrep_{a['op']}_{'nested' if nested else 'top'}")
            ctx.cover("denmrep_act_before_first_repetition" if a["at"] == 0 else "denmrep_act_between_repetitions")
        ctx.cover(f"denmrep_requests_{len(run.events)}")
        bad = judge_reps(run)
        case = dict(sc, kind="denmrep")
        for what in bad[:2]:
            ctx.violation(f"{what}  [request with event position {sc['pos']}, {sc['interval']} ms / {sc['period']} ms; the caller then: "
                          f"{describe_acts(sc) or 'nothing'}; pause 0 = before the first repetition, pause k = after the k-th]", case, None)
        ml = reps_model_lines(run)
        if ml is None:
            ctx.cover("denmrep_no_model_counterpart")
        else:
            for line, real in ml:
                lines.append(line)
                expect.append((real, sc))
        ctx.nontrivial(("denmrep", tuple((a["at"], a["op"], tuple(a.get("path", [a.get("key")]))) for a in sc.get("acts", [])),
                        tuple(len(ev["denms"]) for ev in run.events)))
        if si == 0:
            ctx.sample("denm-repetitions", {"scenario": sc, "decoded": [r["pos"] for ev in run.events for r in ev["denms"]]})

    def compare(out):
        for (real, sc), mo in zip(expect, out):
            if real != mo:
                ctx.mismatch(f"denm-repetitions/{tag}", {"scenario": sc}, real, mo)
    mb.add(lines, compare)


# ------------------------------------------------------------------------------------------------

_STACK = []


def stack():
    if not _STACK:
        _STACK.append(Stack())
    return _STACK[0]


def corpus_cases():
    return [c.get("case", c) for _, c in corpus("C11")]


def check_corpus_replays(ctx, corp):
    """saved witnesses of the kinds that are not plain reports / histories: re-run through `replay`"""
    import contextlib
    import io
    for c in corp:
        if c.get("kind") in ("roles", "rx", "rec", "cluster", "vamstate", "denmrep"):
            with contextlib.redirect_stdout(io.StringIO()) as buf:
                bad = replay(ctx, {"case": c})
            ctx.evals()
            ctx.cover(f"corpus_{c['kind']}")
            if bad:
                last = [ln for ln in buf.getvalue().split("\n") if ln.strip()]
                ctx.violation(f"saved witness ({c['kind']}) reproduces: {last[0] if last else ''}", c)


def run(ctx):
    ctx.extra["rule"] = ("reports over the stated ranges (each of 9 optional fields present/absent, 25% boundary values per field) "
                         "through the real CAM, VAM and DENM sending paths, stateless (fresh station) and as histories of 2-5 reports "
                         "with varying field subsets on one station; all 16 station types x all 16 vehicle roles; every boundary value "
                         "and every single omission systematically; generationDeltaTime over three eras, ages 0/1/65535, through the "
                         "real reception managements (feeding the repository's LDM adapters over a real LDM); trajectories of 3-48 "
                         "reports on one CAM transmission management with path-history offsets at and around the limits of "
                         "DeltaLatitude/DeltaLongitude, standstills, reports without position, generation gaps from 100 ms to hours; "
                         "17 clustering states x {no, stub, real} LDM adapter on the VAM sending path; "
                         "1-6 repetitions of a DEN request (real request_denm_sending + repetition thread) while the caller assigns / "
                         "updates / clears / rebinds every component of the position dictionary it passed, nested records included, "
                         "before the first and between any two repetitions, incl. a second request with the same dictionary; "
                         "the cluster container under all schedules up to the pre-emption bound; "
                         "distinct_nontrivial counts distinct decoded field tuples / outcomes")
    st = stack()
    mb = ModelBatch(ctx)
    with rs.VClock(T0) as clk:
        corp = corpus_cases()
        ctx.cover("corpus_cases", len(corp))
        check_reports(ctx, mb, st, [c["tpv"] for c in corp if c.get("kind") == "report"], "corpus")
        check_corpus_replays(ctx, [c for c in corp if c.get("kind") != "cluster"])
        check_histories(ctx, mb, st, [c["reports"] for c in corp if c.get("kind") == "history"] + SYSTEMATIC_HISTORIES, clk, "corpus")
        check_reports(ctx, mb, st, systematic_reports(), "systematic")
        check_reports(ctx, mb, st, [gen_report(ctx.rng) for _ in range(ctx.scale(1500, 150000))], "random")
        check_histories(ctx, mb, st, [gen_history(ctx.rng) for _ in range(ctx.scale(250, 15000))], clk, "random")
        check_roles(ctx, mb, st, clk, ctx.scale(1, 30))
        check_trajectories(ctx, mb, st, [c["steps"] for c in corp if c.get("kind") == "trajectory"] + systematic_trajectories(), clk, "systematic")
        check_trajectories(ctx, mb, st, [gen_trajectory(ctx.rng) for _ in range(ctx.scale(150, 12000))], clk, "random")
        check_vam_states(ctx, mb, st, clk, ctx.scale(1, 40))
        check_reps(ctx, mb, st, systematic_rep_scenarios(), clk, "systematic")
        check_reps(ctx, mb, st, [gen_rep_scenario(ctx.rng) for _ in range(ctx.scale(150, 8000))], clk, "random")
        check_gdt(ctx, mb, ctx.scale(1500, 100000), [c["ms"] for c in corp if c.get("kind") in ("gdt", "rec")])
        check_rx(ctx, mb, st, clk, ctx.scale(40, 5000), [c["ms"] for c in corp if c.get("kind") == "rx"])
    check_uper(ctx, mb, ctx.scale(300, 20000))
    check_corpus_replays(ctx, [c for c in corpus_cases() if c.get("kind") == "cluster"])
    check_cluster(ctx, mb, st, ctx.scale(1, 2), ctx.scale(400, 6000), ctx.scale(0, 300))
    mb.flush()


def search(ctx):
    st = stack()
    ok = ctx.model_ok
    ctx.model_ok = False
    mb = ModelBatch(ctx)
    try:
        with rs.VClock(T0) as clk:
            check_histories(ctx, mb, st, SYSTEMATIC_HISTORIES, clk, "search-systematic")
            check_trajectories(ctx, mb, st, systematic_trajectories(), clk, "search-systematic")
            check_vam_states(ctx, mb, st, clk, 3)
            check_reps(ctx, mb, st, systematic_rep_scenarios(), clk, "search-systematic")
            if not ctx.violations:
                check_reps(ctx, mb, st, [gen_rep_scenario(ctx.rng) for _ in range(ctx.scale(500, 20000))], clk, "search")
            if not ctx.violations:
                check_trajectories(ctx, mb, st, [gen_trajectory(ctx.rng) for _ in range(ctx.scale(600, 30000))], clk, "search")
            check_roles(ctx, mb, st, clk, 2)
            check_gdt(ctx, mb, ctx.scale(4000, 200000))
            check_rx(ctx, mb, st, clk, ctx.scale(200, 10000))
            check_reports(ctx, mb, st, systematic_reports(), "search-systematic")
            if not ctx.violations:
                check_histories(ctx, mb, st, [gen_history(ctx.rng) for _ in range(ctx.scale(800, 30000))], clk, "search")
            if not ctx.violations:
                check_reports(ctx, mb, st, [gen_report(ctx.rng) for _ in range(ctx.scale(6000, 200000))], "search")
        if not ctx.violations:
            check_cluster(ctx, mb, st, 2, ctx.scale(1500, 20000), ctx.scale(60, 1000))
    finally:
        ctx.model_ok = ok


def replay(ctx, obj):
    case = obj.get("case", obj)
    st = stack()
    kind = case.get("kind")
    with rs.VClock(T0) as clk:
        if kind == "report":
            bad = []
            for k in ("cam", "vam", "denm"):
                if case.get("msg") not in (None, k):
                    continue
                stype, role = case.get("stype", 5), case.get("role", 0)
                v = judge(k, case["tpv"], stype, role, st.one(k, case["tpv"], stype, role), st)
                v = [(w, f) for w, f in v if f is None]
                for what, _ in v:
                    print(what)
                bad += v
            print(f"{len(bad)} violations on this report")
            return bool(bad)
        if kind == "history":
            bad = []
            stype, role = case.get("stype", 5), case.get("role", 0)
            for k in ("cam", "vam", "denm"):
                if case.get("msg") not in (None, k):
                    continue
                for i, (tpv, msg) in enumerate(run_history(st, k, case["reports"], stype, role, clk)):
                    for what, f in judge(k, tpv, stype, role, msg, st):
                        if f is None:
                            print(f"report #{i + 1} {present(tpv)}: {what}")
                            bad.append(what)
            print(f"{len(bad)} violations on this history")
            return bool(bad)
        if kind == "trajectory":
            stype, role = case.get("stype", 5), case.get("role", 0)
            _, res = run_trajectory(st, [(g, t) for g, t in case["steps"]], stype, role, clk, case.get("ldm", "none"))
            bad = []
            for i, (tpv, now_gen, now_read, msg, earlier, store_len) in enumerate(res):
                for what, f in judge_trajectory_step(tpv, now_read, msg, earlier, stype, role, st):
                    if f is None:
                        print(f"report #{i + 1} {present(tpv)}: {what}")
                        bad.append(what)
            print(f"{sum(1 for r in res if r[3].payload is not None)} CAMs handed to BTP for {len(res)} reports, {len(bad)} violations")
            return bool(bad)
        if kind == "vamstate":
            stype = case.get("stype", 1)
            res = vam_state_run(st, case["state"], case["ldm"], case["reports"], stype, clk)
            bad = []
            for i, (tpv, msg, fed, tokens) in enumerate(res):
                decoded = st.vam_coder.decode(msg.payload) if msg.payload is not None and not msg.err else None
                for what, f in judge_vam_state(case["state"], case["ldm"], tpv, msg, fed, stype, st, decoded):
                    if f is None:
                        print(f"report #{i + 1}: {what}")
                        bad.append(what)
            print(f"{len(bad)} violations in clustering state {case['state']} with LDM adapter {case['ldm']}")
            return bool(bad)
        if kind == "denmrep":
            run = RepRun(st, case, clk).go()
            bad = judge_reps(run)
            for what in bad:
                print(what)
            for e, ev in enumerate(run.events):
                print(f"request #{e + 1} made with {ev['snap']}: {len(ev['denms'])} of {ev['n']} repetitions handed to BTP")
                for k, rec in enumerate(ev["denms"]):
                    print(f"  repetition #{k + 1}: eventPosition {rec['pos'] if not rec['err'] else rec['err']}")
            print(f"{len(bad)} violations; the caller: {describe_acts(case) or 'nothing'}")
            return bool(bad)
        if kind == "roles":
            stn = CamStation(st.cam_coder, case.get("stype", 5), case["role"])
            bad = []
            for now in case["times"]:
                clk.ms = now
                msg = stn.attempt(dict(case["tpv"], time=iso(now)), now)
                for what, f in judge("cam", case["tpv"], case.get("stype", 5), case["role"], msg, st):
                    if f is None:
                        print(f"attempt at {now}: {what}")
                        bad.append(what)
            print(f"{len(stn.cap.sent)} CAMs for {len(case['times'])} generation attempts, {len(bad)} violations")
            return bool(bad)
        if kind == "gdt":
            g = case["ms"]
            got = ctm.GenerationDeltaTime.from_timestamp(g / 1000).msec
            want = (g - ITS_EPOCH_MS + LEAP_MS) % 65536
            print(f"gdt({g}) = {got}, expected {want}")
            return got != want
        if kind == "rec":
            g, age = case["ms"], case["age"]
            want = (g - ITS_EPOCH_MS + LEAP_MS) % 65536
            rec = ctm.GenerationDeltaTime(msec=want).as_timestamp_in_certain_point(g + age)
            print(f"reconstructed {rec}, generated {g} (age {age} ms)")
            return rec != g
        if kind == "rx":
            rec, err = rx_once(st, case["msg"], case["ms"], case["age"], clk)
            print(f"{case['msg']} generated {case['ms']}, received {case['age']} ms later: reconstructed {rec} {err or ''}")
            return err is not None or rec != case["ms"]
    if kind == "cluster":
        sched, out = cluster_run(st, case["variant"], dsched.Replay(case.get("schedule", [])))
        bad = cluster_judge(case["variant"], out)
        for b in bad:
            print(b)
        print(f"outcome {out}")
        return bool(bad)
    raise Infra(f"unknown replay kind {kind}")

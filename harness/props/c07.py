"""C07 — Geo-addressed packets are delivered exactly inside the destination area.

Theorems: lean/Props/C07.lean about lean/FlexModel/Geo/Area.lean (exact rationals).
Tie: the float/trig glue (projection of WGS-84 coordinates to metres, rotation by the azimuth) stays outside Lean.
The harness places receivers with an INDEPENDENT 50-digit `decimal` implementation of the local projection (own
Taylor-series cosine, longitude wrap) and an explicit rotation into the area frame, feeds (a) the real
`Router.gn_geometric_function_f` (signed coordinate range), (b) the real GBC/GAC receive path of a real Router that
receives a packet originated by a second real Router (positive range: the wire codecs cannot carry negative
coordinates yet — C02), and compares the *decision* with the Lean model evaluated on the oracle's frame coordinates
(exact rationals) and with the oracle `oracle_inside` (EN 302 931 transcribed on Fractions).  A band of
0.5 m + 0.1 % of the distance from the centre around the border is excluded and counted.
"""
from __future__ import annotations

import math
from decimal import Decimal as D, getcontext
from fractions import Fraction

from common import Infra, corpus
import realstack as rs

from flexstack.geonet.router import Router
from flexstack.geonet.mib import MIB, AreaForwardingAlgorithm
from flexstack.geonet.service_access_point import (
    GNDataRequest, PacketTransportType, HeaderType, GeoBroadcastHST, GeoAnycastHST, Area, CommonNH, ResultCode)
from flexstack.geonet.position_vector import LongPositionVector, TST
from flexstack.geonet.gbc_extended_header import GBCExtendedHeader

MODULES = ["Props.C07"]
DRIVERS = ["Area"]
TRUSTED = [
    "glue: projection+rotation, tolerance-banded — Router.calculate_distance / rotate_to_area_frame (IEEE-754, math.cos/"
    "sin/radians) are validated only by the placement oracle: an independent 50-digit decimal evaluation of the same "
    "local map (sphere R = 6 371 000 m, x = R*dlat, y = R*dlon*cos(mean latitude), longitude difference wrapped to "
    "[-180, 180]) followed by a rotation by the azimuth (clockwise from North)",
    "EN 302 931 does not fix the map projection; the oracle uses the spherical equirectangular local map above",
    "area size: float products math.pi*a*a / math.pi*a*b are modelled by exact rational products with the rational "
    "value of math.pi (differences only possible within 1e-9 relative of the threshold)",
]
ASSUMPTIONS = [
    "receivers closer to the border than 0.5 m + 0.1 % of their distance from the centre are excluded (tolerance_skips)",
    "whole-packet runs use positive coordinates only (negative latitude/longitude cannot be encoded on the wire: C02)",
    "whole-packet runs: fresh routers, traffic class without SCF, itsGnAreaForwardingAlgorithm = SIMPLE (no CBF timer), "
    "sender = source (one hop); duplicate/DAD/PDR rejections belong to C06",
    "placements whose latitude would leave [-90, 90] degrees are not generated",
]

getcontext().prec = 50
PI = D("3.14159265358979323846264338327950288419716939937510582097494459")
R_EARTH = D(6371000)
SHAPES = ("circle", "rect", "ellipse")
HST = {("gbc", "circle"): GeoBroadcastHST.GEOBROADCAST_CIRCLE, ("gbc", "rect"): GeoBroadcastHST.GEOBROADCAST_RECT,
       ("gbc", "ellipse"): GeoBroadcastHST.GEOBROADCAST_ELIP, ("gac", "circle"): GeoAnycastHST.GEOANYCAST_CIRCLE,
       ("gac", "rect"): GeoAnycastHST.GEOANYCAST_RECT, ("gac", "ellipse"): GeoAnycastHST.GEOANYCAST_ELIP}
T0 = 1_700_000_000_000


# ---------------------------------------------------------------------------------- independent projection (decimal)

def dcos(x):
    x = x % (2 * PI)
    if x > PI:
        x -= 2 * PI
    term, s, x2, n = D(1), D(1), x * x, 0
    eps = D(10) ** -55
    while abs(term) > eps:
        n += 2
        term = -term * x2 / (n * (n - 1))
        s += term
    return s


def dsin(x):
    return dcos(x - PI / 2)


def project(lat0, lon0, lat, lon):
    """(north, east) metres of point (lat, lon) relative to (lat0, lon0); all in 1e-7 degree integers"""
    dlon_units = lon - lon0
    if dlon_units > 1800000000:
        dlon_units -= 3600000000
    elif dlon_units < -1800000000:
        dlon_units += 3600000000
    k = PI / (D(180) * D(10000000))
    north = R_EARTH * (D(lat - lat0) * k)
    east = R_EARTH * (D(dlon_units) * k) * dcos(D(lat0 + lat) * k / 2)
    return north, east


def to_frame(north, east, az_deg):
    """frame of the area: abscissa along the azimuth (clockwise from North)"""
    th = D(az_deg) * PI / 180
    c, s = dcos(th), dsin(th)
    return north * c + east * s, -north * s + east * c


def place(lat0, lon0, az, xt, yt):
    """integer (lat, lon) whose frame coordinates are close to the target (xt, yt) metres; None if off the globe"""
    th = math.radians(az)
    north = xt * math.cos(th) - yt * math.sin(th)
    east = xt * math.sin(th) + yt * math.cos(th)
    lat = lat0 + round(math.degrees(north / 6371000.0) * 1e7)
    if abs(lat) > 900000000:
        return None
    cm = math.cos(math.radians((lat0 + lat) / 2e7))
    if abs(cm) < 1e-6:
        return None
    dlon = math.degrees(east / (6371000.0 * cm)) * 1e7
    if abs(dlon) > 1.7e9:
        return None
    lon = lon0 + round(dlon)
    if lon > 1800000000:
        lon -= 3600000000
    elif lon < -1800000000:
        lon += 3600000000
    return lat, lon


def frame_coords(lat0, lon0, az, lat, lon):
    n, e = project(lat0, lon0, lat, lon)
    x, y = to_frame(n, e, az)
    return Fraction(x), Fraction(y)


# ---------------------------------------------------------------------------------- oracle (EN 302 931 on Fractions)

def oracle_inside(shape, a, b, x, y):
    if shape == "circle":
        return x * x + y * y <= a * a
    if shape == "rect":
        return abs(x) <= a and abs(y) <= b
    return (x / a) ** 2 + (y / b) ** 2 <= 1


def border_distance_lb(shape, a, b, x, y):
    """lower bound of the distance (m) of the point to the border of the shape"""
    x, y = float(x), float(y)
    if shape == "circle":
        return abs(math.hypot(x, y) - a)
    if shape == "rect":
        if abs(x) <= a and abs(y) <= b:
            return min(a - abs(x), b - abs(y))
        return math.hypot(max(abs(x) - a, 0.0), max(abs(y) - b, 0.0))
    k = math.sqrt((x / a) ** 2 + (y / b) ** 2)
    return abs(k - 1.0) * min(a, b)


def in_band(shape, a, b, x, y):
    return border_distance_lb(shape, a, b, x, y) < 0.5 + 0.001 * math.hypot(float(x), float(y))


def rat(fr):
    fr = Fraction(fr)
    return f"{fr.numerator}/{fr.denominator}" if fr.denominator != 1 else str(fr.numerator)


# ---------------------------------------------------------------------------------- generators

def gen_area(rng, positive):
    shape = rng.choice(SHAPES)
    a = rng.choice([1, 2, 10, 100, 100, 500, 1000, 1784, 1785, 5000, 65535, rng.randrange(1, 65536), rng.randrange(1, 3000)])
    if rng.random() < 0.6:   # elongated shapes make a missing / wrong rotation visible
        b = max(1, a // rng.choice([2, 3, 5, 10, 50]))
    else:
        b = rng.choice([1, 10, 100, 1000, 65535, rng.randrange(1, 65536), rng.randrange(1, 3000)])
    az = rng.choice([0, 0, 90, 180, 270, 45, 30, 1, 359, 89, 91, rng.randrange(0, 360), rng.randrange(0, 360)])
    if positive:
        lat0 = rng.choice([415000000, 100000000 + rng.randrange(0, 700000000), 20000000 + rng.randrange(0, 10 ** 7)])
        lon0 = rng.choice([21000000, 20000000 + rng.randrange(0, 1700000000), 20000000 + rng.randrange(0, 10 ** 7)])
    else:
        lat0 = rng.choice([rng.randrange(-850000000, 850000001), rng.randrange(-850000000, 850000001), 0, 415000000, -337000000, 1000, -1000])
        lon0 = rng.choice([rng.randrange(-1800000000, 1800000001), rng.randrange(-1800000000, 1800000001), 0, 21000000, -703000000,
                           1799990000, -1799990000, 1800000000, -1800000000])
    return shape, a, b, az, lat0, lon0


def gen_target(rng, shape, a, b):
    """a target point in the area frame, steered to a category"""
    cat = rng.choice(["centre", "deep_in", "deep_in", "near_in", "near_in", "near_out", "near_out", "far_out", "far_out", "axis_a", "axis_b", "band"])
    bb = a if shape == "circle" else b
    if cat == "centre":
        return cat, 0.0, 0.0
    if cat == "axis_a":      # on the a-axis, beyond b: inside only if the rotation is right
        k = rng.uniform(0.3, 0.95)
        return cat, rng.choice([-1, 1]) * k * a, 0.0
    if cat == "axis_b":      # on the b-axis, between b and a: outside only if the rotation is right
        k = rng.uniform(1.3, 4.0)
        return cat, 0.0, rng.choice([-1, 1]) * k * bb
    phi = rng.uniform(0, 2 * math.pi)
    if shape == "rect":
        u, v = rng.uniform(-1, 1), rng.uniform(-1, 1)
        m = max(abs(u), abs(v)) or 1.0
        ux, vy = u / m * a, v / m * bb
    else:
        ux, vy = a * math.cos(phi), bb * math.sin(phi)
    r = math.hypot(ux, vy)
    band = 0.5 + 0.001 * r
    dims = min(a, bb)
    if cat == "deep_in":
        k = rng.uniform(0.0, 0.9)
    elif cat == "near_in":
        k = 1 - rng.uniform(1.5, 6) * band / dims
        if k <= 0:
            k = rng.uniform(0.0, 0.4)
    elif cat == "near_out":
        k = 1 + rng.uniform(1.5, 6) * band / dims
    elif cat == "band":
        k = 1 + rng.uniform(-0.5, 0.5) * band / r
    else:
        k = rng.uniform(1.2, 5.0)
    return cat, k * ux, k * vy


def gen_case(rng, positive):
    shape, a, b, az, lat0, lon0 = gen_area(rng, positive)
    for _ in range(20):
        cat, xt, yt = gen_target(rng, shape, a, b)
        p = place(lat0, lon0, az, xt, yt)
        if p is not None and (not positive or (p[0] > 10 ** 6 and p[1] > 10 ** 6)):
            return {"shape": shape, "a": a, "b": b, "az": az, "lat0": lat0, "lon0": lon0, "lat": p[0], "lon": p[1], "cat": cat}
    return {"shape": shape, "a": a, "b": b, "az": az, "lat0": lat0, "lon0": lon0, "lat": lat0, "lon": lon0, "cat": "centre"}


# ---------------------------------------------------------------------------------- (a) direct function calls

_ROUTER = None


def the_router():
    global _ROUTER
    if _ROUTER is None:
        _ROUTER = rs.make_router(1)[0]
    return _ROUTER


def real_f(transport, c):
    area = Area(latitude=c["lat0"], longitude=c["lon0"], a=c["a"], b=c["b"], angle=c["az"])
    try:
        return the_router().gn_geometric_function_f(HST[(transport, c["shape"])], area, c["lat"], c["lon"])
    except ZeroDivisionError:
        return "ZeroDivisionError"
    except Exception as e:  # noqa: BLE001
        return type(e).__name__


def check_direct(ctx, cases, stream="F.direct"):
    lines, recs = [], []
    for c in cases:
        transport = c.get("transport") or ("gbc" if (c["lat"] + c["lon"]) % 2 == 0 else "gac")
        f = real_f(transport, c)
        ctx.evals()
        a, b = c["a"], c["b"]
        if a <= 0 or (b <= 0 and c["shape"] != "circle"):
            lines.append(f"F {c['shape']} {a} {b} 0 0")
            recs.append((c, transport, f, None, None, "degenerate"))
            continue
        bb = b if c["shape"] != "circle" else max(b, 1)
        x, y = frame_coords(c["lat0"], c["lon0"], c["az"], c["lat"], c["lon"])
        lines.append(f"F {c['shape']} {a} {bb} {rat(x)} {rat(y)}")
        recs.append((c, transport, f, x, y, "band" if in_band(c["shape"], a, bb, x, y) else "ok"))
    out = ctx.model("Area", lines) if ctx.model_ok and lines else [None] * len(lines)
    for (c, transport, f, x, y, kind), mo in zip(recs, out):
        tag = {k: c[k] for k in ("shape", "a", "b", "az", "lat0", "lon0", "lat", "lon")}
        tag.update(kind="direct", transport=transport)
        if kind == "degenerate":
            ctx.cover("degenerate_" + str(f))
            if mo is not None and mo != f:
                ctx.mismatch(stream + ".degenerate", tag, f, mo)
            continue
        if not isinstance(f, float):
            ctx.violation(f"gn_geometric_function_f raised {f} for valid semi-axes", tag)
            continue
        if kind == "band":
            ctx.cover("tolerance_skips")
            continue
        want = oracle_inside(c["shape"], c["a"], c["b"] if c["shape"] != "circle" else 1, x, y)
        got = f >= 0
        ctx.cover(f"direct_{c['shape']}_{'in' if want else 'out'}")
        ctx.cover("cat_" + c.get("cat", "corpus"))
        ctx.cover("azimuth_0" if c["az"] % 360 == 0 else ("azimuth_quarter" if c["az"] % 90 == 0 else "azimuth_oblique"))
        if c["lat0"] < 0 or c["lon0"] < 0:
            ctx.cover("centre_negative_hemisphere")
        ctx.nontrivial(("F", c["shape"], c["a"], c["b"], c["az"], c["lat0"] // 10 ** 7, c["lon0"] // 10 ** 7, want))
        if got != want:
            ctx.violation(f"{c['shape']} a={c['a']} b={c['b']} azimuth={c['az']} centre=({c['lat0']},{c['lon0']}): receiver at "
                          f"({c['lat']},{c['lon']}) = frame ({float(x):.2f},{float(y):.2f}) m is {'inside' if want else 'outside'}, "
                          f"F = {f:.6g} says {'inside' if got else 'outside'}", tag, classify(tag))
        if mo is not None:
            msign = mo.split()[0]
            if (msign in "+0") != got:
                ctx.mismatch(stream, tag, f"F={f!r}", mo)
            if (mo.split()[1] == "1") != want:
                ctx.mismatch(stream + ".oracle_vs_model", tag, want, mo)
    if recs:
        c, tr, f, x, y, kind = recs[len(recs) // 2]
        ctx.sample("direct", {"case": {k: v for k, v in c.items()}, "F": f if not isinstance(f, float) else round(f, 9),
                              "frame_xy_m": None if x is None else [round(float(x), 3), round(float(y), 3)], "kind": kind})


def classify(tag):
    return None   # no status:"known" entries for C07


# ---------------------------------------------------------------------------------- (b) whole packets

def lpv(router, lat, lon, pai=True):
    return LongPositionVector(gn_addr=router.mib.itsGnLocalGnAddr, tst=TST.set_in_normal_timestamp_milliseconds(T0),
                              latitude=lat, longitude=lon, pai=pai)


def originate(c):
    """source router A: returns (confirm code name, packets handed to the link layer)"""
    kw = dict(itsGnMaxGeoAreaSize=c.get("max_src", 10 ** 7))
    if c.get("hop", 10) <= 1:
        kw["itsGnDefaultHopLimit"] = 1
    A, llA, _ = rs.make_router(1, **kw)
    A.ego_position_vector = lpv(A, c["src_lat"], c["src_lon"], c.get("src_pai", True))
    ht = HeaderType.GEOBROADCAST if c["transport"] == "gbc" else HeaderType.GEOANYCAST
    req = GNDataRequest(upper_protocol_entity=CommonNH.BTP_B, data=b"c07", length=3,
                        packet_transport_type=PacketTransportType(header_type=ht, header_subtype=HST[(c["transport"], c["shape"])]),
                        area=Area(latitude=c["lat0"], longitude=c["lon0"], a=c["a"], b=c["b"], angle=c["az"]),
                        max_hop_limit=c.get("hop", 10))
    try:
        conf = A.gn_data_request(req)
        code = conf.result_code.name
    except Exception as e:  # noqa: BLE001
        code = "raised:" + type(e).__name__
    return code, llA.take()


def receive(c, pkt):
    """receiver / forwarder B: returns (delivered n, forwarded kind list, indication area)"""
    B, llB, inds = rs.make_router(2, itsGnMaxGeoAreaSize=c.get("max_rx", 10 ** 7),
                                  itsGnAreaForwardingAlgorithm=AreaForwardingAlgorithm.SIMPLE)
    B.ego_position_vector = lpv(B, c["lat"], c["lon"])
    greedy = []
    orig = B.gn_greedy_forwarding

    def spy(*a, **k):
        r = orig(*a, **k)
        greedy.append(r)
        return r
    B.gn_greedy_forwarding = spy
    try:
        B.gn_data_indicate(pkt)
        err = None
    except Exception as e:  # noqa: BLE001
        err = type(e).__name__
    sent = llB.take()
    acts = ["deliver"] * len(inds)
    for _ in sent:
        acts.append("fwd-nonarea" if greedy else "fwd-area")
    return acts, err, inds, sent


def se_token(c, fse_sign_rat):
    return f"{1 if c.get('src_pai', True) else 0}:{fse_sign_rat}"


def check_packets(ctx, cases):
    lines, recs = [], []
    for c in cases:
        code, pkts = originate(c)
        ctx.evals()
        a, b, shape = c["a"], c["b"], c["shape"]
        bb = b if shape != "circle" else max(b, 1)
        tag = dict(c, kind="packet")
        if code != "ACCEPTED" or len(pkts) != 1:
            ctx.violation(f"source refused/failed a request that fits the limit: {code}, {len(pkts)} packets", tag)
            continue
        pkt = pkts[0]
        rhl = pkt[3]
        acts, err, inds, sent = receive(c, pkt)
        x, y = frame_coords(c["lat0"], c["lon0"], c["az"], c["lat"], c["lon"])
        sx, sy = frame_coords(c["lat0"], c["lon0"], c["az"], c["src_lat"], c["src_lon"])
        if in_band(shape, a, bb, x, y) or in_band(shape, a, bb, sx, sy):
            ctx.cover("tolerance_skips")
            continue
        ego_in = oracle_inside(shape, a, bb, x, y)
        se_in = oracle_inside(shape, a, bb, sx, sy)
        size = area_size(shape, a, b)
        over = size > c.get("max_rx", 10 ** 7) * 10 ** 6
        # ---- oracle: property text
        bad = []
        if err:
            bad.append(f"receive path raised {err}")
        if ego_in and "deliver" not in acts:
            bad.append("receiver inside the area got no indication")
        if not ego_in and "deliver" in acts:
            bad.append("receiver outside the area got an indication")
        if acts.count("deliver") > 1:
            bad.append("delivered more than once")
        fw = [x_ for x_ in acts if x_.startswith("fwd")]
        if c["transport"] == "gac" and ego_in and fw:
            bad.append("GAC delivered inside the area and forwarded as well")
        if over and fw:
            bad.append("packet with an area larger than itsGnMaxGeoAreaSize was forwarded")
        if not over and rhl > 1 and not (c["transport"] == "gac" and ego_in):
            want = "fwd-area" if ego_in else ("none" if (c.get("src_pai", True) and se_in) else "fwd-nonarea")
            got = fw[0] if fw else "none"
            if got != want or len(fw) > 1:
                bad.append(f"Annex D: ego {'inside' if ego_in else 'outside'}, sender PAI={c.get('src_pai', True)} "
                           f"{'inside' if se_in else 'outside'} -> expected {want}, got {fw or 'none'}")
        if rhl <= 1 and fw:
            bad.append("forwarded with remaining hop limit 1")
        for ind in inds:
            ar = ind.destination_area
            if (ar.latitude, ar.longitude, ar.a, ar.b, ar.angle) != (c["lat0"], c["lon0"], a, b, c["az"]):
                bad.append("indication reports a different destination area")
        for s in sent:
            if s[3] != rhl - 1:
                bad.append(f"forwarded with RHL {s[3]}, received {rhl}")
        if bad:
            ctx.violation(f"{c['transport']} {shape} a={a} b={b} azimuth={c['az']} rhl={rhl}: " + "; ".join(bad[:3]), tag, classify(tag))
        ctx.cover(f"packet_{c['transport']}_{shape}_{'in' if ego_in else 'out'}")
        ctx.cover("annexD_ego%d_pai%d_se%d" % (ego_in, c.get("src_pai", True), se_in))
        if over:
            ctx.cover("packet_oversize_at_receiver")
        ctx.cover(f"rhl_{'1' if rhl <= 1 else ('2' if rhl == 2 else 'more')}")
        ctx.nontrivial(("pkt", c["transport"], shape, a, b, c["az"], ego_in, se_in, c.get("src_pai", True), over, min(rhl, 3)))
        # ---- model
        fe = "1" if ego_in else "-1"     # the model needs F(ego), F(sender) only through their sign: take them from Lean's own F below
        lines.append(f"F {shape} {a} {bb} {rat(x)} {rat(y)}")
        lines.append(f"F {shape} {a} {bb} {rat(sx)} {rat(sy)}")
        lines.append(f"size {shape} {a} {b} {c.get('max_rx', 10 ** 7)}")
        recs.append((tag, acts, rhl, over))
    if ctx.model_ok and lines:
        out = ctx.model("Area", lines)
        lines2 = []
        for k, (tag, acts, rhl, over) in enumerate(recs):
            f1, f2, ov = out[3 * k].split()[0], out[3 * k + 1].split()[0], out[3 * k + 2]
            val = {"+": "1", "0": "0", "-": "-1"}
            lines2.append(f"{tag['transport']} {val[f1]} {rhl} {ov} 0 {1 if tag.get('src_pai', True) else 0}:{val[f2]}")
            if (ov == "1") != over:
                ctx.mismatch("size.oracle_vs_model", tag, over, ov)
        out2 = ctx.model("Area", lines2)
        for (tag, acts, rhl, over), mo in zip(recs, out2):
            if "[" + " ".join(acts) + "]" != mo:
                ctx.mismatch("packet.actions", tag, acts, mo)
    if recs:
        ctx.sample("packet", {"case": recs[0][0], "actions": recs[0][1], "rhl": recs[0][2]})


def area_size(shape, a, b):
    pi = Fraction(math.pi)
    return pi * a * a if shape == "circle" else (pi * a * b if shape == "ellipse" else Fraction(4 * a * b))


def gen_packet_case(rng):
    c = gen_case(rng, True)
    c["transport"] = rng.choice(["gbc", "gac"])
    shape, a, b = c["shape"], c["a"], c["b"]
    # sender (= source) position: inside or outside the area
    for _ in range(20):
        cat, xt, yt = gen_target(rng, shape, a, b)
        p = place(c["lat0"], c["lon0"], c["az"], xt, yt)
        if p is not None and p[0] > 10 ** 6 and p[1] > 10 ** 6:
            c["src_lat"], c["src_lon"] = p
            break
    else:
        c["src_lat"], c["src_lon"] = c["lat0"], c["lon0"]
    c["src_pai"] = rng.random() < 0.6
    c["hop"] = rng.choice([1, 2, 2, 3, 10, 10, 255])
    size = float(area_size(shape, a, b)) / 1e6
    c["max_rx"] = rng.choice([10, 10, 1, 100, 10 ** 7, max(1, int(size)), int(size) + 1, max(1, int(size) - 1)])
    return c


# ---------------------------------------------------------------------------------- (c) source: area size control

def check_source(ctx, n):
    rng = ctx.rng
    lines, recs = [], []
    for _ in range(n):
        shape = rng.choice(SHAPES)
        mx = rng.choice([1, 10, 10, 100, 1000, 13493, rng.randrange(1, 14000)])
        lim = mx * 10 ** 6
        if shape == "circle":
            a0 = int(math.sqrt(lim / math.pi))
            a = min(65535, max(1, a0 + rng.choice([-2, -1, 0, 1, 2, rng.randrange(-a0, a0 + 1)])))
            b = rng.choice([0, a, 1])
        else:
            a = rng.choice([1, 100, 1000, 65535, rng.randrange(1, 65536)])
            b0 = int(lim / (math.pi * a)) if shape == "ellipse" else lim // (4 * a)
            b = min(65535, max(1, b0 + rng.choice([-2, -1, 0, 1, 2, 3, rng.randrange(-b0, b0 + 1) if b0 else 0])))
        inside_src = rng.random() < 0.5
        c = {"transport": rng.choice(["gbc", "gac"]), "shape": shape, "a": a, "b": b, "az": rng.randrange(360), "lat0": 415000000, "lon0": 21000000,
             "max_src": mx, "hop": 10, "src_pai": True}
        off = 0 if inside_src else 30000000
        c["src_lat"], c["src_lon"] = 415000000 + off, 21000000
        code, pkts = originate(c)
        ctx.evals()
        over = area_size(shape, a, b) > lim
        tag = dict(c, kind="source")
        if over and (code != ResultCode.GEOGRAPHICAL_SCOPE_TOO_LARGE.name or pkts):
            ctx.violation(f"request for {shape} a={a} b={b} ({float(area_size(shape, a, b)) / 1e6:.6f} km2) with itsGnMaxGeoAreaSize={mx}: "
                          f"confirm {code}, {len(pkts)} packets sent (must be refused, nothing sent)", tag)
        if not over and (code != "ACCEPTED" or len(pkts) != 1):
            ctx.violation(f"request for {shape} a={a} b={b} within itsGnMaxGeoAreaSize={mx}: confirm {code}, {len(pkts)} packets", tag)
        if pkts:
            eh = GBCExtendedHeader.decode(pkts[0][12:12 + 44])
            if (eh.latitude, eh.longitude, eh.a, eh.b, eh.angle) != (c["lat0"], c["lon0"], a, b, c["az"]):
                ctx.violation(f"area on the wire {(eh.latitude, eh.longitude, eh.a, eh.b, eh.angle)} differs from the request", tag)
        ctx.cover("source_oversize" if over else "source_fits")
        ctx.nontrivial(("src", shape, a, b, mx))
        # F(ego) sign for the model: source inside (centre) / 333 km north
        lines.append(f"src {shape} {a} {b} {mx} {'1' if inside_src else '-1'} 0 1")
        recs.append((tag, f"{code} {len(pkts)}"))
    if ctx.model_ok and lines:
        for (tag, real), mo in zip(recs, ctx.model("Area", lines)):
            if real != mo:
                ctx.mismatch("source.confirm", tag, real, mo)


# ---------------------------------------------------------------------------------- (d) Annex D, direct, signed coordinates

def check_annexd(ctx, n):
    rng = ctx.rng
    lines, recs = [], []
    for _ in range(n):
        c = gen_case(rng, False)
        shape, a, b = c["shape"], c["a"], c["b"]
        bb = b if shape != "circle" else max(b, 1)
        sender = rng.choice(["none", "unknown", "pai", "nopai"])
        for _ in range(20):
            cat, xt, yt = gen_target(rng, shape, a, b)
            p = place(c["lat0"], c["lon0"], c["az"], xt, yt)
            if p is not None:
                break
        else:
            p = (c["lat0"], c["lon0"])
        r, _, _ = rs.make_router(1)
        r.ego_position_vector = lpv(r, c["lat"], c["lon"])
        peer = rs.gn_addr(2)
        if sender in ("pai", "nopai"):
            pv = LongPositionVector(gn_addr=peer, tst=TST.set_in_normal_timestamp_milliseconds(T0), latitude=p[0], longitude=p[1], pai=(sender == "pai"))
            r.location_table.new_shb_packet(pv, b"")
        transport = rng.choice(["gbc", "gac"])
        req = GNDataRequest(area=Area(latitude=c["lat0"], longitude=c["lon0"], a=a, b=b, angle=c["az"]),
                            packet_transport_type=PacketTransportType(
                                header_type=HeaderType.GEOBROADCAST if transport == "gbc" else HeaderType.GEOANYCAST,
                                header_subtype=HST[(transport, shape)]))
        try:
            res = r.gn_forwarding_algorithm_selection(req, sender_gn_addr=None if sender == "none" else peer)
            real = {"AREA_FORWARDING": "AREA", "NON_AREA_FORWARDING": "NONAREA", "DISCARTED": "DISCARD"}.get(res.name, res.name)
        except Exception as e:  # noqa: BLE001
            real = "raised:" + type(e).__name__
        ctx.evals()
        x, y = frame_coords(c["lat0"], c["lon0"], c["az"], c["lat"], c["lon"])
        sx, sy = frame_coords(c["lat0"], c["lon0"], c["az"], p[0], p[1])
        if in_band(shape, a, bb, x, y) or (sender in ("pai", "nopai") and in_band(shape, a, bb, sx, sy)):
            ctx.cover("tolerance_skips")
            continue
        ego_in, se_in = oracle_inside(shape, a, bb, x, y), oracle_inside(shape, a, bb, sx, sy)
        want = "AREA" if ego_in else ("DISCARD" if (sender == "pai" and se_in) else "NONAREA")
        tag = dict(c, kind="annexd", sender=sender, se_lat=p[0], se_lon=p[1], transport=transport)
        if real != want:
            ctx.violation(f"Annex D: ego {'inside' if ego_in else 'outside'}, sender {sender} {'inside' if se_in else 'outside'} "
                          f"({shape} a={a} b={b} az={c['az']}): expected {want}, got {real}", tag, classify(tag))
        ctx.cover("annexD_direct_ego%d_%s_se%d" % (ego_in, sender, se_in))
        ctx.nontrivial(("annexd", shape, ego_in, sender, se_in, c["az"] % 90 == 0))
        lines.append(f"F {shape} {a} {bb} {rat(x)} {rat(y)}")
        lines.append(f"F {shape} {a} {bb} {rat(sx)} {rat(sy)}")
        recs.append((tag, real, sender))
    if ctx.model_ok and lines:
        out = ctx.model("Area", lines)
        val = {"+": "1", "0": "0", "-": "-1"}
        l2 = []
        for k, (tag, real, sender) in enumerate(recs):
            f1, f2 = out[2 * k].split()[0], out[2 * k + 1].split()[0]
            se = "none" if sender in ("none", "unknown") else f"{1 if sender == 'pai' else 0}:{val[f2]}"
            l2.append(f"annexd {val[f1]} {se}")
        for (tag, real, sender), mo in zip(recs, ctx.model("Area", l2)):
            if real != mo:
                ctx.mismatch("annexd", tag, real, mo)


# ---------------------------------------------------------------------------------- degenerate semi-axes

def degenerate_cases():
    out = []
    for shape in SHAPES:
        for a, b in ((0, 0), (0, 5), (5, 0)):
            out.append({"shape": shape, "a": a, "b": b, "az": 0, "lat0": 415000000, "lon0": 21000000, "lat": 415000100, "lon": 21000100, "cat": "degenerate"})
    return out


FIXED_DIRECT = [
    # C07-F1 witness: rectangle 100 x 10 m at azimuth 90 deg; receiver 50 m east (inside) and 50 m north (outside)
    {"shape": "rect", "a": 100, "b": 10, "az": 90, "lat0": 415000000, "lon0": 21000000, "lat": 415000000, "lon": 21006003, "cat": "witness"},
    {"shape": "rect", "a": 100, "b": 10, "az": 90, "lat0": 415000000, "lon0": 21000000, "lat": 415004497, "lon": 21000000, "cat": "witness"},
    {"shape": "ellipse", "a": 1000, "b": 100, "az": 45, "lat0": -337000000, "lon0": -703000000, "lat": -336950000, "lon": -702940000, "cat": "witness"},
    # C07-F2 witness: circle across the antimeridian
    {"shape": "circle", "a": 1000, "b": 0, "az": 0, "lat0": 100000000, "lon0": 1799990000, "lat": 100000000, "lon": -1799990000, "cat": "witness"},
]


def run(ctx):
    ctx.extra["rule"] = ("placements = (shape, a, b, azimuth, centre, receiver) with the receiver steered to centre / deep inside / "
                         "near the border inside and outside / far outside / on the a- and b-axes; distinct_nontrivial counts "
                         "distinct (shape, a, b, azimuth, centre degree cell, verdict) direct cases, distinct packet decision inputs, "
                         "source requests and Annex D input combinations")
    ctx.extra["glue"] = "projection+rotation, tolerance-banded (0.5 m + 0.1 % of the distance from the centre)"
    rng = ctx.rng
    with rs.quiet(), rs.VClock(T0):
        corp = [c for _, c in corpus("C07")]
        ctx.cover("corpus_cases", len(corp))
        check_direct(ctx, [c for c in corp if c.get("kind") == "direct"] + FIXED_DIRECT + degenerate_cases(), "F.corpus")
        pk = [c for c in corp if c.get("kind") == "packet"]
        if pk:
            check_packets(ctx, pk)
        check_direct(ctx, [gen_case(rng, False) for _ in range(ctx.scale(8000, 600000))])
        if ctx.thorough:   # azimuth swept in 1 degree steps
            sweep = []
            for az in range(360):
                for _ in range(40):
                    c = gen_case(rng, False)
                    c["az"] = az
                    p = place(c["lat0"], c["lon0"], az, *gen_target(rng, c["shape"], c["a"], c["b"])[1:])
                    if p:
                        c["lat"], c["lon"] = p
                        sweep.append(c)
            check_direct(ctx, sweep, "F.sweep")
            ctx.cover("azimuth_sweep_1deg", 360)
        check_packets(ctx, [gen_packet_case(rng) for _ in range(ctx.scale(2200, 120000))])
        check_source(ctx, ctx.scale(300, 20000))
        check_annexd(ctx, ctx.scale(600, 60000))


def search(ctx):
    ok = ctx.model_ok
    ctx.model_ok = False
    try:
        with rs.quiet(), rs.VClock(T0):
            check_direct(ctx, [gen_case(ctx.rng, False) for _ in range(ctx.scale(12000, 300000))])
            check_packets(ctx, [gen_packet_case(ctx.rng) for _ in range(ctx.scale(4500, 100000))])
            check_source(ctx, ctx.scale(900, 20000))
            check_annexd(ctx, ctx.scale(1800, 60000))
    finally:
        ctx.model_ok = ok


class _Probe:
    """minimal ctx for replay: collects violations only"""

    def __init__(self, ctx):
        self.ctx, self.v = ctx, []
        self.model_ok, self.rng, self.thorough = False, ctx.rng, False

    def violation(self, what, replay, finding=None):
        self.v.append(what)

    def scale(self, q, t):
        return q

    def __getattr__(self, name):
        return lambda *a, **k: None


def replay(ctx, obj):
    case = obj.get("case", obj)
    kind = case.get("kind")
    p = _Probe(ctx)
    with rs.quiet(), rs.VClock(T0):
        if kind == "direct":
            check_direct(p, [case])
        elif kind == "packet":
            check_packets(p, [case])
        elif kind == "source":
            code, pkts = originate(case)
            over = area_size(case["shape"], case["a"], case["b"]) > case["max_src"] * 10 ** 6
            if over != (code == "GEOGRAPHICAL_SCOPE_TOO_LARGE" and not pkts) or (not over and (code != "ACCEPTED" or len(pkts) != 1)):
                p.v.append(f"confirm {code}, {len(pkts)} packets, oversize={over}")
        elif kind == "annexd":
            return _replay_annexd(case)
        else:
            raise Infra(f"unknown replay kind {kind}")
    print("oracle:", p.v or "ok")
    return bool(p.v)


def _replay_annexd(c):
    shape, a, b = c["shape"], c["a"], c["b"]
    bb = b if shape != "circle" else max(b, 1)
    with rs.quiet(), rs.VClock(T0):
        r, _, _ = rs.make_router(1)
        r.ego_position_vector = lpv(r, c["lat"], c["lon"])
        peer = rs.gn_addr(2)
        if c["sender"] in ("pai", "nopai"):
            r.location_table.new_shb_packet(LongPositionVector(gn_addr=peer, tst=TST.set_in_normal_timestamp_milliseconds(T0),
                                                               latitude=c["se_lat"], longitude=c["se_lon"], pai=(c["sender"] == "pai")), b"")
        req = GNDataRequest(area=Area(latitude=c["lat0"], longitude=c["lon0"], a=a, b=b, angle=c["az"]),
                            packet_transport_type=PacketTransportType(
                                header_type=HeaderType.GEOBROADCAST if c["transport"] == "gbc" else HeaderType.GEOANYCAST,
                                header_subtype=HST[(c["transport"], shape)]))
        res = r.gn_forwarding_algorithm_selection(req, sender_gn_addr=None if c["sender"] == "none" else peer)
    real = {"AREA_FORWARDING": "AREA", "NON_AREA_FORWARDING": "NONAREA", "DISCARTED": "DISCARD"}.get(res.name, res.name)
    x, y = frame_coords(c["lat0"], c["lon0"], c["az"], c["lat"], c["lon"])
    sx, sy = frame_coords(c["lat0"], c["lon0"], c["az"], c["se_lat"], c["se_lon"])
    ego_in, se_in = oracle_inside(shape, a, bb, x, y), oracle_inside(shape, a, bb, sx, sy)
    want = "AREA" if ego_in else ("DISCARD" if (c["sender"] == "pai" and se_in) else "NONAREA")
    print(f"Annex D: real {real}, expected {want}")
    return real != want

"""C07 — Geo-addressed packets are delivered exactly inside the destination area.

Theorems: lean/Props/C07.lean about lean/FlexModel/Geo/Area.lean (exact rationals).
Tie: the float/trig glue (projection of WGS-84 coordinates to metres, rotation by the azimuth) stays outside Lean.
The harness places receivers with an INDEPENDENT 50-digit `decimal` implementation of the local projection (own
Taylor-series cosine, longitude wrap) and an explicit rotation into the area frame, feeds (a) the real
`Router.gn_geometric_function_f` (signed coordinate range), (b) the real GBC/GAC receive path of a real Router that
receives a packet originated by a second real Router - directly (sender = source) or relayed by a third real Router
(sender != source) - over all four hemispheres incl. the 180 degree meridian and the polar caps, and compares the
*decision* with the Lean model and with the oracle `oracle_inside` (EN 302 931 transcribed on Fractions, on the
harness' own decimal rotation).  The Lean model receives the receiver's offsets in the LOCAL (north, east) frame of
the centre and an exact rational unit vector (c, s) within 1e-30 rad of (cos, sin) of the azimuth (`unit_cs`:
t = tan(phi/2) rounded to a rational, c = (1-t^2)/(1+t^2), s = 2t/(1+t^2), quarter turns exact) - the ROTATION is done
in Lean (`toFrame`/`codeFrame`), under the hypothesis c^2 + s^2 = 1 of the theorems, which the driver re-checks on every
line.  A band of 0.5 m + 0.1 % of the distance from the centre around the border is excluded and counted.
Round 5: the state the decisions read is produced by HISTORIES on the real code - (g) earlier receptions from the
packet's source with older / equal / newer position vectors (annex C.2: the table keeps the newest; Annex D on the table's
vector), (h) TPV reports of the location service lacking any subset of lat / lon / speed / track (the station is where
the last report WITH a fix put it) - judged on the following GBC / GAC receptions.
"""
from __future__ import annotations

import math
import functools
from decimal import Decimal as D, getcontext
from fractions import Fraction

from common import Infra, corpus
import realstack as rs

from flexstack.geonet.router import Router
from flexstack.geonet.mib import MIB, AreaForwardingAlgorithm
from flexstack.geonet.service_access_point import (
    GNDataRequest, PacketTransportType, HeaderType, GeoBroadcastHST, GeoAnycastHST, TopoBroadcastHST, Area, CommonNH,
    ResultCode)
from flexstack.geonet.position_vector import LongPositionVector, TST
from flexstack.geonet.gbc_extended_header import GBCExtendedHeader
from flexstack.geonet.service_access_point import TrafficClass
import flexstack.geonet.router as router_mod
import flexstack.geonet.location_table as loct_mod
import dsched

MODULES = ["Props.C07"]
DRIVERS = ["Area"]
TRUSTED = [
    "glue: projection+rotation, tolerance-banded — Router.calculate_distance / rotate_to_area_frame (IEEE-754, math.cos/"
    "sin/radians) are validated only by the placement oracle: an independent 50-digit decimal evaluation of the same "
    "local map (sphere R = 6 371 000 m, x = R*dlat, y = R*dlon*cos(mean latitude), longitude difference wrapped to "
    "[-180, 180]) followed by a rotation by the azimuth (clockwise from North); the Lean model rotates itself, with an "
    "exact rational unit vector within 1e-30 rad of the azimuth (exact for 0/90/180/270 degrees and Pythagorean angles)",
    "EN 302 931 does not fix the map projection; the oracle uses the spherical equirectangular local map above",
    "area size: float products math.pi*a*a / math.pi*a*b are modelled by exact rational products with the rational "
    "value of math.pi (differences only possible within 1e-9 relative of the threshold)",
]
ASSUMPTIONS = [
    "receivers closer to the border than 0.5 m + 0.1 % of their distance from the centre are excluded (tolerance_skips)",
    "whole-packet runs: fresh routers, traffic class without SCF, itsGnAreaForwardingAlgorithm = SIMPLE (no CBF timer); "
    "duplicate/DAD/PDR rejections belong to C06; source-side requests: SCF on/off x location table empty / one neighbour "
    "with / without progress towards the area",
    "thread scenarios (harness/dsched.py): ONE concurrent replacement of the sender's LocTE position vector (reception of a "
    "beacon/SHB of the sender) or of the ego position vector (refresh_ego_position_vector) during the reception of one "
    "GBC/GAC packet, schedules with at most one pre-emption (two in the failing-input search); the delivery and the "
    "forwarding decision are judged separately: each must be the decision for ONE of the vectors the object held",
    "known finding C07-KF1: Annex D's sender position vector is looked up under the packet's SOURCE address (the link "
    "layer hands the router no sender address); for a relayed packet (sender != source) whose source and sender entries "
    "disagree on SE_POS_VALID-and-inside, a receiver outside the area forwards where Annex D discards (or vice versa)",
    "placements whose latitude would leave [-90, 90] degrees are not generated",
    "forwarder states (round 6): traffic class with / without store-carry-forward x location table of the forwarder empty / "
    "holding the relay as its only neighbour; in the state 'SCF and no neighbour' (step 10 of 10.3.11.3: BC forwarding packet "
    "buffer, for which the code has a stand-in - GBC: one transmission, GAC: none) and at a greedy-forwarding local optimum "
    "with SCF (annex E.2, C08's subject) only delivery, hop limit, 'at most one transmission' and the area-size control are "
    "judged, not the Annex D choice",
    "sequences of F evaluations (round 6): 2-4 consecutive evaluations on ONE Router instance, single-threaded; speeds of "
    "source and relay over the whole signed 15-bit range, heading 0..3599",
    "sender histories (round 5): 1-3 earlier receptions from the packet's source (beacon / SHB / GBC / GAC, all transmitted "
    "by one real Router) before the packet under test, position-vector timestamps within +-5 s of the virtual clock in steps "
    "of 100 ms incl. equal timestamps (no 2^32 wrap-around: C20), first hop only (sender = source)",
    "ego histories (round 5): 1-6 TPV reports lacking every subset of lat / lon / speed / track, `time` always present, mode "
    "0/1 (or absent) only on reports without lat or lon, handed to Router.refresh_ego_position_vector directly or through the "
    "receive loop of the real GPSDLocationService with a scripted socket; coordinates are chosen to survive the code's float "
    "round trip int(v / 1e7 * 10**7); the station's true position = the last report with lat AND lon (else its position before)",
]

getcontext().prec = 50
PI = D("3.14159265358979323846264338327950288419716939937510582097494459")
R_EARTH = D(6371000)
SHAPES = ("circle", "rect", "ellipse")
HST = {("gbc", "circle"): GeoBroadcastHST.GEOBROADCAST_CIRCLE, ("gbc", "rect"): GeoBroadcastHST.GEOBROADCAST_RECT,
       ("gbc", "ellipse"): GeoBroadcastHST.GEOBROADCAST_ELIP, ("gac", "circle"): GeoAnycastHST.GEOANYCAST_CIRCLE,
       ("gac", "rect"): GeoAnycastHST.GEOANYCAST_RECT, ("gac", "ellipse"): GeoAnycastHST.GEOANYCAST_ELIP}
T0 = 1_700_000_000_000


# ---------------------------------------------------------------------------------- independent projection (decimal)

def dcos(x):
    x = x % (2 * PI)
    if x > PI:
        x -= 2 * PI
    term, s, x2, n = D(1), D(1), x * x, 0
    eps = D(10) ** -55
    while abs(term) > eps:
        n += 2
        term = -term * x2 / (n * (n - 1))
        s += term
    return s


def dsin(x):
    return dcos(x - PI / 2)


def project(lat0, lon0, lat, lon):
    """(north, east) metres of point (lat, lon) relative to (lat0, lon0); all in 1e-7 degree integers"""
    dlon_units = lon - lon0
    if dlon_units > 1800000000:
        dlon_units -= 3600000000
    elif dlon_units < -1800000000:
        dlon_units += 3600000000
    k = PI / (D(180) * D(10000000))
    north = R_EARTH * (D(lat - lat0) * k)
    east = R_EARTH * (D(dlon_units) * k) * dcos(D(lat0 + lat) * k / 2)
    return north, east


def to_frame(north, east, az_deg):
    """frame of the area: abscissa along the azimuth (clockwise from North)"""
    th = D(az_deg) * PI / 180
    c, s = dcos(th), dsin(th)
    return north * c + east * s, -north * s + east * c


@functools.lru_cache(maxsize=None)
def _unit_cs_deg(az):
    q, phi = divmod(int(az) % 360, 90)
    if phi == 0:
        c0, s0 = Fraction(1), Fraction(0)
    else:
        th = D(phi) * PI / 360
        t = Fraction(dsin(th) / dcos(th)).limit_denominator(10 ** 32)
        c0, s0 = (1 - t * t) / (1 + t * t), 2 * t / (1 + t * t)
    for _ in range(q):                 # + 90 degrees: (cos, sin) -> (-sin, cos)
        c0, s0 = -s0, c0
    return c0, s0


def unit_cs(c):
    """exact rational unit vector (cos, sin) of the case's azimuth: `cs` = [n, m, d] with n^2 + m^2 = d^2 for the
    Pythagorean azimuths (exact), otherwise within 1e-30 rad of the integer azimuth (exact for quarter turns)"""
    if c.get("cs"):
        n, m, d = c["cs"]
        return Fraction(n, d), Fraction(m, d)
    return _unit_cs_deg(c["az"])


def local_ne(lat0, lon0, lat, lon):
    n, e = project(lat0, lon0, lat, lon)
    return Fraction(n), Fraction(e)


PYTH = [(3, 4, 5), (5, 12, 13), (8, 15, 17), (7, 24, 25), (20, 21, 29)]


def pyth_azimuth(rng):
    """an azimuth whose sine and cosine are rational: returns (float degrees, [n, m, d])"""
    p, q, d = rng.choice(PYTH)
    if rng.random() < 0.5:
        p, q = q, p
    p, q = p * rng.choice([-1, 1]), q * rng.choice([-1, 1])
    return math.degrees(math.atan2(q, p)) % 360.0, [p, q, d]


def place(lat0, lon0, az, xt, yt):
    """integer (lat, lon) whose frame coordinates are close to the target (xt, yt) metres; None if off the globe"""
    th = math.radians(az)
    north = xt * math.cos(th) - yt * math.sin(th)
    east = xt * math.sin(th) + yt * math.cos(th)
    lat = lat0 + round(math.degrees(north / 6371000.0) * 1e7)
    if abs(lat) > 900000000:
        return None
    cm = math.cos(math.radians((lat0 + lat) / 2e7))
    if abs(cm) < 1e-6:
        return None
    dlon = math.degrees(east / (6371000.0 * cm)) * 1e7
    if abs(dlon) > 1.7e9:
        return None
    lon = lon0 + round(dlon)
    if lon > 1800000000:
        lon -= 3600000000
    elif lon < -1800000000:
        lon += 3600000000
    return lat, lon


def frame_coords(lat0, lon0, az, lat, lon):
    n, e = project(lat0, lon0, lat, lon)
    x, y = to_frame(n, e, az)
    return Fraction(x), Fraction(y)


# ---------------------------------------------------------------------------------- oracle (EN 302 931 on Fractions)

def oracle_inside(shape, a, b, x, y):
    if shape == "circle":
        return x * x + y * y <= a * a
    if shape == "rect":
        return abs(x) <= a and abs(y) <= b
    return (x / a) ** 2 + (y / b) ** 2 <= 1


def border_distance_lb(shape, a, b, x, y):
    """lower bound of the distance (m) of the point to the border of the shape"""
    x, y = float(x), float(y)
    if shape == "circle":
        return abs(math.hypot(x, y) - a)
    if shape == "rect":
        if abs(x) <= a and abs(y) <= b:
            return min(a - abs(x), b - abs(y))
        return math.hypot(max(abs(x) - a, 0.0), max(abs(y) - b, 0.0))
    k = math.sqrt((x / a) ** 2 + (y / b) ** 2)
    return abs(k - 1.0) * min(a, b)


def in_band(shape, a, b, x, y):
    return border_distance_lb(shape, a, b, x, y) < 0.5 + 0.001 * math.hypot(float(x), float(y))


def rat(fr):
    fr = Fraction(fr)
    return f"{fr.numerator}/{fr.denominator}" if fr.denominator != 1 else str(fr.numerator)


# ---------------------------------------------------------------------------------- generators

def gen_area(rng, positive):
    shape = rng.choice(SHAPES)
    a = rng.choice([1, 2, 10, 100, 100, 500, 1000, 1784, 1785, 5000, 65535, rng.randrange(1, 65536), rng.randrange(1, 3000)])
    if rng.random() < 0.6:   # elongated shapes make a missing / wrong rotation visible
        b = max(1, a // rng.choice([2, 3, 5, 10, 50]))
    else:
        b = rng.choice([1, 10, 100, 1000, 65535, rng.randrange(1, 65536), rng.randrange(1, 3000)])
    az = rng.choice([0, 0, 90, 180, 270, 45, 30, 1, 359, 89, 91, rng.randrange(0, 360), rng.randrange(0, 360)])
    if positive:     # one quadrant only (kept for the seeded-change self tests; not used by run/search any more)
        lat0 = rng.choice([415000000, 100000000 + rng.randrange(0, 700000000), 20000000 + rng.randrange(0, 10 ** 7)])
        lon0 = rng.choice([21000000, 20000000 + rng.randrange(0, 1700000000), 20000000 + rng.randrange(0, 10 ** 7)])
    else:            # all four hemispheres, equator / Greenwich / 180 degree meridian, polar caps up to the poles
        lat0 = rng.choice([rng.randrange(-850000000, 850000001), rng.randrange(-850000000, 850000001), 0, 415000000, -337000000, 1000, -1000,
                           rng.choice([-1, 1]) * rng.randrange(850000000, 899990000), rng.choice([-900000000, 900000000, 899999000, -899999000])])
        lon0 = rng.choice([rng.randrange(-1800000000, 1800000001), rng.randrange(-1800000000, 1800000001), 0, 21000000, -703000000,
                           1799990000, -1799990000, 1800000000, -1800000000, 1000, -1000])
    return shape, a, b, az, lat0, lon0


def gen_target(rng, shape, a, b):
    """a target point in the area frame, steered to a category"""
    cat = rng.choice(["centre", "deep_in", "deep_in", "near_in", "near_in", "near_out", "near_out", "far_out", "far_out", "axis_a", "axis_b", "band"])
    bb = a if shape == "circle" else b
    if cat == "centre":
        return cat, 0.0, 0.0
    if cat == "axis_a":      # on the a-axis, beyond b: inside only if the rotation is right
        k = rng.uniform(0.3, 0.95)
        return cat, rng.choice([-1, 1]) * k * a, 0.0
    if cat == "axis_b":      # on the b-axis, between b and a: outside only if the rotation is right
        k = rng.uniform(1.3, 4.0)
        return cat, 0.0, rng.choice([-1, 1]) * k * bb
    phi = rng.uniform(0, 2 * math.pi)
    if shape == "rect":
        u, v = rng.uniform(-1, 1), rng.uniform(-1, 1)
        m = max(abs(u), abs(v)) or 1.0
        ux, vy = u / m * a, v / m * bb
    else:
        ux, vy = a * math.cos(phi), bb * math.sin(phi)
    r = math.hypot(ux, vy)
    band = 0.5 + 0.001 * r
    dims = min(a, bb)
    if cat == "deep_in":
        k = rng.uniform(0.0, 0.9)
    elif cat == "near_in":
        k = 1 - rng.uniform(1.5, 6) * band / dims
        if k <= 0:
            k = rng.uniform(0.0, 0.4)
    elif cat == "near_out":
        k = 1 + rng.uniform(1.5, 6) * band / dims
    elif cat == "band":
        k = 1 + rng.uniform(-0.5, 0.5) * band / r
    else:
        k = rng.uniform(1.2, 5.0)
    return cat, k * ux, k * vy


def gen_case(rng, positive, pyth=False):
    shape, a, b, az, lat0, lon0 = gen_area(rng, positive)
    extra = {}
    if pyth:      # direct calls only: the wire carries whole degrees
        az, extra["cs"] = pyth_azimuth(rng)
    for _ in range(20):
        cat, xt, yt = gen_target(rng, shape, a, b)
        p = place(lat0, lon0, az, xt, yt)
        if p is not None and (not positive or (p[0] > 10 ** 6 and p[1] > 10 ** 6)):
            return dict({"shape": shape, "a": a, "b": b, "az": az, "lat0": lat0, "lon0": lon0, "lat": p[0], "lon": p[1], "cat": cat}, **extra)
    return dict({"shape": shape, "a": a, "b": b, "az": az, "lat0": lat0, "lon0": lon0, "lat": lat0, "lon": lon0, "cat": "centre"}, **extra)


# ---------------------------------------------------------------------------------- (a) direct function calls

_ROUTER = None


def the_router():
    global _ROUTER
    if _ROUTER is None:
        _ROUTER = rs.make_router(1)[0]
    return _ROUTER


def real_f(transport, c, router=None):
    area = Area(latitude=c["lat0"], longitude=c["lon0"], a=c["a"], b=c["b"], angle=c["az"])
    try:
        return (router or the_router()).gn_geometric_function_f(HST[(transport, c["shape"])], area, c["lat"], c["lon"])
    except ZeroDivisionError:
        return "ZeroDivisionError"
    except Exception as e:  # noqa: BLE001
        return type(e).__name__


def check_direct(ctx, cases, stream="F.direct"):
    lines, recs = [], []
    for c in cases:
        transport = c.get("transport") or ("gbc" if (c["lat"] + c["lon"]) % 2 == 0 else "gac")
        f = real_f(transport, c)
        ctx.evals()
        a, b = c["a"], c["b"]
        if a <= 0 or (b <= 0 and c["shape"] != "circle"):
            lines.append(f"F {c['shape']} {a} {b} 0 0")
            recs.append((c, transport, f, None, None, "degenerate"))
            continue
        bb = b if c["shape"] != "circle" else max(b, 1)
        x, y = frame_coords(c["lat0"], c["lon0"], c["az"], c["lat"], c["lon"])       # oracle: own decimal rotation
        n, e = local_ne(c["lat0"], c["lon0"], c["lat"], c["lon"])
        cs = unit_cs(c)
        lines.append(f"Floc {c['shape']} {a} {bb} {rat(cs[0])} {rat(cs[1])} {rat(n)} {rat(e)}")    # model: Lean rotates
        recs.append((c, transport, f, x, y, "band" if in_band(c["shape"], a, bb, x, y) else "ok"))
    out = ctx.model("Area", lines) if ctx.model_ok and lines else [None] * len(lines)
    for (c, transport, f, x, y, kind), mo in zip(recs, out):
        tag = {k: c[k] for k in ("shape", "a", "b", "az", "lat0", "lon0", "lat", "lon")}
        tag.update(kind="direct", transport=transport)
        if c.get("cs"):
            tag["cs"] = c["cs"]
        if kind == "degenerate":
            ctx.cover("degenerate_" + str(f))
            if mo is not None and mo != f:
                ctx.mismatch(stream + ".degenerate", tag, f, mo)
            continue
        if not isinstance(f, float):
            ctx.violation(f"gn_geometric_function_f raised {f} for valid semi-axes", tag)
            continue
        if kind == "band":
            ctx.cover("tolerance_skips")
            continue
        want = oracle_inside(c["shape"], c["a"], c["b"] if c["shape"] != "circle" else 1, x, y)
        got = f >= 0
        ctx.cover(f"direct_{c['shape']}_{'in' if want else 'out'}")
        ctx.cover("cat_" + c.get("cat", "corpus"))
        ctx.cover("azimuth_pythagorean_exact" if c.get("cs") else
                  ("azimuth_0" if c["az"] % 360 == 0 else ("azimuth_quarter_exact" if c["az"] % 90 == 0 else "azimuth_oblique")))
        cover_hemisphere(ctx, "direct", c["lat0"], c["lon0"])
        ctx.nontrivial(("F", c["shape"], c["a"], c["b"], c["az"], c["lat0"] // 10 ** 7, c["lon0"] // 10 ** 7, want))
        if got != want:
            ctx.violation(f"{c['shape']} a={c['a']} b={c['b']} azimuth={c['az']} centre=({c['lat0']},{c['lon0']}): receiver at "
                          f"({c['lat']},{c['lon']}) = frame ({float(x):.2f},{float(y):.2f}) m is {'inside' if want else 'outside'}, "
                          f"F = {f:.6g} says {'inside' if got else 'outside'}", tag, classify(tag))
        if mo is not None:
            mt = mo.split()
            if len(mt) != 5 or mt[0] != "1":           # hypothesis c^2 + s^2 = 1 of the rotation theorems, re-checked by the driver
                ctx.mismatch(stream + ".unit_vector", tag, "c*c+s*s=1", mo)
                continue
            if (mt[1] in "+0") != got:
                ctx.mismatch(stream, tag, f"F={f!r}", mo)
            if (mt[2] == "1") != want:
                ctx.mismatch(stream + ".oracle_vs_model", tag, want, mo)
            if (mt[4] in "+0") != (mt[1] in "+0"):
                ctx.cover("rotation_decides")      # the pre-F1 (unrotated) evaluation would have decided this placement the other way
    if recs:
        c, tr, f, x, y, kind = recs[len(recs) // 2]
        ctx.sample("direct", {"case": {k: v for k, v in c.items()}, "F": f if not isinstance(f, float) else round(f, 9),
                              "frame_xy_m": None if x is None else [round(float(x), 3), round(float(y), 3)], "kind": kind})

# ---------------------------------------------------------------------------------- (a2) SEQUENCES of F evaluations on ONE router (round 6)

FSEQ_VARY = ("az", "az", "az", "az", "ab", "shape", "all", "same", "point", "centre")


def gen_fseq(rng):
    """2-4 consecutive evaluations of F on one Router instance.  From one evaluation to the next exactly one dimension of the
    query changes (azimuth / semi-axes / shape / the point / the centre), everything (`all`) or nothing (`same`): an
    evaluation must not depend on what the instance was asked before (F is a function of area and point)."""
    c = gen_case(rng, False)
    st = {"shape": c["shape"], "a": c["a"], "b": c["b"], "az": c["az"], "lat0": c["lat0"], "lon0": c["lon0"],
          "lat": c["lat"], "lon": c["lon"], "transport": rng.choice(["gbc", "gac"]), "vary": "first"}
    steps = [st]
    for _ in range(rng.choice([1, 1, 2, 3])):
        s = dict(steps[-1])
        v = s["vary"] = rng.choice(FSEQ_VARY)
        if v in ("az", "all"):
            s["az"] = (s["az"] + rng.choice([90, 90, 270, 45, 30, 180, 1, 359, rng.randrange(1, 360)])) % 360
        if v in ("ab", "all"):
            k = rng.choice(["swap", "grow", "shrink", "b"])
            if k == "swap" and s["a"] != s["b"]:
                s["a"], s["b"] = s["b"], s["a"]
            elif k == "grow":
                s["a"], s["b"] = min(65535, s["a"] * rng.choice([2, 3, 10])), min(65535, s["b"] * rng.choice([1, 2, 10]))
            elif k == "shrink":
                s["a"], s["b"] = max(1, s["a"] // rng.choice([2, 3, 10])), max(1, s["b"] // rng.choice([1, 2, 10]))
            else:
                s["b"] = max(1, rng.choice([s["a"], s["a"] // 7, s["b"] * 5 % 65536, rng.randrange(1, 3000)]))
        if v in ("shape", "all"):
            s["shape"] = rng.choice([x for x in SHAPES if x != s["shape"]])
        if v == "point":
            s["lat"], s["lon"] = _place_somewhere(rng, s)
        if v == "centre":
            p = place(s["lat0"], s["lon0"], 0, rng.uniform(-2, 2) * s["a"], rng.uniform(-2, 2) * s["a"])
            if p is not None:
                s["lat0"], s["lon0"] = p
        s["transport"] = rng.choice(["gbc", "gac"])
        steps.append(s)
    return {"kind": "fseq", "steps": steps}


def fseq_fixed():
    """ellipse / rectangle 400 x 50 m, station 300 m north of the centre: on the long axis for azimuth 0, 250 m outside for
    azimuth 90 - evaluated in both orders, and the same with the semi-axes swapped instead of the azimuth turned"""
    out = []
    lat0, lon0 = 485000000, -1235000000
    lat, lon = place(lat0, lon0, 0, 300.0, 0.0)
    for shape in ("ellipse", "rect"):
        for seq in ((0, 90), (90, 0), (0, 180, 90), (45, 315)):
            out.append({"kind": "fseq", "steps": [{"shape": shape, "a": 400, "b": 50, "az": az, "lat0": lat0, "lon0": lon0, "lat": lat,
                                                    "lon": lon, "transport": "gbc" if i % 2 == 0 else "gac", "vary": "az" if i else "first"}
                                                   for i, az in enumerate(seq)]})
        out.append({"kind": "fseq", "steps": [{"shape": shape, "a": a, "b": b, "az": 0, "lat0": lat0, "lon0": lon0, "lat": lat, "lon": lon,
                                                "transport": "gbc", "vary": "ab" if i else "first"} for i, (a, b) in enumerate(((400, 50), (50, 400)))]})
    return out


def check_fseq(ctx, cases, stream="F.sequence"):
    lines, recs = [], []
    for c in cases:
        r = rs.make_router(1)[0]              # ONE instance for the whole sequence
        bad, hist = [], []
        for k, s in enumerate(c["steps"]):
            f = real_f(s["transport"], s, r)
            ctx.evals()
            shape, a, b = s["shape"], s["a"], s["b"]
            bb = b if shape != "circle" else max(b, 1)
            x, y = frame_coords(s["lat0"], s["lon0"], s["az"], s["lat"], s["lon"])
            hist.append(f"{shape} a={a} b={b} az={s['az']}")
            if not isinstance(f, float):
                bad.append(f"evaluation #{k + 1} ({hist[-1]}) raised {f}")
                continue
            if in_band(shape, a, bb, x, y):
                ctx.cover("tolerance_skips")
                continue
            want = oracle_inside(shape, a, bb, x, y)
            got = f >= 0
            ctx.cover(f"fseq_step_{s.get('vary', 'first')}_{'in' if want else 'out'}")
            if k:
                p = c["steps"][k - 1]
                px, py = frame_coords(p["lat0"], p["lon0"], p["az"], p["lat"], p["lon"])
                pb = p["b"] if p["shape"] != "circle" else max(p["b"], 1)
                if oracle_inside(p["shape"], p["a"], pb, px, py) != want:
                    ctx.cover("fseq_verdict_flips_between_consecutive_evaluations")
                    if (p["lat0"], p["lon0"], p["lat"], p["lon"]) == (s["lat0"], s["lon0"], s["lat"], s["lon"]):
                        ctx.cover("fseq_verdict_flips_same_centre_and_point")
                ctx.nontrivial(("fseq", s.get("vary"), shape, a, b, s["az"], p["az"], want))
            if got != want:
                bad.append(f"evaluation #{k + 1} on one Router ({hist[-1]}; before: {'; '.join(hist[:-1]) or 'nothing'}): point at frame "
                           f"({float(x):.2f},{float(y):.2f}) m is {'inside' if want else 'outside'}, F = {f:.6g} says {'inside' if got else 'outside'}")
            n, e = local_ne(s["lat0"], s["lon0"], s["lat"], s["lon"])
            cs = unit_cs(s)
            lines.append(f"Floc {shape} {a} {bb} {rat(cs[0])} {rat(cs[1])} {rat(n)} {rat(e)}")
            recs.append((c, k, got))
        ctx.cover("fseq_len_%d" % len(c["steps"]))
        if bad:
            ctx.violation("sequence of F evaluations on one Router instance: " + "; ".join(bad[:2]), c)
    if ctx.model_ok and lines:
        for (c, k, got), mo in zip(recs, ctx.model("Area", lines)):
            mt = mo.split()
            if len(mt) != 5 or mt[0] != "1":
                ctx.mismatch(stream + ".unit_vector", c, "c*c+s*s=1", mo)
            elif (mt[1] in "+0") != got:
                ctx.mismatch(stream, dict(c, step=k), got, mo)
    if cases:
        ctx.sample("fseq", cases[len(cases) // 2])


def cover_hemisphere(ctx, what, lat0, lon0):
    ctx.cover(f"{what}_hemisphere_{'N' if lat0 >= 0 else 'S'}{'E' if lon0 >= 0 else 'W'}")
    if abs(lon0) >= 1799000000:
        ctx.cover(f"{what}_at_180_meridian")
    if abs(lat0) >= 850000000:
        ctx.cover(f"{what}_polar_cap")


def classify(tag):
    """known finding C07-KF1 (Annex D keyed by the source instead of the sender): decided by `kf1_region` in
    check_packets from the oracle's own quantities; direct / source / annexd cases never fall under it"""
    return tag.get("_kf")


# ---------------------------------------------------------------------------------- (b) whole packets

def lpv(router, lat, lon, pai=True, speed=0, heading=0):
    """speed in 0.01 m/s, SIGNED 15 bit on the wire (negative = reversing); heading in 0.1 degrees"""
    return LongPositionVector(gn_addr=router.mib.itsGnLocalGnAddr, tst=TST.set_in_normal_timestamp_milliseconds(T0),
                              latitude=lat, longitude=lon, pai=pai, s=speed, h=heading)


def originate(c):
    """source router A: returns (confirm code name, packets handed to the link layer)"""
    kw = dict(itsGnMaxGeoAreaSize=c.get("max_src", 10 ** 7))
    if c.get("hop", 10) <= 1:
        kw["itsGnDefaultHopLimit"] = 1
    A, llA, _ = rs.make_router(1, **kw)
    A.ego_position_vector = lpv(A, c["src_lat"], c["src_lon"], c.get("src_pai", True), c.get("src_speed", 0), c.get("src_heading", 0))
    if c.get("nbr"):            # one neighbour in the source's location table (learnt from a beacon)
        A.location_table.new_shb_packet(LongPositionVector(gn_addr=rs.gn_addr(7), tst=TST.set_in_normal_timestamp_milliseconds(T0),
                                                           latitude=c["nbr"][0], longitude=c["nbr"][1], pai=True), b"")
    ht = HeaderType.GEOBROADCAST if c["transport"] == "gbc" else HeaderType.GEOANYCAST
    req = GNDataRequest(upper_protocol_entity=CommonNH.BTP_B, data=b"c07", length=3,
                        packet_transport_type=PacketTransportType(header_type=ht, header_subtype=HST[(c["transport"], c["shape"])]),
                        area=Area(latitude=c["lat0"], longitude=c["lon0"], a=c["a"], b=c["b"], angle=c["az"]),
                        max_hop_limit=c.get("hop", 10), traffic_class=TrafficClass(scf=bool(c.get("scf", False))))
    try:
        conf = A.gn_data_request(req)
        code = conf.result_code.name
    except Exception as e:  # noqa: BLE001
        code = "raised:" + type(e).__name__
    return code, llA.take()


def relay(c, pkt):
    """the relaying station R (a third real Router, address 3, no size limit): receives the source's frame and forwards
    it.  Returns (frames R forwarded, R's SHB frame or None, error name or None)"""
    rl = c["relay"]
    R, llR, _ = rs.make_router(3, itsGnMaxGeoAreaSize=10 ** 7, itsGnAreaForwardingAlgorithm=AreaForwardingAlgorithm.SIMPLE)
    R.ego_position_vector = lpv(R, rl["lat"], rl["lon"], rl.get("pai", True), rl.get("speed", 0), rl.get("heading", 0))
    try:
        R.gn_data_indicate(pkt)
    except Exception as e:  # noqa: BLE001
        return [], None, type(e).__name__
    fw = llR.take()
    shb = None
    if rl.get("known", True):      # the receiver learns the sender's position from a single-hop broadcast of R
        R.gn_data_request(GNDataRequest(upper_protocol_entity=CommonNH.BTP_B, data=b"r", length=1,
                                        packet_transport_type=PacketTransportType(header_type=HeaderType.TSB,
                                                                                  header_subtype=TopoBroadcastHST.SINGLE_HOP)))
        out = llR.take()
        shb = out[0] if out else None
    return fw, shb, None


def receive(c, pkt, shb=None):
    """receiver / forwarder B: returns (actions, error, indications, frames sent)"""
    B, llB, inds = rs.make_router(2, itsGnMaxGeoAreaSize=c.get("max_rx", 10 ** 7),
                                  itsGnAreaForwardingAlgorithm=AreaForwardingAlgorithm.SIMPLE)
    B.ego_position_vector = lpv(B, c["lat"], c["lon"])
    if shb is not None:
        B.gn_data_indicate(shb)
        llB.take()
        del inds[:]
    greedy = []
    orig = B.gn_greedy_forwarding

    def spy(*a, **k):
        r = orig(*a, **k)
        greedy.append(r)
        return r
    B.gn_greedy_forwarding = spy
    try:
        B.gn_data_indicate(pkt)
        err = None
    except Exception as e:  # noqa: BLE001
        err = type(e).__name__
    sent = llB.take()
    acts = ["deliver"] * len(inds)
    for _ in sent:
        acts.append("fwd-nonarea" if greedy else "fwd-area")
    c["_stored"] = {}
    for who, i in (("source", 1), ("relay", 3)):       # what B's location table now holds for the stations of the case
        try:
            e = B.location_table.get_entry(rs.gn_addr(i))
            pv = e.position_vector if e is not None else None
            if pv is not None:
                c["_stored"][who] = (pv.latitude, pv.longitude, bool(pv.pai), pv.s, pv.h)
        except Exception:  # noqa: BLE001
            pass
    return acts, err, inds, sent


_SE_KEY = None


def detect_se_key():
    """C07-KF1 variant detection on the real code: circle r = 100 m, source 500 m north (outside), relay at the centre
    (inside, PAI, known to the receiver), receiver 150 m north (outside).  Annex D with the SENDER's position: discard;
    keyed by the SOURCE: non-area forwarding."""
    global _SE_KEY
    if _SE_KEY is None:
        lat0, lon0 = 415000000, 21000000
        c = {"transport": "gbc", "shape": "circle", "a": 100, "b": 0, "az": 0, "lat0": lat0, "lon0": lon0, "hop": 5, "src_pai": True,
             "relay": {"lat": lat0, "lon": lon0, "pai": True, "known": True}}
        c["src_lat"], c["src_lon"] = place(lat0, lon0, 0, 500.0, 0.0)
        c["lat"], c["lon"] = place(lat0, lon0, 0, 150.0, 0.0)
        code, pkts = originate(c)
        fw, shb, _ = relay(c, pkts[0]) if pkts else ([], None, None)
        acts = receive(c, fw[0], shb)[0] if fw else []
        _SE_KEY = "source" if any(a.startswith("fwd") for a in acts) else "sender"
    return _SE_KEY


def check_packets(ctx, cases):
    lines, recs = [], []
    key = detect_se_key()
    for c in cases:
        code, pkts = originate(c)
        ctx.evals()
        a, b, shape = c["a"], c["b"], c["shape"]
        bb = b if shape != "circle" else max(b, 1)
        tag = dict(c, kind="packet")
        if code != "ACCEPTED" or len(pkts) != 1:
            ctx.violation(f"source refused/failed a request that fits the limit: {code}, {len(pkts)} packets", tag)
            continue
        pkt, shb, rl = pkts[0], None, c.get("relay")
        if rl:
            fw, shb, rerr = relay(c, pkt)
            if rerr or len(fw) != 1:       # the relay discarded (its own Annex D decision; judged as a one-hop case elsewhere)
                ctx.cover("relay_did_not_forward")
                continue
            pkt = fw[0]
        rhl = pkt[3]
        acts, err, inds, sent = receive(c, pkt, shb)
        stored = c.pop("_stored", {})
        # state of the forwarder B: traffic class with store-carry-forward and NO neighbour in its location table (the source
        # of a multi-hop packet is no neighbour; a relay is one only if B heard its single-hop broadcast)
        bc = bool(c.get("scf")) and shb is None
        x, y = frame_coords(c["lat0"], c["lon0"], c["az"], c["lat"], c["lon"])
        sx, sy = frame_coords(c["lat0"], c["lon0"], c["az"], c["src_lat"], c["src_lon"])
        rx, ry = frame_coords(c["lat0"], c["lon0"], c["az"], rl["lat"], rl["lon"]) if rl else (sx, sy)
        if in_band(shape, a, bb, x, y) or in_band(shape, a, bb, sx, sy) or in_band(shape, a, bb, rx, ry):
            ctx.cover("tolerance_skips")
            continue
        ego_in = oracle_inside(shape, a, bb, x, y)
        so_in = oracle_inside(shape, a, bb, sx, sy)
        so_pai = c.get("src_pai", True)
        # Annex D's sender = the station the frame was received from: the source on the first hop, the relay afterwards
        if rl:
            se_known, se_pai, se_in = rl.get("known", True), rl.get("pai", True), oracle_inside(shape, a, bb, rx, ry)
        else:
            se_known, se_pai, se_in = True, so_pai, so_in
        se_verdict = se_known and se_pai and se_in          # SE_POS_VALID and F(sender) >= 0
        so_verdict = so_pai and so_in                        # the same for the source's entry (what the code consults)
        size = area_size(shape, a, b)
        over = size > c.get("max_rx", 10 ** 7) * 10 ** 6
        # ---- oracle: property text
        bad, annex_bad = [], []
        if err:
            bad.append(f"receive path raised {err}")
        if ego_in and "deliver" not in acts:
            bad.append("receiver inside the area got no indication")
        if not ego_in and "deliver" in acts:
            bad.append("receiver outside the area got an indication")
        if acts.count("deliver") > 1:
            bad.append("delivered more than once")
        fw = [x_ for x_ in acts if x_.startswith("fwd")]
        if c["transport"] == "gac" and ego_in and fw:
            bad.append("GAC delivered inside the area and forwarded as well")
        if over and fw:
            bad.append("packet with an area larger than itsGnMaxGeoAreaSize was forwarded"
                       + (" [traffic class SCF, no neighbour in the forwarder's location table]" if bc else ""))
        # the location table must hold the position-accuracy flag the source TRANSMITTED (Annex D's SE_POS_VALID input)
        st_so = stored.get("source")
        if st_so is not None and not err and st_so[2] != bool(so_pai):
            bad.append(f"source transmitted PAI={bool(so_pai)} (speed {c.get('src_speed', 0)} cm/s) but the receiver's location table holds PAI={st_so[2]}")
        st_rl = stored.get("relay")
        if rl and shb is not None and st_rl is not None and not err and st_rl[2] != bool(rl.get("pai", True)):
            bad.append(f"relay transmitted PAI={bool(rl.get('pai', True))} (speed {rl.get('speed', 0)} cm/s) but the receiver's location table holds PAI={st_rl[2]}")
        if st_so is not None and st_so[3] != c.get("src_speed", 0):
            ctx.cover("stored_speed_differs_from_transmitted")
        if bc and not over and rhl > 1 and not (c["transport"] == "gac" and ego_in):
            # no neighbour and SCF: the packet belongs into the BC forwarding packet buffer; the code's stand-in for the
            # buffer (GBC: one transmission, GAC: none) is not judged against the Annex D table, only "at most once"
            ctx.cover("forwarder_scf_no_neighbour_fits_%s_%d_transmissions" % (c["transport"], len(fw)))
            if len(fw) > 1:
                annex_bad.append(f"SCF and no neighbour: {len(fw)} transmissions")
        elif not over and rhl > 1 and not (c["transport"] == "gac" and ego_in):
            want = "fwd-area" if ego_in else ("none" if se_verdict else "fwd-nonarea")
            got = fw[0] if fw else "none"
            if want == "fwd-nonarea" and c.get("scf") and rl:
                # SCF and the relay is the forwarder's only neighbour: greedy forwarding (annex E.2) transmits if the relay is
                # closer to the area centre than the forwarder, otherwise (local optimum) the packet is kept back
                d_rl = math.hypot(*map(float, project(c["lat0"], c["lon0"], rl["lat"], rl["lon"])))
                d_ego = math.hypot(*map(float, project(c["lat0"], c["lon0"], c["lat"], c["lon"])))
                if abs(d_rl - d_ego) <= 1 + 0.01 * max(d_rl, d_ego):
                    ctx.cover("tolerance_skips")
                    lo = None
                    want = got if got in ("none", "fwd-nonarea") else want
                else:
                    lo = d_rl > d_ego
                    if lo:
                        want = "none"
                ctx.cover("forwarder_scf_neighbour_%s" % ("tie" if lo is None else ("local_optimum" if lo else "progress")))
                if lo is not False:
                    bc = None                   # state outside the model's receive function (greedy's verdict is C08's)
            if got != want or len(fw) > 1:
                annex_bad.append(f"Annex D: ego {'inside' if ego_in else 'outside'}, sender "
                                 f"{'= source' if not rl else ('relay' if se_known else 'relay (unknown to the receiver)')} PAI={se_pai} "
                                 f"{'inside' if se_in else 'outside'} -> expected {want}, got {fw or 'none'}")
        if rhl <= 1 and fw:
            bad.append("forwarded with remaining hop limit 1")
        for ind in inds:
            ar = ind.destination_area
            if (ar.latitude, ar.longitude, ar.a, ar.b, ar.angle) != (c["lat0"], c["lon0"], a, b, c["az"]):
                bad.append("indication reports a different destination area")
        for s in sent:
            if s[3] != rhl - 1:
                bad.append(f"forwarded with RHL {s[3]}, received {rhl}")
        # C07-KF1 region: a relayed packet, receiver outside, source and sender entries disagree on the Annex D verdict
        kf1_region = bool(rl) and not ego_in and so_verdict != se_verdict
        if bad or annex_bad:
            # ... and the observed transmissions are exactly those of Annex D evaluated on the SOURCE's entry
            only_kf = (not bad) and kf1_region and fw == ([] if so_verdict else ["fwd-nonarea"])
            tag2 = dict(tag, _kf="C07-KF1") if only_kf else tag
            ctx.violation(f"{c['transport']} {shape} a={a} b={b} azimuth={c['az']} rhl={rhl}: " + "; ".join((bad + annex_bad)[:3]),
                          tag2, classify(tag2))
        ctx.cover(f"packet_{c['transport']}_{shape}_{'in' if ego_in else 'out'}")
        ctx.cover("annexD_%s_ego%d_valid%d_se%d" % ("relayed" if rl else "firsthop", ego_in, se_known and se_pai, se_in))
        if rl:
            ctx.cover("relayed_packets")
            ctx.cover("relayed_source_vs_sender_" + ("disagree" if so_verdict != se_verdict else "agree"))
        cover_hemisphere(ctx, "packet", c["lat0"], c["lon0"])
        if c["lat"] < 0 or c["lon"] < 0 or c["src_lat"] < 0 or c["src_lon"] < 0:
            ctx.cover("packet_negative_coordinate_on_the_wire")
        if over:
            ctx.cover("packet_oversize_at_receiver")
            ctx.cover("packet_oversize_at_receiver_scf%d_%s_%s" % (bool(c.get("scf")), "no_neighbour" if shb is None else "neighbour",
                                                                 "rhl1" if rhl <= 1 else "rhl>1"))
        sp = c.get("src_speed", 0)
        ctx.cover("source_speed_%s_pai%d" % ("negative" if sp < 0 else ("zero" if sp == 0 else "positive"), bool(so_pai)))
        if sp < 0 and not so_pai and so_in and not ego_in and not rl and not over and rhl > 1:
            ctx.cover("annexD_firsthop_reversing_source_inside_without_pai_ego_outside")
        ctx.cover(f"rhl_{'1' if rhl <= 1 else ('2' if rhl == 2 else 'more')}")
        ctx.nontrivial(("pkt", c["transport"], shape, a, b, c["az"], ego_in, so_in, so_pai, bool(rl), se_verdict, over, min(rhl, 3), bc,
                        (sp > 0) - (sp < 0)))
        # ---- model: Lean rotates ego / source / sender itself (local offsets + exact unit vector), then decides
        cs = unit_cs(c)
        for (la, lo) in ((c["lat"], c["lon"]), (c["src_lat"], c["src_lon"]), ((rl["lat"], rl["lon"]) if rl else (c["src_lat"], c["src_lon"]))):
            n, e = local_ne(c["lat0"], c["lon0"], la, lo)
            lines.append(f"Floc {shape} {a} {bb} {rat(cs[0])} {rat(cs[1])} {rat(n)} {rat(e)}")
        lines.append(f"size {shape} {a} {b} {c.get('max_rx', 10 ** 7)}")
        if bc is not None and c.get("scf") and rl and shb is not None and not ego_in:
            # forwarder outside with SCF whose only neighbour is the relay: whatever entry Annex D is keyed by, a non-area
            # verdict ends in greedy forwarding, which keeps the packet back at a local optimum (C08's subject)
            d_rl = math.hypot(*map(float, project(c["lat0"], c["lon0"], rl["lat"], rl["lon"])))
            d_ego = math.hypot(*map(float, project(c["lat0"], c["lon0"], c["lat"], c["lon"])))
            if not d_rl < d_ego - (1 + 0.01 * max(d_rl, d_ego)):
                bc = "lo"
        recs.append((tag, acts, rhl, over, (so_pai, se_known, se_pai), bc))
    if ctx.model_ok and lines:
        out = ctx.model("Area", lines)
        lines2 = []
        val = {"+": "1", "0": "0", "-": "-1"}
        for k, (tag, acts, rhl, over, (so_pai, se_known, se_pai), bc) in enumerate(recs):
            f = [out[4 * k + j].split() for j in range(3)]
            ov = out[4 * k + 3]
            if any(len(t) != 5 or t[0] != "1" for t in f):
                ctx.mismatch("packet.unit_vector", tag, "c*c+s*s=1", [" ".join(t) for t in f])
                lines2.append("gbc3 0 source 1 1 0 0 none none")
                continue
            se_src = f"{1 if so_pai else 0}:{val[f[1][1]]}"
            se_snd = f"{1 if se_pai else 0}:{val[f[2][1]]}" if se_known else "none"
            if bc is None:
                lines2.append("gbc3 0 source 1 1 0 0 none none")
                continue
            lines2.append(f"{tag['transport']}3 {1 if bc is True else 0} {key} {val[f[0][1]]} {rhl} {ov} 0 {se_src} {se_snd}")
            if (ov == "1") != over:
                ctx.mismatch("size.oracle_vs_model", tag, over, ov)
        out2 = ctx.model("Area", lines2)
        for (tag, acts, rhl, over, _, bc), l2, mo in zip(recs, lines2, out2):
            if l2.endswith("none none") and l2.startswith("gbc3 0 source 1 1 0 0"):
                continue
            if bc == "lo" and mo == "[fwd-nonarea]" and acts == []:
                ctx.cover("model_nonarea_at_scf_local_optimum_not_compared")
                continue
            if "[" + " ".join(acts) + "]" != mo:
                ctx.mismatch("packet.actions", tag, acts, mo)
    if recs:
        ctx.sample("packet", {"case": recs[0][0], "actions": recs[0][1], "rhl": recs[0][2]})
        rel = [r for r in recs if r[0].get("relay")]
        if rel:
            ctx.sample("packet_relayed", {"case": rel[0][0], "actions": rel[0][1], "rhl": rel[0][2]})


def area_size(shape, a, b):
    pi = Fraction(math.pi)
    return pi * a * a if shape == "circle" else (pi * a * b if shape == "ellipse" else Fraction(4 * a * b))


def _place_somewhere(rng, c):
    """a position steered to a category relative to the case's area (centre if nothing fits on the globe)"""
    for _ in range(20):
        cat, xt, yt = gen_target(rng, c["shape"], c["a"], c["b"])
        p = place(c["lat0"], c["lon0"], c["az"], xt, yt)
        if p is not None:
            return p
    return c["lat0"], c["lon0"]


def gen_packet_case(rng, relay_p=0.4):
    c = gen_case(rng, False)                      # all four hemispheres, +-180 degrees, polar caps: signed values on the wire
    c["transport"] = rng.choice(["gbc", "gac"])
    shape, a, b = c["shape"], c["a"], c["b"]
    c["src_lat"], c["src_lon"] = _place_somewhere(rng, c)       # source position: inside or outside the area
    c["src_pai"] = rng.random() < 0.6
    c["hop"] = rng.choice([1, 2, 2, 3, 10, 10, 255])
    size = float(area_size(shape, a, b)) / 1e6
    c["max_rx"] = rng.choice([10, 10, 1, 100, 10 ** 7, max(1, int(size)), int(size) + 1, max(1, int(size) - 1)])
    # round 6: traffic class with store-carry-forward (the source gets a neighbour at the area centre so that it transmits
    # at once; the FORWARDER's table stays empty unless it hears the relay's single-hop broadcast) x signed speed of the
    # stations (reversing vehicle: 15 bit two's complement next to the PAI bit on the wire)
    if rng.random() < 0.3:
        c["scf"] = True
        c["nbr"] = [c["lat0"], c["lon0"]]
    c["src_speed"] = rng.choice([0, 0, 1500, 16383, -1, -150, -150, -16384, rng.randrange(-16384, 16384)])
    c["src_heading"] = rng.choice([0, 900, 3599, rng.randrange(0, 3600)])
    if rng.random() < relay_p:                    # two hops: the receiver gets the frame from a relay, sender != source
        c["hop"] = rng.choice([3, 3, 10, 255, 2])
        rl = dict(zip(("lat", "lon"), _place_somewhere(rng, c)))
        rl["pai"] = rng.random() < 0.7
        rl["known"] = rng.random() < 0.8
        rl["speed"] = rng.choice([0, 0, 1500, -150, -16384, rng.randrange(-16384, 16384)])
        c["relay"] = rl
        if rng.random() < 0.5:                     # make the relay forward more often: source outside or without PAI
            c["src_pai"] = rng.random() < 0.5
    return c


# ---------------------------------------------------------------------------------- (c) source: area size control

def judge_source(c, code, pkts):
    """oracle for one source-side request (property text + clause 10.3.11.2): an over-sized request is refused with
    GEOGRAPHICAL_SCOPE_TOO_LARGE and nothing is sent - in EVERY state of the source; a fitting one is ACCEPTED and
    transmitted once, except that a store-carry-forward packet is kept back (0 transmissions) while there is no
    neighbour or - source outside the area - no neighbour with progress towards it.  Returns (oversize, expected
    number of transmissions, complaints)."""
    shape, a, b, mx = c["shape"], c["a"], c["b"], c["max_src"]
    over = area_size(shape, a, b) > mx * 10 ** 6
    scf, nb = bool(c.get("scf")), c.get("nbr_kind", "none")
    inside_src = (c["src_lat"], c["src_lon"]) == (c["lat0"], c["lon0"])
    state = f"[SCF={int(scf)}, location table: {nb}]"
    bad = []
    if over:
        want_n = 0
        if code != ResultCode.GEOGRAPHICAL_SCOPE_TOO_LARGE.name or pkts:
            bad.append(f"request for {shape} a={a} b={b} ({float(area_size(shape, a, b)) / 1e6:.6f} km2) with itsGnMaxGeoAreaSize={mx} "
                       f"{state}: confirm {code}, {len(pkts)} packets sent (must be refused with GEOGRAPHICAL_SCOPE_TOO_LARGE, nothing sent)")
    else:
        want_n = 0 if (scf and (nb == "none" or (not inside_src and nb != "progress"))) else 1
        if code != "ACCEPTED" or len(pkts) != want_n:
            bad.append(f"request for {shape} a={a} b={b} within itsGnMaxGeoAreaSize={mx} {state}: confirm {code}, {len(pkts)} packets "
                       f"(expected ACCEPTED, {want_n})")
    if pkts:
        eh = GBCExtendedHeader.decode(pkts[0][12:12 + 44])
        if (eh.latitude, eh.longitude, eh.a, eh.b, eh.angle) != (c["lat0"], c["lon0"], a, b, c["az"]):
            bad.append(f"area on the wire {(eh.latitude, eh.longitude, eh.a, eh.b, eh.angle)} differs from the request")
    return over, want_n, bad


def check_source(ctx, n):
    rng = ctx.rng
    lines, recs = [], []
    for _ in range(n):
        shape = rng.choice(SHAPES)
        mx = rng.choice([1, 10, 10, 100, 1000, 13493, rng.randrange(1, 14000)])
        lim = mx * 10 ** 6
        if shape == "circle":
            a0 = int(math.sqrt(lim / math.pi))
            a = min(65535, max(1, a0 + rng.choice([-2, -1, 0, 1, 2, rng.randrange(-a0, a0 + 1)])))
            b = rng.choice([0, a, 1])
        else:
            a = rng.choice([1, 100, 1000, 65535, rng.randrange(1, 65536)])
            b0 = int(lim / (math.pi * a)) if shape == "ellipse" else lim // (4 * a)
            b = min(65535, max(1, b0 + rng.choice([-2, -1, 0, 1, 2, 3, rng.randrange(-b0, b0 + 1) if b0 else 0])))
        inside_src = rng.random() < 0.5
        lat0 = rng.choice([415000000, -337000000, rng.randrange(-800000000, 800000001)])
        lon0 = rng.choice([21000000, -703000000, 1799990000, -1800000000, rng.randrange(-1800000000, 1800000001)])
        c = {"transport": rng.choice(["gbc", "gac"]), "shape": shape, "a": a, "b": b, "az": rng.randrange(360), "lat0": lat0, "lon0": lon0,
             "max_src": mx, "hop": 10, "src_pai": True}
        off = 0 if inside_src else (30000000 if lat0 < 0 else -30000000)       # source at the centre / 333 km towards the equator
        c["src_lat"], c["src_lon"] = lat0 + off, lon0
        # state of the source: traffic class with / without store-carry-forward x location table empty / one neighbour that
        # is closer to the area centre than the source (greedy progress) / farther away (local optimum)
        c["scf"] = rng.random() < 0.5
        nb = rng.choice(["none", "none", "progress", "behind"])
        if nb != "none":
            step = (15000000 if lat0 < 0 else -15000000)
            c["nbr"] = [lat0 + (off // 2 if nb == "progress" else off + step) if not inside_src else lat0 + step, lon0]
        c["nbr_kind"] = nb
        cover_hemisphere(ctx, "source", lat0, lon0)
        code, pkts = originate(c)
        ctx.evals()
        tag = dict(c, kind="source")
        over, want_n, bad = judge_source(c, code, pkts)
        for w in bad:
            ctx.violation(w, tag)
        ctx.cover("source_oversize" if over else "source_fits")
        ctx.cover("source_%s_scf%d_loct_%s" % ("oversize" if over else "fits", c["scf"], nb))
        ctx.nontrivial(("src", shape, a, b, mx, c["scf"], nb, inside_src))
        # F(ego) sign for the model: source inside (centre) / 333 km north; buffer case = no neighbour and SCF;
        # greedy forwarding transmits unless it is at a local optimum with SCF
        bc = c["scf"] and nb == "none"
        greedy_ok = nb == "progress" or not c["scf"]
        lines.append(f"src {shape} {a} {b} {mx} {'1' if inside_src else '-1'} {1 if bc else 0} {1 if greedy_ok else 0}")
        recs.append((tag, f"{code} {len(pkts)}"))
    if ctx.model_ok and lines:
        for (tag, real), mo in zip(recs, ctx.model("Area", lines)):
            if real != mo:
                ctx.mismatch("source.confirm", tag, real, mo)


# ---------------------------------------------------------------------------------- (d) Annex D, direct, signed coordinates

def check_annexd(ctx, n):
    rng = ctx.rng
    lines, recs = [], []
    for _ in range(n):
        c = gen_case(rng, False)
        shape, a, b = c["shape"], c["a"], c["b"]
        bb = b if shape != "circle" else max(b, 1)
        sender = rng.choice(["none", "unknown", "pai", "nopai"])
        for _ in range(20):
            cat, xt, yt = gen_target(rng, shape, a, b)
            p = place(c["lat0"], c["lon0"], c["az"], xt, yt)
            if p is not None:
                break
        else:
            p = (c["lat0"], c["lon0"])
        r, _, _ = rs.make_router(1)
        r.ego_position_vector = lpv(r, c["lat"], c["lon"])
        peer = rs.gn_addr(2)
        if sender in ("pai", "nopai"):
            pv = LongPositionVector(gn_addr=peer, tst=TST.set_in_normal_timestamp_milliseconds(T0), latitude=p[0], longitude=p[1], pai=(sender == "pai"))
            r.location_table.new_shb_packet(pv, b"")
        transport = rng.choice(["gbc", "gac"])
        req = GNDataRequest(area=Area(latitude=c["lat0"], longitude=c["lon0"], a=a, b=b, angle=c["az"]),
                            packet_transport_type=PacketTransportType(
                                header_type=HeaderType.GEOBROADCAST if transport == "gbc" else HeaderType.GEOANYCAST,
                                header_subtype=HST[(transport, shape)]))
        try:
            res = r.gn_forwarding_algorithm_selection(req, sender_gn_addr=None if sender == "none" else peer)
            real = {"AREA_FORWARDING": "AREA", "NON_AREA_FORWARDING": "NONAREA", "DISCARTED": "DISCARD"}.get(res.name, res.name)
        except Exception as e:  # noqa: BLE001
            real = "raised:" + type(e).__name__
        ctx.evals()
        x, y = frame_coords(c["lat0"], c["lon0"], c["az"], c["lat"], c["lon"])
        sx, sy = frame_coords(c["lat0"], c["lon0"], c["az"], p[0], p[1])
        if in_band(shape, a, bb, x, y) or (sender in ("pai", "nopai") and in_band(shape, a, bb, sx, sy)):
            ctx.cover("tolerance_skips")
            continue
        ego_in, se_in = oracle_inside(shape, a, bb, x, y), oracle_inside(shape, a, bb, sx, sy)
        want = "AREA" if ego_in else ("DISCARD" if (sender == "pai" and se_in) else "NONAREA")
        tag = dict(c, kind="annexd", sender=sender, se_lat=p[0], se_lon=p[1], transport=transport)
        if real != want:
            ctx.violation(f"Annex D: ego {'inside' if ego_in else 'outside'}, sender {sender} {'inside' if se_in else 'outside'} "
                          f"({shape} a={a} b={b} az={c['az']}): expected {want}, got {real}", tag, classify(tag))
        ctx.cover("annexD_direct_ego%d_%s_se%d" % (ego_in, sender, se_in))
        ctx.nontrivial(("annexd", shape, ego_in, sender, se_in, c["az"] % 90 == 0))
        lines.append(f"F {shape} {a} {bb} {rat(x)} {rat(y)}")
        lines.append(f"F {shape} {a} {bb} {rat(sx)} {rat(sy)}")
        recs.append((tag, real, sender))
    if ctx.model_ok and lines:
        out = ctx.model("Area", lines)
        val = {"+": "1", "0": "0", "-": "-1"}
        l2 = []
        for k, (tag, real, sender) in enumerate(recs):
            f1, f2 = out[2 * k].split()[0], out[2 * k + 1].split()[0]
            se = "none" if sender in ("none", "unknown") else f"{1 if sender == 'pai' else 0}:{val[f2]}"
            l2.append(f"annexd {val[f1]} {se}")
        for (tag, real, sender), mo in zip(recs, ctx.model("Area", l2)):
            if real != mo:
                ctx.mismatch("annexd", tag, real, mo)


# ---------------------------------------------------------------------------------- (e) the trigonometric glue itself

def check_trig(ctx):
    """ties the abstract unit vector (c, s) of the rotation theorems to the code's `math.cos/sin(math.radians(angle))`:
    for EVERY integer azimuth 0..359 (and the Pythagorean ones) the real `Router.rotate_to_area_frame`, applied to the
    output convention of `calculate_distance` (x = -north, y = east), agrees with the Lean `codeFrame` evaluated on the
    exact rational unit vector of that azimuth within 1e-9 relative + 1e-9 m (exactly for quarter turns up to the
    float representation of cos 90 degrees = 6e-17)."""
    rng = ctx.rng
    cases = [{"az": az} for az in range(360)]
    for p, q, d in PYTH:
        for (n, m) in ((p, q), (q, p), (-p, q), (p, -q), (-q, -p)):
            cases.append({"az": math.degrees(math.atan2(m, n)) % 360.0, "cs": [n, m, d]})
    lines, recs = [], []
    for c in cases:
        cs = unit_cs(c)
        for (n, e) in ((1000, 0), (0, 1000), (rng.randrange(-70000, 70001), rng.randrange(-70000, 70001))):
            try:
                rx, ry = Router.rotate_to_area_frame((float(-n), float(e)), c["az"])
            except Exception as ex:  # noqa: BLE001
                ctx.violation(f"rotate_to_area_frame raised {type(ex).__name__} for azimuth {c['az']}", {"kind": "trig", "az": c["az"], "n": n, "e": e})
                continue
            ctx.evals()
            lines.append(f"frame {rat(cs[0])} {rat(cs[1])} {n} {e}")
            recs.append((c, n, e, rx, ry, cs))
    ctx.cover("trig_azimuths", len(cases))
    for (c, n, e, rx, ry, cs) in recs:       # oracle: the rotation of the standard (clockwise from North), own decimal trig
        x, y = to_frame(D(n), D(e), c["az"])
        tol = 1e-9 * (abs(n) + abs(e)) + 1e-9
        if abs(float(-x) - rx) > tol or abs(float(y) - ry) > tol:
            ctx.violation(f"rotate_to_area_frame(({-n}, {e}), {c['az']}) = ({rx!r}, {ry!r}), the rotation by the azimuth gives "
                          f"({float(-x)!r}, {float(y)!r})", {"kind": "trig", "az": c["az"], "n": n, "e": e})
    if ctx.model_ok and lines:
        for (c, n, e, rx, ry, cs), mo in zip(recs, ctx.model("Area", lines)):
            mt = mo.split()
            if len(mt) != 3 or mt[0] != "1":
                ctx.mismatch("trig.unit_vector", {"az": c["az"]}, "c*c+s*s=1", mo)
                continue
            mx, my = Fraction(mt[1]), Fraction(mt[2])
            tol = 1e-9 * (abs(n) + abs(e)) + 1e-9
            if abs(float(mx) - rx) > tol or abs(float(my) - ry) > tol:
                ctx.mismatch("trig.frame", {"az": c["az"], "n": n, "e": e}, [rx, ry], mo)


# ---------------------------------------------------------------------------------- (f) position vectors replaced concurrently
#
# Class: while one link-layer receive thread takes the delivery / Annex D decision for a GBC or GAC packet, another
# thread REPLACES a position vector the decision reads - the sender's LocTE vector (reception of a newer beacon / SHB of
# the sender) or the router's ego vector (refresh_ego_position_vector, GPS thread).  Both threads run on the real Router
# under harness/dsched.py (pre-emption before every attribute/subscript/call bytecode of the four decision functions and
# at every lock operation); schedules with at most `bound` pre-emptions are enumerated.
# Oracle: each of the two decisions of the reception (delivered? / which transmission?) must be the decision the
# property text prescribes for ONE of the vectors the object held (old or new) - a combination of fields of both is a
# vector that never existed.  Cases are steered to pairs (old, new) for which some combination of fields would decide
# differently from both (otherwise any interleaving is invisible).
# Lean side: Props.C07.decision_sees_one_position_vector / annexD_on_one_sender_vector on the load counts of the
# source (Props.C07.position_vectors_read_once_of_source).

_torn_codes = None


def torn_codes():
    global _torn_codes
    if _torn_codes is None:
        _torn_codes = [getattr(Router, n).__code__ for n in ("gn_forwarding_algorithm_selection", "gn_data_indicate_gbc",
                                                              "gn_data_indicate_gac", "gn_data_forward_gbc") if hasattr(Router, n)]
    return _torn_codes


def _in(c, la, lo):
    """(inside?, in the tolerance band?) of a WGS-84 point for the case's area, by the independent projection"""
    bb = c["b"] if c["shape"] != "circle" else max(c["b"], 1)
    x, y = frame_coords(c["lat0"], c["lon0"], c["az"], la, lo)
    return oracle_inside(c["shape"], c["a"], bb, x, y), in_band(c["shape"], c["a"], bb, x, y)


def torn_expect(c, ego, se):
    """(delivered?, transmission) the property prescribes for ego position `ego` = (lat, lon) and sender vector
    `se` = (lat, lon, pai); None if a point lies in the tolerance band"""
    e_in, e_band = _in(c, *ego)
    s_in, s_band = _in(c, se[0], se[1])
    if e_band or s_band:
        return None
    verdict = bool(se[2]) and s_in
    if c["transport"] == "gac":
        return e_in, ("none" if e_in or verdict else "fwd-nonarea")
    return e_in, ("fwd-area" if e_in else ("none" if verdict else "fwd-nonarea"))


def torn_allowed(c):
    """allowed sets (deliver values, transmissions) + sensitivity: would SOME combination of fields of old and new
    decide outside the allowed sets?"""
    ego_o, se_o = (c["lat"], c["lon"]), (c["src_lat"], c["src_lon"], c.get("src_pai", True))
    n = c["new"]
    if c["what"] == "sender":
        pairs = [(ego_o, se_o), (ego_o, (n["lat"], n["lon"], n["pai"]))]
        mixes = [(ego_o, (la, lo, pa)) for la in (se_o[0], n["lat"]) for lo in (se_o[1], n["lon"]) for pa in (se_o[2], n["pai"])]
    else:
        pairs = [(ego_o, se_o), ((n["lat"], n["lon"]), se_o)]
        mixes = [((la, lo), se_o) for la in (ego_o[0], n["lat"]) for lo in (ego_o[1], n["lon"])]
    exp = [torn_expect(c, e, s_) for e, s_ in pairs]
    mx = [torn_expect(c, e, s_) for e, s_ in mixes]
    if any(x is None for x in exp + mx):
        return None
    allowed = ({x[0] for x in exp}, {x[1] for x in exp})
    sensitive = any(m[0] not in allowed[0] or m[1] not in allowed[1] for m in mx)
    return allowed, sensitive


def gen_torn(rng, what=None):
    """a case of the class, steered (by the oracle's own quantities only) to a pair of vectors whose fields can be
    combined into a vector that decides differently"""
    for _ in range(400):
        shape, a, b, az, lat0, lon0 = gen_area(rng, False)
        if abs(lat0) > 800000000 or a < 20 or a > 20000 or (shape != "circle" and (b < 20 or b > 20000)):
            continue
        c = {"kind": "torn", "what": what or rng.choice(["sender", "sender", "ego"]), "transport": rng.choice(["gbc", "gac"]),
             "shape": shape, "a": a, "b": b, "az": az, "lat0": lat0, "lon0": lon0, "hop": rng.choice([3, 10, 255])}

        def somewhere():
            if rng.random() < 0.5:
                return _place_somewhere(rng, c)
            # on the geographic axes through the centre: combinations of one point's latitude with another's longitude
            # fall onto the centre or onto the diagonal
            d = rng.uniform(0.3, 2.5) * max(a, b if shape != "circle" else a)
            p = place(lat0, lon0, 0, rng.choice([-1, 1]) * d, 0.0) if rng.random() < 0.5 else place(lat0, lon0, 0, 0.0, rng.choice([-1, 1]) * d)
            return p or (lat0, lon0)
        if c["what"] == "sender":
            for _ in range(30):               # the forwarder is outside the area (Annex D consults the sender there only)
                c["lat"], c["lon"] = _place_somewhere(rng, c)
                if _in(c, c["lat"], c["lon"]) == (False, False):
                    break
            else:
                continue
        else:
            c["lat"], c["lon"] = somewhere()
        c["src_lat"], c["src_lon"] = somewhere()
        c["src_pai"] = rng.random() < 0.7
        nl = somewhere()
        c["new"] = {"lat": nl[0], "lon": nl[1], "pai": rng.random() < 0.6}
        r = torn_allowed(c)
        if r is not None and r[1]:
            return c
    return None


class TornRun:
    """one execution of a `torn` case: thread T0 = gn_data_indicate(GBC/GAC frame of the source), thread T1 = the
    replacement (gn_data_indicate(SHB of the same station with the new vector) / refresh_ego_position_vector)"""

    def __init__(self, c, policy):
        self.c = c
        with rs.quiet(), rs.VClock(T0):
            code, pkts = originate(dict(c, max_src=10 ** 7))
            if code != "ACCEPTED" or len(pkts) != 1:
                raise Infra(f"torn case: source did not transmit ({code})")
            n = c["new"]
            shb = None
            if c["what"] == "sender":      # a newer single-hop broadcast of the SAME station from its new position
                S, llS, _ = rs.make_router(1)
                S.ego_position_vector = LongPositionVector(gn_addr=S.mib.itsGnLocalGnAddr, tst=TST.set_in_normal_timestamp_milliseconds(T0 + 500),
                                                           latitude=n["lat"], longitude=n["lon"], pai=n["pai"])
                S.gn_data_request(GNDataRequest(upper_protocol_entity=CommonNH.BTP_B, data=b"s", length=1,
                                                packet_transport_type=PacketTransportType(header_type=HeaderType.TSB,
                                                                                          header_subtype=TopoBroadcastHST.SINGLE_HOP)))
                shb = llS.take()[0]
            with dsched.patched([router_mod, loct_mod]):
                B, llB, inds = rs.make_router(2, itsGnMaxGeoAreaSize=10 ** 7, itsGnAreaForwardingAlgorithm=AreaForwardingAlgorithm.SIMPLE)
                B.ego_position_vector = lpv(B, c["lat"], c["lon"])
                greedy = []
                orig = B.gn_greedy_forwarding

                def spy(*a, **k):
                    r = orig(*a, **k)
                    greedy.append(r)
                    return r
                B.gn_greedy_forwarding = spy
                s = dsched.DSched(policy, line_files=(), opcode_codes=torn_codes(), max_steps=40000, line_points=False)
                s.spawn(lambda: B.gn_data_indicate(pkts[0]), name="rx")
                if shb is not None:
                    s.spawn(lambda: B.gn_data_indicate(shb), name="beacon")
                else:
                    tpv = {"lat": n["lat"] / 1e7, "lon": n["lon"] / 1e7, "speed": 0.0, "track": 0.0, "time": "2023-11-14T22:13:20Z"}
                    s.spawn(lambda: B.refresh_ego_position_vector(tpv), name="gps")
                s.run(timeout=30.0)
                sent = llB.take()
        own = [x for x in sent if x[3] == pkts[0][3] - 1 and len(x) == len(pkts[0])]        # the forwarded copy (RHL - 1)
        inds = [i for i in inds if i.packet_transport_type.header_type in (HeaderType.GEOBROADCAST, HeaderType.GEOANYCAST)]
        self.acts = (len(inds) > 0, ("fwd-nonarea" if greedy else "fwd-area") if own else "none")
        self.steps, self.choices = s.steps, [x[0] for x in s.steps]
        al = torn_allowed(c)
        self.allowed = al[0] if al else (set(), set())
        self.bad = []
        if al is None:
            return
        if s.abort_reason:
            self.bad.append(f"run aborted: {s.abort_reason}")
        for ts in s.threads:
            if ts.exc is not None:
                self.bad.append(f"thread {ts.name} raised {type(ts.exc).__name__}")
        obj = "sender's LocTE position vector" if c["what"] == "sender" else "ego position vector"
        if len(inds) > 1 or len(own) > 1:
            self.bad.append(f"{len(inds)} indications / {len(own)} transmissions for one packet")
        if self.acts[0] not in self.allowed[0]:
            self.bad.append(f"{c['transport']} {c['shape']}: packet {'delivered' if self.acts[0] else 'not delivered'} although the station was "
                            f"{'outside' if self.acts[0] else 'inside'} the area with the old AND with the new {obj}")
        if self.acts[1] not in self.allowed[1]:
            self.bad.append(f"{c['transport']} {c['shape']}: forwarding decision '{self.acts[1]}' while Annex D gives {sorted(self.allowed[1])} for the old "
                            f"AND for the new {obj} (replaced by a concurrent thread): decided on a vector that never existed")


def check_torn(ctx, c, bound, cap):
    found, tried = [], [0]

    def once(prefix):
        if found:
            return []
        r = TornRun(c, dsched.Replay(prefix))
        tried[0] += 1
        ctx.evals()
        ctx.cover("torn_schedules")
        if r.bad:
            again = TornRun(c, dsched.Replay(r.choices))
            if again.bad:
                found.append((r.choices, again.bad[0]))
            else:
                ctx.cover("torn_not_reproduced")
        return r.steps

    runs, exhausted = dsched.enumerate_schedules(once, bound, cap, ctx.rng)
    ctx.cover("torn_cases")
    ctx.cover(f"torn_{c['what']}_{c['transport']}")
    if exhausted and not found:
        ctx.cover("torn_cases_all_schedules_within_bound")
    ctx.nontrivial(("torn", c["what"], c["transport"], c["shape"], c["a"], c["b"], c["az"], c["lat0"], c["lon0"]))
    if found:
        ctx.violation(f"concurrent replacement (schedule {tried[0]} of the enumeration): {found[0][1]}", dict(c, schedule=found[0][0]))
    return bool(found)


def torn_fixed():
    """always-on scenarios of the class (circle r = 100 m / rectangle 200 x 50 m at azimuth 0, forwarder 300 m south)"""
    lat0, lon0 = 415000000, 21000000
    out = []
    base = {"kind": "torn", "shape": "circle", "a": 100, "b": 0, "az": 0, "lat0": lat0, "lon0": lon0, "hop": 10}
    ego = place(lat0, lon0, 0, -300.0, 0.0)
    east600, east50, north600 = place(lat0, lon0, 0, 0.0, 600.0), place(lat0, lon0, 0, 0.0, 50.0), place(lat0, lon0, 0, 600.0, 0.0)
    for tr in ("gbc", "gac"):
        # old: outside with PAI / new: inside without PAI - Annex D: non-area forwarding for both
        out.append(dict(base, what="sender", transport=tr, lat=ego[0], lon=ego[1], src_lat=east600[0], src_lon=east600[1], src_pai=True,
                        new={"lat": east50[0], "lon": east50[1], "pai": False}))
        # old: 600 m east / new: 600 m north, both with PAI - old latitude + new longitude = the centre
        out.append(dict(base, what="sender", transport=tr, lat=ego[0], lon=ego[1], src_lat=east600[0], src_lon=east600[1], src_pai=True,
                        new={"lat": north600[0], "lon": north600[1], "pai": True}))
        # the station itself moves from 150 m north to 150 m east of the centre: never inside, combined = the centre
        n150, e150 = place(lat0, lon0, 0, 150.0, 0.0), place(lat0, lon0, 0, 0.0, 150.0)
        out.append(dict(base, what="ego", transport=tr, lat=e150[0], lon=e150[1], src_lat=east600[0], src_lon=east600[1], src_pai=False,
                        new={"lat": n150[0], "lon": n150[1], "pai": True}))
    return out


# ---------------------------------------------------------------------------------- (g) out-of-order histories of the sender
#
# Class: the forwarder has received OTHER frames of the packet's source before the GBC/GAC packet - beacons, SHBs, other
# GBC/GAC packets - with position vectors that are OLDER, EQUAL in time or NEWER than the one in the packet's header
# (a multi-hop packet delayed on a longer path arrives after a newer beacon), the station having moved across the area
# border in between.  Annex C.2 keeps the newest vector in the location table; Annex D's PV_SE is the table's vector.
# Oracle (independent of the code): fold the timestamps (strictly newer replaces), Annex D on the vector that survives.
# Lean: Props.C07.annexD_on_table_vector (all histories), header_vector_witness, annexD_sender_vector_from_location_table_of_source.

EV_TYPES = ("shb", "beacon", "gbc", "gac")


def rx_on(B, llB, inds, pkt):
    """one reception on a prepared router: (actions, error name)"""
    llB.take()
    del inds[:]
    greedy = []
    orig = B.gn_greedy_forwarding

    def spy(*a, **k):
        r = orig(*a, **k)
        greedy.append(r)
        return r
    B.gn_greedy_forwarding = spy
    try:
        B.gn_data_indicate(pkt)
        err = None
    except Exception as e:  # noqa: BLE001
        err = type(e).__name__
    finally:
        del B.gn_greedy_forwarding
    sent = llB.take()
    acts = ["deliver"] * len(inds)
    for _ in sent:
        acts.append("fwd-nonarea" if greedy else "fwd-area")
    return acts, err


def _geo_request(c, transport, hop):
    ht = HeaderType.GEOBROADCAST if transport == "gbc" else HeaderType.GEOANYCAST
    return GNDataRequest(upper_protocol_entity=CommonNH.BTP_B, data=b"c07", length=3,
                         packet_transport_type=PacketTransportType(header_type=ht, header_subtype=HST[(transport, c["shape"])]),
                         area=Area(latitude=c["lat0"], longitude=c["lon0"], a=c["a"], b=c["b"], angle=c["az"]),
                         max_hop_limit=hop, traffic_class=TrafficClass(scf=False))


def history_frames(c):
    """the frames station S (one real Router, address 1) transmits: one per earlier event, then the packet under test.
    Each is generated with S's ego vector = (T0 + dt, position, PAI) of the event."""
    kw = {"itsGnDefaultHopLimit": 1} if c.get("hop", 10) <= 1 else {}
    S, llS, _ = rs.make_router(1, itsGnMaxGeoAreaSize=10 ** 7, **kw)
    out = []
    for ev in c["events"] + [dict(c["pkt"], type=c["transport"])]:
        S.ego_position_vector = LongPositionVector(gn_addr=S.mib.itsGnLocalGnAddr, tst=TST.set_in_normal_timestamp_milliseconds(T0 + ev["dt"]),
                                                   latitude=ev["lat"], longitude=ev["lon"], pai=ev["pai"])
        llS.take()
        if ev["type"] == "beacon":
            S.gn_data_request_beacon()
        elif ev["type"] == "shb":
            S.gn_data_request(GNDataRequest(upper_protocol_entity=CommonNH.BTP_B, data=b"s", length=1,
                                            packet_transport_type=PacketTransportType(header_type=HeaderType.TSB,
                                                                                      header_subtype=TopoBroadcastHST.SINGLE_HOP)))
        else:
            S.gn_data_request(_geo_request(c, ev["type"], c.get("hop", 10)))
        fr = llS.take()
        if len(fr) != 1:
            raise Infra(f"history case: station S produced {len(fr)} frames for a {ev['type']} event")
        out.append(fr[0])
    return out, S.mib.itsGnLocalGnAddr


def history_run(c):
    """returns (actions of the reception under test, error, vector the real location table holds before that reception
    or None, the same after it, errors of the earlier receptions)"""
    frames, s_addr = history_frames(c)
    B, llB, inds = rs.make_router(2, itsGnMaxGeoAreaSize=10 ** 7, itsGnAreaForwardingAlgorithm=AreaForwardingAlgorithm.SIMPLE)
    B.ego_position_vector = lpv(B, c["lat"], c["lon"])
    errs = []
    for fr in frames[:-1]:
        try:
            B.gn_data_indicate(fr)
        except Exception as e:  # noqa: BLE001
            errs.append(type(e).__name__)

    def held():
        e = B.location_table.get_entry(s_addr)
        pv = e.position_vector if e is not None else None
        return None if pv is None else (pv.tst.msec, pv.latitude, pv.longitude, bool(pv.pai))
    before = held()
    acts, err = rx_on(B, llB, inds, frames[-1])
    return acts, err, before, held(), errs, frames[-1][3]


def history_stored(c):
    """oracle, annex C.2: index (into events + [pkt]) of the vector the table holds when Annex D is evaluated - the first
    reception is accepted, afterwards only a strictly newer vector replaces the stored one"""
    seq = c["events"] + [c["pkt"]]
    k = 0
    for i, ev in enumerate(seq):
        if ev["dt"] > seq[k]["dt"]:
            k = i
    return k


def history_expect(c, rhl):
    """(expected actions, description) by the property text for remaining hop limit `rhl` on the wire; None if a deciding
    point lies in the tolerance band"""
    seq = c["events"] + [c["pkt"]]
    k = history_stored(c)
    st = seq[k]
    e_in, e_band = _in(c, c["lat"], c["lon"])
    s_in, s_band = _in(c, st["lat"], st["lon"])
    h_in, h_band = _in(c, c["pkt"]["lat"], c["pkt"]["lon"])
    if e_band or s_band or h_band:
        return None
    verdict = bool(st["pai"]) and s_in
    if c["transport"] == "gac":
        want = ["deliver"] if e_in else ([] if (verdict or rhl <= 1) else ["fwd-nonarea"])
    else:
        want = (["deliver"] if e_in else []) + ([] if rhl <= 1 else (["fwd-area"] if e_in else ([] if verdict else ["fwd-nonarea"])))
    hv = bool(c["pkt"]["pai"]) and h_in
    desc = (f"{c['transport']} {c['shape']} a={c['a']} b={c['b']} azimuth={c['az']}, forwarder {'inside' if e_in else 'outside'}; received from the "
            f"source before: [" + ", ".join(f"{ev['type']}@{ev['dt']:+d}ms" for ev in c["events"]) + f"], then the packet generated at "
            f"{c['pkt']['dt']:+d}ms (header vector: {'inside' if h_in else 'outside'}, PAI={int(c['pkt']['pai'])}); newest vector = the one of "
            f"{'the packet' if k == len(seq) - 1 else 'reception %d (%s@%+dms)' % (k, st['type'], st['dt'])}: "
            f"{'inside' if s_in else 'outside'}, PAI={int(st['pai'])}")
    return want, desc, {"ego_in": e_in, "stored": k, "verdict": verdict, "header_verdict": hv}


def check_histories(ctx, cases, jobs=None):
    lines, recs = [], []
    for c in cases:
        acts, err, before, after, errs, rhl = history_run(c)
        ctx.evals()
        exp = history_expect(c, rhl)
        if exp is None:
            ctx.cover("tolerance_skips")
            continue
        want, desc, q = exp
        tag = dict(c, kind="history")
        seq = c["events"] + [c["pkt"]]
        bad = []
        if err:
            bad.append(f"receive path raised {err}")
        if errs:
            bad.append(f"an earlier reception raised {errs[0]}")
        if not bad and acts != want:
            bad.append(f"expected {want or 'no transmission'}, got {acts or 'nothing'}")
        if bad:
            ctx.violation(desc + " -> " + "; ".join(bad), tag)
        n = len(seq)
        ctx.cover("history_cases")
        ctx.cover(f"history_receptions_{n}")
        ctx.cover("history_packet_" + ("newest" if q["stored"] == n - 1 else
                                       ("tie_with_stored" if seq[q["stored"]]["dt"] == c["pkt"]["dt"] else "older_than_stored")))
        ctx.cover("history_header_vs_table_" + ("differ" if q["verdict"] != q["header_verdict"] else "agree"))
        ctx.cover(f"history_{c['transport']}_ego{int(q['ego_in'])}_table{int(q['verdict'])}_header{int(q['header_verdict'])}")
        for ev in c["events"]:
            ctx.cover("history_event_" + ev["type"])
        ctx.nontrivial(("hist", c["transport"], c["shape"], c["a"], c["b"], c["az"], q["ego_in"], q["verdict"], q["header_verdict"], n,
                        tuple(ev["type"] for ev in c["events"]), q["stored"]))
        # model (driver op `hist`): which reception's vector the table holds, and the decision on that vector
        cs = unit_cs(c)
        bb = c["b"] if c["shape"] != "circle" else max(c["b"], 1)
        nn, ee = local_ne(c["lat0"], c["lon0"], c["lat"], c["lon"])
        ln = f"hist {c['transport']} {rhl} {c['shape']} {c['a']} {bb} {rat(cs[0])} {rat(cs[1])} {rat(nn)} {rat(ee)}"
        for ev in seq:
            nn, ee = local_ne(c["lat0"], c["lon0"], ev["lat"], ev["lon"])
            ln += f" {T0 + ev['dt']} {1 if ev['pai'] else 0} {rat(nn)} {rat(ee)}"
        lines.append(ln)
        recs.append((tag, acts, after))

    def finish(out):
        for (tag, acts, after), mo in zip(recs, out):
            mt = mo.split(" ", 2)
            if len(mt) != 3 or mt[0] != "1" or not mt[1].isdigit():
                ctx.mismatch("history.model_line", tag, "unit vector / index", mo)
                continue
            st = (tag["events"] + [tag["pkt"]])[int(mt[1])]
            model_pv = (TST.set_in_normal_timestamp_milliseconds(T0 + st["dt"]).msec, st["lat"], st["lon"], bool(st["pai"]))
            if after != model_pv:            # the real location table holds another vector than the model's table
                ctx.mismatch("history.table_vector", tag, after, f"reception {mt[1]}: {model_pv}")
            if "[" + " ".join(acts) + "]" != mt[2]:
                ctx.mismatch("history.actions", tag, acts, mo)
    if recs:
        ctx.sample("history", {"case": recs[0][0], "actions": recs[0][1], "table_vector": recs[0][2]})
    _model_jobs(ctx, jobs, lines, finish)


def _model_jobs(ctx, jobs, lines, finish):
    """run (or, when the caller collects several classes into one driver call, queue) the model lines of one class"""
    if jobs is not None:
        jobs.append((lines, finish))
    elif ctx.model_ok and lines:
        finish(ctx.model("Area", lines))


def run_model_jobs(ctx, jobs):
    lines = [ln for ls, _ in jobs for ln in ls]
    if ctx.model_ok and lines:
        out, pos = ctx.model("Area", lines), 0
        for ls, fin in jobs:
            fin(out[pos:pos + len(ls)])
            pos += len(ls)


def gen_history(rng):
    for _ in range(200):
        shape, a, b, az, lat0, lon0 = gen_area(rng, False)
        if abs(lat0) > 800000000 or a < 20 or a > 20000 or (shape != "circle" and (b < 20 or b > 20000)):
            continue
        c = {"kind": "history", "transport": rng.choice(["gbc", "gac", "gac"]), "shape": shape, "a": a, "b": b, "az": az, "lat0": lat0, "lon0": lon0,
             "hop": rng.choice([2, 3, 10, 10, 255, 1])}

        def spot(want_in):
            for _ in range(40):
                p = _place_somewhere(rng, c)
                if _in(c, *p) == (want_in, False):
                    return p
            return None
        ego = spot(rng.random() < 0.15)                    # the forwarder: mostly outside (Annex D consults the sender there only)
        if ego is None:
            continue
        c["lat"], c["lon"] = ego
        evs = []
        for _ in range(rng.choice([1, 1, 2, 3])):
            p = spot(rng.random() < 0.5)
            if p is None:
                break
            evs.append({"type": rng.choice(EV_TYPES), "dt": 100 * rng.randrange(-50, 51), "lat": p[0], "lon": p[1], "pai": rng.random() < 0.75})
        p = spot(rng.random() < 0.5)
        if not evs or p is None:
            continue
        pkt = {"dt": 100 * rng.randrange(-50, 51), "lat": p[0], "lon": p[1], "pai": rng.random() < 0.75}
        if rng.random() < 0.6:
            # steer to the class: the packet is NOT strictly newer than the newest earlier reception, and the station was
            # on the other side of the border then (both with PAI), or had another PAI inside the area
            k = max(range(len(evs)), key=lambda i: (evs[i]["dt"], -i))
            pkt["dt"] = evs[k]["dt"] - rng.choice([0, 100, 2000, 2000, 4900])
            side = rng.random() < 0.5
            pi, po = spot(True), spot(False)
            if pi is None or po is None:
                continue
            mode = rng.choice(["sides", "sides", "pai"])
            if mode == "sides":
                (evs[k]["lat"], evs[k]["lon"]), (pkt["lat"], pkt["lon"]) = (pi, po) if side else (po, pi)
                evs[k]["pai"] = pkt["pai"] = True
            else:
                (evs[k]["lat"], evs[k]["lon"]), (pkt["lat"], pkt["lon"]) = pi, spot(True) or pi
                evs[k]["pai"], pkt["pai"] = side, not side
        c["events"], c["pkt"] = evs, pkt
        return c
    return None


def history_fixed():
    """always-on scenarios of the class: rectangle 300 m x 80 m of azimuth 30 degrees, forwarder 900 m beyond the far end
    of the long axis; the source is heard 50 m from the centre (inside) and 700 m out on the short axis (outside)"""
    lat0, lon0 = -337000000, 1510000000
    base = {"kind": "history", "shape": "rect", "a": 300, "b": 80, "az": 30, "lat0": lat0, "lon0": lon0, "hop": 10}
    ego = place(lat0, lon0, 30, -1200.0, 0.0)
    pin, pout = place(lat0, lon0, 30, 50.0, 10.0), place(lat0, lon0, 30, 0.0, 700.0)
    out = []
    for tr in ("gac", "gbc"):
        for ev_type, (pn, po) in (("beacon", (pout, pin)), ("shb", (pin, pout)), ("gbc", (pout, pin)), ("gac", (pin, pout))):
            # newer reception first, then the packet generated 2 s earlier on the other side of the border
            out.append(dict(base, transport=tr, lat=ego[0], lon=ego[1],
                            events=[{"type": ev_type, "dt": 1500, "lat": pn[0], "lon": pn[1], "pai": True}],
                            pkt={"dt": -500, "lat": po[0], "lon": po[1], "pai": True}))
        # in order (older beacon first): the packet's vector is the table's vector
        out.append(dict(base, transport=tr, lat=ego[0], lon=ego[1],
                        events=[{"type": "beacon", "dt": -2000, "lat": pin[0], "lon": pin[1], "pai": True}],
                        pkt={"dt": 0, "lat": pout[0], "lon": pout[1], "pai": True}))
    return out


# ---------------------------------------------------------------------------------- (h) ego position: histories of TPV reports
#
# Class: the receiving station's position is what its location service reported LAST WITH A POSITION FIX.  The reports
# (gpsd TPV objects handed to Router.refresh_ego_position_vector) lack every subset of {lat, lon, speed, track}: gpsd
# leaves out what it has no value for - a report without fix (mode 0/1) has no lat/lon, a report with a fix may have no
# speed/track.  Judged on the FOLLOWING GBC and GAC packets by the placement oracle: delivered iff the position of the
# last report that carried lat AND lon (or the position before the history) is inside / at the border of the area -
# whatever the code does with the other reports (exception or not).  Areas around the true position and around 0 N 0 E.
# Lean: Props.C07.delivery_after_tpv_history / delivery_without_any_fix; variant before fix C07-F4: speed/track required.

def stable_coord(v):
    """an integer 1e-7 degree value that survives the float round trip of the code (int(v / 1e7 * 10**7) == v)"""
    for d in (0, 1, -1, 2, -2, 3):
        if int(((v + d) / 1e7) * 10 ** 7) == v + d:
            return v + d
    return v


def tpv_of(r, i):
    t = {"class": "TPV", "device": "/dev/ttyACM0", "time": "2023-11-14T22:13:%02d.000Z" % (20 + i % 40)}
    if r.get("mode") is not None:
        t["mode"] = r["mode"]
    if r.get("lat") is not None:
        t["lat"] = r["lat"] / 1e7
    if r.get("lon") is not None:
        t["lon"] = r["lon"] / 1e7
    if r.get("speed"):
        t["speed"] = 1.25
    if r.get("track"):
        t["track"] = 271.5
    return t


_TPV_VARIANT = None


def detect_tpv_variant():
    """variant of the real code (defect C07-F4): is a report WITH lat/lon but without speed/track accepted?"""
    global _TPV_VARIANT
    if _TPV_VARIANT is None:
        B = rs.make_router(2)[0]
        B.ego_position_vector = lpv(B, 415000000, 21000000)
        try:
            B.refresh_ego_position_vector(tpv_of({"lat": 416000000, "lon": 22000000, "mode": 2}, 0))
        except Exception:  # noqa: BLE001
            pass
        _TPV_VARIANT = "optional" if B.ego_position_vector.latitude == 416000000 else "required"
    return _TPV_VARIANT


def egohist_truth(c):
    """oracle: the station's position = the last report with lat AND lon, else the position it had before"""
    pos = tuple(c["ego0"])
    for r in c["reports"]:
        if r.get("lat") is not None and r.get("lon") is not None:
            pos = (r["lat"], r["lon"])
    return pos


def feed_gpsd(B, reports):
    """the reports reach the router the way they do in a deployment: through the receive loop of the real
    `GPSDLocationService` (its TCP socket replaced by a scripted one, the loop run synchronously in this thread) with
    `Router.refresh_ego_position_vector` registered as callback.  Returns one entry per report: None (handled), the name
    of the exception that ENDED the service loop, or "lost" (never delivered because the loop had ended)."""
    import json
    import logging
    import threading
    import types
    import flexstack.utils.gpsd_location_service as gmod
    q = [json.dumps(tpv_of(r, i)).encode() for i, r in enumerate(reports)]
    n = len(q)
    svc = gmod.GPSDLocationService.__new__(gmod.GPSDLocationService)
    gmod.LocationService.__init__(svc)
    svc.logger, svc.gpsd_host, svc.gpsd_port, svc.stop_event = logging.getLogger("GPSDLocationService"), "localhost", 2947, threading.Event()

    class Sock:
        def connect(self, addr):
            pass

        def send(self, data):
            return len(data)

        def close(self):
            pass

        def recv(self, size):
            if q:
                return q.pop(0)
            svc.stop_event.set()
            return b""
    svc.socket = Sock()
    svc.add_callback(B.refresh_ego_position_vector)
    old = gmod.socket
    gmod.socket = types.SimpleNamespace(socket=lambda *a, **k: Sock(), AF_INET=0, SOCK_STREAM=0, setdefaulttimeout=lambda t: None)
    try:
        svc.start()
        return [None] * n
    except Exception as e:  # noqa: BLE001
        done = n - len(q)
        return [None] * (done - 1) + [type(e).__name__] + ["lost"] * len(q)
    finally:
        gmod.socket = old


def egohist_run(c, transport):
    """(actions, error, real ego (lat, lon) after the history, exception names of the reports)"""
    code, pkts = originate(dict(c, transport=transport, max_src=10 ** 7))
    if code != "ACCEPTED" or len(pkts) != 1:
        raise Infra(f"egohist case: source did not transmit ({code})")
    B, llB, inds = rs.make_router(2, itsGnMaxGeoAreaSize=10 ** 7, itsGnAreaForwardingAlgorithm=AreaForwardingAlgorithm.SIMPLE)
    B.ego_position_vector = lpv(B, *c["ego0"])
    excs = []
    if c.get("via") == "gpsd":
        excs = feed_gpsd(B, c["reports"])
    else:
        for i, r in enumerate(c["reports"]):
            try:
                B.refresh_ego_position_vector(tpv_of(r, i))
                excs.append(None)
            except Exception as e:  # noqa: BLE001
                excs.append(type(e).__name__)
    ego = (B.ego_position_vector.latitude, B.ego_position_vector.longitude)
    acts, err = rx_on(B, llB, inds, pkts[0])
    return acts, err, ego, excs


def _rep_str(r):
    miss = [k for k in ("lat", "lon") if r.get(k) is None] + [k for k in ("speed", "track") if not r.get(k)]
    return ("fix" if r.get("lat") is not None and r.get("lon") is not None else "no-fix") + \
        (f"(mode {r['mode']})" if r.get("mode") is not None else "") + ("-without-" + "/".join(miss) if miss else "")


def check_egohist(ctx, cases, jobs=None):
    lines, recs = [], []
    variant = detect_tpv_variant()
    for c in cases:
        truth = egohist_truth(c)
        t_in, t_band = _in(c, *truth)
        s_in, s_band = _in(c, c["src_lat"], c["src_lon"])
        tag = dict(c, kind="egohist")
        ego = None
        for transport in ("gbc", "gac"):
            acts, err, ego, excs = egohist_run(c, transport)
            ctx.evals()
            if t_band or s_band:
                ctx.cover("tolerance_skips")
                continue
            verdict = bool(c.get("src_pai", True)) and s_in
            if transport == "gac":
                want = ["deliver"] if t_in else ([] if verdict else ["fwd-nonarea"])
            else:
                want = ["deliver", "fwd-area"] if t_in else ([] if verdict else ["fwd-nonarea"])
            bad = []
            if err:
                bad.append(f"receive path raised {err}")
            elif acts != want:
                bad.append(f"expected {want or 'no transmission'}, got {acts or 'nothing'}")
            if bad:
                ctx.violation(f"{transport} {c['shape']} a={c['a']} b={c['b']} azimuth={c['az']} centre=({c['lat0']},{c['lon0']}): after the position "
                              f"reports [{', '.join(_rep_str(r) for r in c['reports'])}] the station's last fixed position is {truth} "
                              f"({'inside' if t_in else 'outside'} the area), the router's ego position is {ego}"
                              + (f" [reports fed through GPSDLocationService: its loop ended with {next(e for e in excs if e)}, {excs.count('lost')} later "
                                 f"report(s) never reached the router]" if c.get("via") == "gpsd" and any(excs) else "") + ": " + "; ".join(bad), tag)
            ctx.cover(f"egohist_{transport}_{'in' if t_in else 'out'}")
        ctx.cover("egohist_cases")
        ctx.cover("egohist_via_" + c.get("via", "callback"))
        for r, e in zip(c["reports"], excs):
            miss = "".join(k[0] for k in ("lat", "lon") if r.get(k) is None) + "".join(k[0] for k in ("speed", "track") if not r.get(k))
            ctx.cover("egohist_report_missing_" + (miss or "nothing") + ("_raised_" + e if e else ""))
            if r.get("mode") is not None:
                ctx.cover(f"egohist_report_mode_{r['mode']}")
        last = c["reports"][-1] if c["reports"] else {}
        ctx.cover("egohist_last_report_" + ("fix" if last.get("lat") is not None and last.get("lon") is not None else "no_fix"))
        if abs(c["lat0"]) < 10 ** 5 and abs(c["lon0"]) < 10 ** 5:
            ctx.cover("egohist_area_around_0N_0E")
        ctx.nontrivial(("egohist", c["shape"], c["a"], c["b"], c["az"], t_in, s_in, tuple(_rep_str(r) for r in c["reports"])))
        if variant == "required" and c.get("via") == "gpsd":
            continue        # code before fix C07-F4: the service loop ends at the first rejected report (not modelled; judged by the oracle)
        lines.append(f"ego {1 if variant == 'required' else 0} {c['ego0'][0]} {c['ego0'][1]} " + " ".join(
            "%s,%s,%d,%d" % ("-" if r.get("lat") is None else r["lat"], "-" if r.get("lon") is None else r["lon"],
                             1 if r.get("speed") else 0, 1 if r.get("track") else 0) for r in c["reports"]))
        recs.append((tag, ego))
    def finish(out):
        for (tag, ego), mo in zip(recs, out):
            if ego is not None and mo != f"{ego[0]} {ego[1]}":
                ctx.mismatch("egohist.position", tag, list(ego), mo)
    if recs:
        ctx.sample("egohist", {"case": recs[0][0], "ego_after": recs[0][1], "variant": variant})
    _model_jobs(ctx, jobs, [ln.rstrip() for ln in lines], finish)


def gen_egohist(rng):
    for _ in range(200):
        shape, a, b, az, lat0, lon0 = gen_area(rng, False)
        if abs(lat0) > 800000000 or a < 50 or a > 20000 or (shape != "circle" and (b < 50 or b > 20000)):
            continue
        where = rng.choice(["origin", "origin", "anywhere", "anywhere", "anywhere"])
        if where == "origin":           # an area that contains 0 N 0 E (the place a missing lat/lon read as 0.0 would mean)
            lat0, lon0 = rng.randrange(-200, 201), rng.randrange(-200, 201)
        c = {"kind": "egohist", "shape": shape, "a": a, "b": b, "az": az, "lat0": lat0, "lon0": lon0, "hop": rng.choice([2, 10, 255])}
        if where == "origin" and _in(c, 0, 0) != (True, False):
            continue

        def spot(want_in):
            for _ in range(40):
                p = _place_somewhere(rng, c)
                p = (stable_coord(p[0]), stable_coord(p[1]))
                if _in(c, *p) == (want_in, False) and (abs(p[0]) > 10 ** 6 or abs(p[1]) > 10 ** 6 or where != "origin" or not want_in or rng.random() < 0.3):
                    return p
            return None
        far = (stable_coord(rng.randrange(-800000000, 800000001)), stable_coord(rng.randrange(-1700000000, 1700000001)))

        def anywhere(want_in):
            if not want_in and rng.random() < 0.4 and _in(c, *far) == (False, False):
                return far
            return spot(want_in)
        src = spot(rng.random() < 0.4)
        ego0 = anywhere(rng.random() < 0.5)
        if src is None or ego0 is None:
            continue
        c["src_lat"], c["src_lon"], c["src_pai"], c["ego0"] = src[0], src[1], rng.random() < 0.6, list(ego0)
        reps = []
        for _ in range(rng.choice([1, 2, 2, 3, 4, 6])):
            has = {k: rng.random() < 0.7 for k in ("lat", "lon", "speed", "track")}
            kind = rng.choice(["full", "full", "nofix", "nofix", "subset", "fix_no_motion"])
            if kind == "full":
                has = dict.fromkeys(has, True)
            elif kind == "nofix":
                has.update(lat=False, lon=False)
            elif kind == "fix_no_motion":
                has.update(lat=True, lon=True, speed=rng.random() < 0.3, track=False)
            p = anywhere(rng.random() < 0.5)
            if p is None:
                break
            fix = has["lat"] and has["lon"]
            reps.append({"lat": p[0] if has["lat"] else None, "lon": p[1] if has["lon"] else None, "speed": has["speed"], "track": has["track"],
                         "mode": rng.choice([2, 3, 3, None]) if fix else rng.choice([0, 1, 1, 1, None])})
        if not reps:
            continue
        c["reports"] = reps
        if rng.random() < 0.3:
            c["via"] = "gpsd"
        return c
    return None


def egohist_fixed():
    """always-on scenarios: ellipse 400 m x 150 m at azimuth 75 degrees in the southern / western hemisphere, and the same
    shape around 0 N 0 E; fix inside, then the fix is lost (mode 1 / mode 0 / no mode, with and without stray attributes)"""
    out = []
    for lat0, lon0 in ((-229000000, -431000000), (120, -80)):
        base = {"kind": "egohist", "shape": "ellipse", "a": 400, "b": 150, "az": 75, "lat0": lat0, "lon0": lon0, "hop": 10, "src_pai": True}
        pin = tuple(stable_coord(v) for v in place(lat0, lon0, 75, 120.0, -30.0))
        pout = tuple(stable_coord(v) for v in place(lat0, lon0, 75, 100.0, 900.0))
        far = (stable_coord(523000000), stable_coord(134000000))
        src = place(lat0, lon0, 75, -2000.0, 300.0)
        b2 = dict(base, src_lat=src[0], src_lon=src[1])
        full = {"speed": True, "track": True, "mode": 3}
        for lost in ({"lat": None, "lon": None, "speed": False, "track": False, "mode": 1},
                     {"lat": None, "lon": None, "speed": True, "track": True, "mode": 0},
                     {"lat": None, "lon": pin[1], "speed": False, "track": True, "mode": None}):
            out.append(dict(b2, ego0=list(far), reports=[dict(full, lat=pin[0], lon=pin[1]), lost]))
            out.append(dict(b2, ego0=list(pin), reports=[dict(full, lat=far[0], lon=far[1]), lost, lost]))
        # through the location service's loop: fix, outage, fix somewhere else - and the same arriving without course
        out.append(dict(b2, via="gpsd", ego0=list(far), reports=[dict(full, lat=pin[0], lon=pin[1]),
                                                                  {"lat": None, "lon": None, "speed": False, "track": False, "mode": 1},
                                                                  dict(full, lat=pout[0], lon=pout[1])]))
        out.append(dict(b2, via="gpsd", ego0=list(far), reports=[{"lat": None, "lon": None, "speed": False, "track": False, "mode": 0},
                                                                  {"lat": pin[0], "lon": pin[1], "speed": True, "track": False, "mode": 2}]))
        # a fix without course / speed (standstill), arriving and leaving
        out.append(dict(b2, ego0=list(pout), reports=[{"lat": pin[0], "lon": pin[1], "speed": True, "track": False, "mode": 2}]))
        out.append(dict(b2, ego0=list(pin), reports=[{"lat": pout[0], "lon": pout[1], "speed": False, "track": False, "mode": 3},
                                                     {"lat": None, "lon": None, "speed": False, "track": False, "mode": 1}]))
    return out


# ---------------------------------------------------------------------------------- degenerate semi-axes

def degenerate_cases():
    out = []
    for shape in SHAPES:
        for a, b in ((0, 0), (0, 5), (5, 0)):
            out.append({"shape": shape, "a": a, "b": b, "az": 0, "lat0": 415000000, "lon0": 21000000, "lat": 415000100, "lon": 21000100, "cat": "degenerate"})
    return out


FIXED_DIRECT = [
    # exact oblique azimuth (3-4-5): rectangle 100 x 10 m, receiver 30 m north / 40 m east lies on the long axis
    {"shape": "rect", "a": 100, "b": 10, "az": math.degrees(math.atan2(4, 3)), "cs": [3, 4, 5], "lat0": 415000000, "lon0": 21000000,
     "lat": 415002698, "lon": 21004802, "cat": "witness"},
    # C07-F1 witness: rectangle 100 x 10 m at azimuth 90 deg; receiver 50 m east (inside) and 50 m north (outside)
    {"shape": "rect", "a": 100, "b": 10, "az": 90, "lat0": 415000000, "lon0": 21000000, "lat": 415000000, "lon": 21006003, "cat": "witness"},
    {"shape": "rect", "a": 100, "b": 10, "az": 90, "lat0": 415000000, "lon0": 21000000, "lat": 415004497, "lon": 21000000, "cat": "witness"},
    {"shape": "ellipse", "a": 1000, "b": 100, "az": 45, "lat0": -337000000, "lon0": -703000000, "lat": -336950000, "lon": -702940000, "cat": "witness"},
    # C07-F2 witness: circle across the antimeridian
    {"shape": "circle", "a": 1000, "b": 0, "az": 0, "lat0": 100000000, "lon0": 1799990000, "lat": 100000000, "lon": -1799990000, "cat": "witness"},
]


def run(ctx):
    ctx.extra["rule"] = ("placements = (shape, a, b, azimuth, centre, receiver) with the receiver steered to centre / deep inside / "
                         "near the border inside and outside / far outside / on the a- and b-axes; distinct_nontrivial counts "
                         "distinct (shape, a, b, azimuth, centre degree cell, verdict) direct cases, distinct packet decision inputs, "
                         "source requests and Annex D input combinations")
    ctx.extra["glue"] = "projection+rotation, tolerance-banded (0.5 m + 0.1 % of the distance from the centre)"
    rng = ctx.rng
    with rs.quiet(), rs.VClock(T0):
        corp = [c for _, c in corpus("C07")]
        ctx.cover("corpus_cases", len(corp))
        check_direct(ctx, [c for c in corp if c.get("kind") == "direct"] + FIXED_DIRECT + degenerate_cases(), "F.corpus")
        pk = [c for c in corp if c.get("kind") == "packet"]
        if pk:
            check_packets(ctx, pk)
        for c in [c for c in corp if c.get("kind") == "source"]:
            code, pkts = originate(c)
            ctx.evals()
            for w in judge_source(c, code, pkts)[2]:
                ctx.violation("corpus: " + w, c)
        key = detect_se_key()
        ctx.extra["variant"] = {"C07-KF1": "Annex D keyed by the packet's SOURCE (code as is)" if key == "source"
                                else "Annex D keyed by the SENDER (repaired)"}
        check_direct(ctx, [gen_case(rng, False) for _ in range(ctx.scale(8000, 600000))])
        check_direct(ctx, [gen_case(rng, False, pyth=True) for _ in range(ctx.scale(600, 40000))], "F.pythagorean")
        if ctx.thorough:   # azimuth swept in 1 degree steps
            sweep = []
            for az in range(360):
                for _ in range(40):
                    c = gen_case(rng, False)
                    c["az"] = az
                    p = place(c["lat0"], c["lon0"], az, *gen_target(rng, c["shape"], c["a"], c["b"])[1:])
                    if p:
                        c["lat"], c["lon"] = p
                        sweep.append(c)
            check_direct(ctx, sweep, "F.sweep")
            ctx.cover("azimuth_sweep_1deg", 360)
        check_fseq(ctx, [c for c in corp if c.get("kind") == "fseq"] + fseq_fixed() +
                   [gen_fseq(rng) for _ in range(ctx.scale(300, 30000))])
        check_packets(ctx, [gen_packet_case(rng) for _ in range(ctx.scale(2200, 120000))])
        check_source(ctx, ctx.scale(300, 20000))
        check_annexd(ctx, ctx.scale(600, 60000))
        check_trig(ctx)
        jobs = []        # the two state classes share one driver call
        check_histories(ctx, [c for c in corp if c.get("kind") == "history"] + history_fixed() +
                        [c for c in (gen_history(rng) for _ in range(ctx.scale(150, 6000))) if c is not None], jobs)
        check_egohist(ctx, [c for c in corp if c.get("kind") == "egohist"] + egohist_fixed() +
                      [c for c in (gen_egohist(rng) for _ in range(ctx.scale(120, 5000))) if c is not None], jobs)
        run_model_jobs(ctx, jobs)
    # thread scenarios (own clock / patched locks inside TornRun)
    for c in [c for _, c in corpus("C07") if c.get("kind") == "torn"]:
        r = TornRun(c, dsched.Replay(c.get("schedule", [])))
        ctx.evals()
        if r.bad:
            ctx.violation("corpus: " + r.bad[0], c)
    for c in torn_fixed():
        check_torn(ctx, c, 1, ctx.scale(400, 4000))
    for i in range(ctx.scale(4, 150)):
        c = gen_torn(rng)
        if c is None:
            ctx.cover("torn_no_sensitive_pair_found")
            continue
        if i == 0:
            ctx.sample("torn", c)
        check_torn(ctx, c, ctx.scale(1, 2), ctx.scale(80, 800))


def search(ctx):
    ok = ctx.model_ok
    ctx.model_ok = False
    try:
        with rs.quiet(), rs.VClock(T0):
            check_direct(ctx, [gen_case(ctx.rng, False) for _ in range(ctx.scale(12000, 300000))])
            check_fseq(ctx, fseq_fixed() + [gen_fseq(ctx.rng) for _ in range(ctx.scale(1500, 30000))])
            check_packets(ctx, [gen_packet_case(ctx.rng) for _ in range(ctx.scale(4500, 100000))])
            check_source(ctx, ctx.scale(900, 20000))
            check_annexd(ctx, ctx.scale(1800, 60000))
            check_histories(ctx, history_fixed() + [c for c in (gen_history(ctx.rng) for _ in range(ctx.scale(500, 12000))) if c is not None])
            check_egohist(ctx, egohist_fixed() + [c for c in (gen_egohist(ctx.rng) for _ in range(ctx.scale(400, 10000))) if c is not None])
        if not ctx.violations:
            for c in torn_fixed():
                if check_torn(ctx, c, 2, ctx.scale(1200, 12000)):
                    break
        for _ in range(ctx.scale(20, 400)):
            if ctx.violations:
                break
            c = gen_torn(ctx.rng)
            if c is not None:
                check_torn(ctx, c, ctx.scale(1, 2), ctx.scale(250, 2500))
    finally:
        ctx.model_ok = ok


class _Probe:
    """minimal ctx for replay: collects violations only"""

    def __init__(self, ctx):
        self.ctx, self.v, self.kf = ctx, [], []
        self.model_ok, self.rng, self.thorough = False, ctx.rng, False
        self.known = {k["id"] for k in getattr(ctx, "known", []) if k.get("status") == "known"}

    def violation(self, what, replay, finding=None):
        (self.kf if finding in self.known else self.v).append(what)

    def scale(self, q, t):
        return q

    def __getattr__(self, name):
        return lambda *a, **k: None


def replay(ctx, obj):
    case = obj.get("case", obj)
    kind = case.get("kind")
    p = _Probe(ctx)
    with rs.quiet(), rs.VClock(T0):
        if kind == "direct":
            check_direct(p, [case])
        elif kind == "fseq":
            check_fseq(p, [case])
        elif kind == "packet":
            check_packets(p, [case])
        elif kind == "source":
            code, pkts = originate(case)
            p.v.extend(judge_source(case, code, pkts)[2])
        elif kind == "torn":
            r = TornRun(case, dsched.Replay(case.get("schedule", [])))
            print(f"schedule with {dsched.preemptions(r.steps)} pre-emption(s): observed {r.acts}, allowed deliver {sorted(r.allowed[0])} / forward {sorted(r.allowed[1])}")
            p.v.extend(r.bad)
        elif kind == "history":
            check_histories(p, [case])
        elif kind == "egohist":
            check_egohist(p, [case])
        elif kind == "annexd":
            return _replay_annexd(case)
        elif kind == "trig":
            rx, ry = Router.rotate_to_area_frame((float(-case["n"]), float(case["e"])), case["az"])
            x, y = to_frame(D(case["n"]), D(case["e"]), case["az"])
            tol = 1e-9 * (abs(case["n"]) + abs(case["e"])) + 1e-9
            print(f"rotate_to_area_frame -> ({rx!r}, {ry!r}); rotation by the azimuth -> ({float(-x)!r}, {float(y)!r})")
            return abs(float(-x) - rx) > tol or abs(float(y) - ry) > tol
        else:
            raise Infra(f"unknown replay kind {kind}")
    print("oracle:", p.v or "ok", ("known finding: %s" % p.kf) if p.kf else "")
    return bool(p.v)


def _replay_annexd(c):
    shape, a, b = c["shape"], c["a"], c["b"]
    bb = b if shape != "circle" else max(b, 1)
    with rs.quiet(), rs.VClock(T0):
        r, _, _ = rs.make_router(1)
        r.ego_position_vector = lpv(r, c["lat"], c["lon"])
        peer = rs.gn_addr(2)
        if c["sender"] in ("pai", "nopai"):
            r.location_table.new_shb_packet(LongPositionVector(gn_addr=peer, tst=TST.set_in_normal_timestamp_milliseconds(T0),
                                                               latitude=c["se_lat"], longitude=c["se_lon"], pai=(c["sender"] == "pai")), b"")
        req = GNDataRequest(area=Area(latitude=c["lat0"], longitude=c["lon0"], a=a, b=b, angle=c["az"]),
                            packet_transport_type=PacketTransportType(
                                header_type=HeaderType.GEOBROADCAST if c["transport"] == "gbc" else HeaderType.GEOANYCAST,
                                header_subtype=HST[(c["transport"], shape)]))
        res = r.gn_forwarding_algorithm_selection(req, sender_gn_addr=None if c["sender"] == "none" else peer)
    real = {"AREA_FORWARDING": "AREA", "NON_AREA_FORWARDING": "NONAREA", "DISCARTED": "DISCARD"}.get(res.name, res.name)
    x, y = frame_coords(c["lat0"], c["lon0"], c["az"], c["lat"], c["lon"])
    sx, sy = frame_coords(c["lat0"], c["lon0"], c["az"], c["se_lat"], c["se_lon"])
    ego_in, se_in = oracle_inside(shape, a, bb, x, y), oracle_inside(shape, a, bb, sx, sy)
    want = "AREA" if ego_in else ("DISCARD" if (c["sender"] == "pai" and se_in) else "NONAREA")
    print(f"Annex D: real {real}, expected {want}")
    return real != want
